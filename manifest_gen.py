#!/usr/bin/env python3
"""Generates MANIFEST.json (kept as a generator so that level texts stay next to each other)."""
import json, os

HERE = os.path.dirname(os.path.abspath(__file__))

TB = "rustc nightly front end / MIR construction / constant evaluator; the Python analysis in /verif/analysis; the reference models named in DESIGN.md §4"

P = {
 "C01": ("other", "E1 must-facts + E8 intervals and floor-linear forms + finite quarter table (both profiles) + E9 cancellation lint + provenance over MIR",
  "Decides for all inputs: latitude outside [-pi/2, pi/2] (incl. NaN) never reaches a normal return of hash/hash_with_dxdy (both build profiles in the thorough tier); the base-cell part of the result is <= 11 for every float input. Decides as necessary conditions: the longitude range reduction keeps the in-quarter offset in [-1,1] and the quarter in [0,3] for up to 8 turns; the cell number is assembled as (base cell << 2*depth) | z-order(i, j). Does NOT decide containment of the position in the cell nor i,j < nside (float rounding). Also: the quarter returned by xpm1_and_q equals floor(x/2) mod 4 (mirrored for lon < 0) in 130 folded cases and never panics, in the release and the dev profile; no `1 -/+ trig` cancelling form on the hash path.", "§5 C01"),
 "C02": ("other", "taint (depth-independence) + per-depth constant extraction + provenance of the scaling/truncation/clamp chain",
  "Checks on the code the four premises of the paper proof of the prefix property: (P1) base cell and in-base-cell coordinates come from a function that reads nothing of the layer; (P2) scaling is an exact power of two per depth, added to the exponent bits: time_half_nside = (depth-1)<<52 for all 30 depths; (P3) the scaled float reaches `as u32` with no other float operation; (P4) the clamp compares with nside = 2^depth and substitutes nside-1. The lemma's float side conditions are argued on paper, not checked.", "§5 C02"),
 "C03": ("other", "E1 must-facts with callee inlining + E4 constant extraction per depth + E6 symbolic vertex forms and rotate-scale identity + E9",
  "Decides for all inputs: a cell number >= n_hash never reaches a normal return of the 9 Layer accessors and 6 free wrappers, with n_hash = 12*4^depth extracted from Layer::new for the 30 depths; sph_coo rejects offsets outside [0,1); the four vertices returned by vertices() and by vertex()/vertices_map() are the same projection-plane points (S,E,N,W offsets). Round trips through hash are float numerics and are not decided. Also: shift_rotate_scale is ((x+y+1), (y+9-x)) * 2^(depth-1) for the 30 depths incl. depth 0; no cancelling form on the accessor / hash paths. Also: in hash_with_dxdy the axis the base-cell step forces to the last row/column gets offset 1.0 (21 finite keys), its tie-breaks compare base-cell-level quantities (not the floor at this depth) and the corrected cell coordinates are the ones decoded.", "§5 C03"),
 "C04": ("other", "E4 per-key table extraction (SCCP) compared with an independent vertex-sharing topology model + E1 guards + provenance of the glue",
  "Decides for all cells and depths (unbounded inputs stay symbolic): out-of-range cell numbers are rejected by neighbours/neighbour; the MainWind direction algebra; every entry of the three seam tables (12 base cells x 9 directions) equals the neighbour derived from the HEALPix vertex topology at nside 2, 4, 8 (which pins the symbolic form, hence every depth); the base-cell tables in lib.rs agree; the glue passes (i+di, j+dj) and the base-cell direction in the right slots. What remains informal is the composition of these verified pieces along neighbours()'s top-level control flow. Also: the depth-0 helper neighbour(base_cell, direction) has a value exactly for base_cell < 12 (all 2304 inputs).", "§5 C04"),
 "C05": ("other", "control dependence + provenance over MIR + E9 cancellation lint (necessary conditions only)",
  "Necessary conditions of the no-miss claim, decided on the code: a cell is discarded only on the failed comparison with the OUTER threshold (radius + cell bound); all four children are visited; the per-depth bound is indexed in step with the depth; the same radius is used everywhere; the custom variant keeps a coarse cell whenever a deeper one maps to it; the outer threshold argument is clamped at pi; every haversine call site passes the cosines of the right latitudes; the depth-0 bound agrees across the sibling helpers. The geometric claim itself (bounds are bounds, haversine rounding) is not decided. Also: no `1 - cos d` / law-of-cosines form in the distance computations of the cone path. Also: the value compared with the outer threshold is capped at the threshold's saturation value 1.", "§5 C05"),
 "C06": ("other", "E1 facts + control dependence + must-pass-through on def-use chains + E9",
  "Decides: radius >= pi returns exactly push_all(0, 0, 12, true); 'full' is pushed only under the inner threshold; every push is under one of the two thresholds; the 'no full cell' sentinel makes the full test unsatisfiable; the small-cone branch sorts, then de-duplicates, then pushes; every returned BMOC passes through pack, which merges only four full siblings under the exact look-ahead bound. Geometric correctness of the thresholds and pack's fixpoint are not decided. Also: no cancelling form in the distance computations.", "§5 C06"),
 "C07": ("other", "E4 truth tables at emission sites + must-pass-through on loop back edges (necessary conditions only)",
  "Necessary conditions of the set-algebra claim: or/xor return through pack; full/full flag rules per operator; every cycle of the merge loops advances a cursor; drains follow or/xor. Equality with the set operation for all pairs of trees is not decided.", "§5 C07"),
 "C08": ("other", "E4 truth tables of the emitted flag at every emission site (site-level necessary conditions)",
  "The flag emitted at each push site of not/and/or/xor as a function of the input flags equals the documented three-valued rule for that site. That the sites compose to the documented map on whole BMOCs is not decided.", "§5 C08"),
 "C09": ("other", "E5 GF(2) bit-vector proofs of the cell codec for all depth pairs + E3 ordered-emission shape + who-may-construct + per-path push invariant",
  "Proves for all 465 (depth <= depth_max) pairs and all hash bits: every decoder inverts build_raw_value. Necessary conditions: producers emit in z-order (recursion shape, sorted roots), BMOC values are only constructed by the builder finalisers, views share the proved decoders. Also: BMOCBuilderFixedDepth::push keeps `sorted == true` equivalent to a strictly increasing buffer on every path.", "§5 C09"),
 "C10": ("other", "E7 lossy int->f64->sqrt->int chain rule + use-def identity of region boundaries",
  "Necessary conditions: on every returning path a float square root used as a ring index is either exact (operand < 2^52 under the facts of that path) or corrected against the integer it came from; no 32-bit product/shift/sum of the ring arithmetic can wrap for depth <= 29; to_ring and from_ring use the same two boundary terms and one triangular-number definition. Decided for all (i, j) per depth and base cell, as polynomial identities: the ring number to_ring assigns is the model's n(2 + b div 4) - (i + j + 2), and the first index of that ring is the number of cells of the rings before it in each of the three regions; the ring layout helpers have their closed forms in nside. The position inside the ring, from_ring's inverse arithmetic and hence bijectivity are not decided.", "§5 C10"),
 "C11": ("other", "E1 must-facts + E7 + E6/E6' identities (polynomials, floor-polynomials by residue classes) + finite box table + E9",
  "Decides: out-of-range cell numbers, latitudes and offsets never reach a normal return of the RING accessors; necessary: exact integer square root in center_of_projected_cell; n_hash, first_hash_* and n_isolatitude_rings equal their closed forms as polynomials in nside (4i cells in polar ring i, 4 nside in equatorial rings). Containment / round trip are not decided. Also, for every nside incl. odd ones: the layout arithmetic of ring::hash per region (first index of the ring, polar caps mirror each other), the centre of every cell is the centre of the box ring::hash maps to it (both parities of ring and nside), and for nside <= 4 (7 thorough) every box the 1x1-box step can leave, gap boxes and pole rows included, gives the model's cell without panicking in either profile.", "§5 C11"),
 "C12": ("other", "control dependence + sortedness typestate + provenance + truth table of the longitude-range test + E9 (necessary conditions only)",
  "Necessary conditions: a cell in the vertex-cell list is never discarded; the list is built from every polygon vertex and sorted before binary search; 'full' only under n == 4 vertices inside; roots sorted; every polygon vertex enters the maximum that sizes the bounding cone. Tightness and the point-in-polygon predicate are not decided. Also: is_in_lon_range is the cyclic half-open arc of the shorter way round at 448 triples incl. ties.", "§5 C12"),
 "C13": ("other", "E1 must-facts + typestate/shape rules + hemisphere rule + E9",
  "Decides: a semi-major axis >= pi/2 never reaches a normal return of any of the five entry points (both profiles in thorough), and the ellipse is only constructed under the guard. Necessary: ordered emission, packed result, 'full' only if contains_cone or all four vertices inside. Geometry not decided. Also: contains / contains_cone reach the ellipse test only on the near hemisphere. Also: no arc cosine of a dot product on the distance path (E9).", "§5 C13"),
 "C14": ("other", "E5 bit-vector proofs per delta_depth + E4 tables vs topology model + E1 domain guard",
  "Proves for every delta_depth 1..=29: corner helpers and side helpers produce hash*4^delta | the spread of the fixed/running coordinate. Decides: facing-direction tables agree with the topology model; the convenience functions accept every depth+delta <= 29. internal_edge_sorted's index arithmetic is not decided.", "§5 C14"),
 "C15": ("other", "E5 bit-vector proofs of lower-depth re-encoding + must-pass-through + per-path push invariant + level bound (necessary conditions only)",
  "Proves the raw-value re-encoding when lowering depth for all triples; necessary: to_bmoc returns Some after any drain, drains merge with `or`, pack only merges four full siblings. Coverage equality for all push sequences is not decided. Also: the merge level of the fixed-depth builder is bounded by its depth on every path; push keeps `sorted` equivalent to strictly increasing.", "§5 C15"),
 "C16": ("other", "control dependence on the unrolled decision tree + table data check + E1",
  "Decides for all radii: each leaf of best_starting_depth returns the deepest depth whose tabulated limit exceeds r (given the table is strictly decreasing, which is checked on the data), and the refusal matches has_best_starting_depth; necessary: the table follows the 1/nside pattern to second order, the sibling helpers agree on the depth-0 and polar-cap bounds, and with debug assertions on no path pins an input-derived value to a single point. That the table values bound real cell sizes is not decided. Also: the tabulated limits do not exceed the analytic width of the narrowest cells (0.68877 / nside, depth >= 12); the polar-cap bound adds the cone's half-width in longitude (read at sample points) and the scalar and multi-depth variants agree; comparisons established only in the dev profile on a reduced longitude hold on its whole range.", "§5 C16"),
 "C17": ("other", "E1 must-facts + E8 floor-linear forms + finite lookup table vs model + E9",
  "Decides: arguments outside [-pi/2,pi/2] / [-2,2] never reach a normal return of proj/unproj. Necessary: the longitude reduction yields offset in [0,7] and remainder in [-1,1] for up to 8 turns; base_cell_from_proj_coo read as a lookup table equals the topology model on 48 points including the diagonal seams. The formulae and the inverse property are not decided. Also: the table is read on the outer edges of the polar facets and at the poles (one of the base cells meeting there); the edge clamp is two-sided. Also: the threshold below which unproj skips the division by sqrt(3(1-|z|)) excludes 0 and costs at most 0.6413 * threshold <= 1e-14 rad; the lookup table is also read in the dev profile and at x = 8.", "§5 C17"),
 "C18": ("proof", "E5 GF(2)-affine bit-vector abstract interpretation of every ZOrderCurve impl + E4 dispatch extraction + per-depth symbolic uniq round trip",
  "Every clause of the statement is decided for all inputs: for each implementation in the default, +bmi2 (and cfg(test)) builds the derived bit-vector of i02h/oj2h/ij2h/ij2i∘h2ij/ij2j∘h2ij equals the interleave specification on the coordinate width the dispatcher uses it for; get_zoc's selection is extracted for the 30 depths and rejects depth > 29; uniq and IVOA uniq round trips hold per depth with the hash symbolic.", "§5 C18"),
 "C19": ("other", "E6 polynomial identities over (dx, dy) per arm + E4 arm extraction + rotate-scale identity + E9",
  "For each of the 8 arms the weights are extracted as polynomials in (dx, dy): their sum is identically 1, each is non-negative on the arm's box, the barycentre identities hold with the verified direction offsets, the missing corner carries weight 0. Also: shift_rotate_scale scales by nside/2 at every depth incl. 0; no cancelling form. The identities are proved for all (dx, dy); that the cell and the offsets handed to the weights by hash_with_dxdy are the right ones, and that the neighbour tables are right, is decided (as far as it is) under C03 and C04 — three defects repaired there (F16, F17, F19) changed the result of bilinear_interpolation while these identities held, which is why the level claimed is not 'proof'.", "§5 C19"),
 "C20": ("proof", "typestate + must-facts (dominance) analysis of every access to the crate's `static mut` items under std::sync::Once",
  "Every access to LAYERS / CSTS_C2V in the crate is either the single write inside the closure given to call_once on the paired Once slot with the same index, or a read at a point where call_once on that slot has returned on every path; the constructors have one call site; the pointer to the static never escapes; the shared types have no interior mutability and no &mut self method. With Once's contract this is the property for every interleaving.", "§5 C20"),
}

IMPLEMENTED = None


def main():
    impl = sorted(f[:-3].upper() for f in os.listdir(os.path.join(HERE, "analysis", "rules")) if f.startswith("c") and f[1:3].isdigit() and f.endswith(".py") and len(f) == 6)
    checks = []; na = []
    for pid in sorted(P):
        cat, tech, text, ref = P[pid]
        if pid in impl:
            checks.append({
                "property_id": pid,
                "quick_cmd": "./check %s --tier quick" % pid,
                "thorough_cmd": "./check %s --tier thorough" % pid,
                "evidence_file": "/verif/evidence/%s.json" % pid,
                "replay_cmd_template": "./check %s --tier thorough  # replay file {path} names the construct" % pid,
                "engine": "hpx-facts + analysis",
                "level_claimed": {"category": cat, "text": text, "design_ref": "DESIGN.md " + ref},
                "level_note": "Trusted base: " + TB + ". Static only: no code of the crate is executed, no solver is called.",
                "technique": "static analysis: " + tech,
            })
        else:
            na.append({"property_id": pid, "reason": "check under construction in this session (static rule designed in DESIGN.md %s, not yet registered)" % ref})
    m = {
        "version": 1,
        "setup_cmd": "cd /verif/driver && cargo build --release --offline",
        "hooks": {"guard": "cdshealpix_verif", "enable": "none needed: the analysis reads the compiler's MIR of the unmodified crate", "baseline_off_cmd": "cd /repo && cargo test --workspace --no-fail-fast --offline", "source_commits": [], "add_only": True},
        "engines": [
            {"name": "hpx-facts", "path": "/verif/driver", "serves_properties": sorted(P), "kind_free_text": "rustc_private driver dumping type-checked MIR, evaluated constants, static initialisers, ADTs and the impl table as JSON"},
            {"name": "analysis", "path": "/verif/analysis", "serves_properties": sorted(P), "kind_free_text": "Python abstract interpreters over MIR: symbolic terms with must-facts (E1/E4), static-mut typestate (E2), GF(2) bit-vectors (E5), polynomials (E6), lossy-cast chains (E7), intervals and floor-linear forms (E8), HEALPix topology reference model"},
        ],
        "checks": checks,
        "not_applicable": na,
        "notes": "Family: static analysis. Five genuine defects were found by the rules and repaired by unguarded 'fix:' commits in /repo (see known_findings.json and DESIGN.md §6).",
    }
    with open(os.path.join(HERE, "MANIFEST.json"), "w") as fh:
        json.dump(m, fh, indent=1)
    print("MANIFEST.json: %d checks, %d not_applicable" % (len(checks), len(na)))


if __name__ == "__main__":
    main()
