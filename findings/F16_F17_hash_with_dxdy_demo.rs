use cdshealpix::nested::get_or_create;
use std::f64::consts::PI;
fn dist(l1: f64, b1: f64, l2: f64, b2: f64) -> f64 { let s = ((b2-b1)*0.5).sin().powi(2) + b1.cos()*b2.cos()*((l2-l1)*0.5).sin().powi(2); 2.0*s.sqrt().min(1.0).asin() }
fn main() {
  let mut bad = 0u64; let mut n = 0u64; let mut badw = 0u64;
  let mut lons: Vec<f64> = vec![];
  for k in 0..5 { let m = k as f64 * PI / 2.0; lons.push(m); lons.push(m + 1e-15); lons.push((m - 1e-15).max(0.0)); lons.push(m + 1e-9); }
  for i in 0..40 { lons.push(2.0 * PI * (i as f64 + 0.31) / 40.0); }
  let mut lats: Vec<f64> = vec![PI / 2.0, -PI / 2.0, (2.0f64/3.0).asin(), -(2.0f64/3.0).asin(), 0.0];
  for i in 0..120 { lats.push(-PI / 2.0 + PI * (i as f64 + 0.53) / 120.0); }
  for &d in &[0u8, 1, 2, 3, 5, 8, 13, 20, 29] { let layer = get_or_create(d);
    for &lon in &lons { for &lat in &lats {
        n += 1;
        let r = std::panic::catch_unwind(std::panic::AssertUnwindSafe(|| { let (h, dx, dy) = layer.hash_with_dxdy(lon, lat); let (l, b) = layer.sph_coo(h, dx.min(1.0 - 1e-16).max(0.0), dy.min(1.0 - 1e-16).max(0.0)); (h, dx, dy, l, b) }));
        match r { Ok((h, dx, dy, l, b)) => { let dd = dist(lon, lat, l, b);
            let tol = 1e-9_f64.max(4.0 * 1e-15);
            if dd > tol || !(dx >= 0.0 && dx <= 1.0 && dy >= 0.0 && dy <= 1.0) { bad += 1; if bad <= 12 { println!("depth {} lon {} lat {}: hash_with_dxdy = ({}, {}, {}) sph_coo -> dist {:.3e}", d, lon, lat, h, dx, dy, dd); } } },
          Err(_) => { bad += 1; if bad <= 12 { println!("depth {} lon {} lat {}: PANIC", d, lon, lat); } } }
        // bilinear: weights non-negative, sum to 1
        let r = std::panic::catch_unwind(std::panic::AssertUnwindSafe(|| layer.bilinear_interpolation(lon, lat)));
        match r { Ok(w) => { let s: f64 = w.iter().map(|p| p.1).sum(); if (s - 1.0).abs() > 1e-12 || w.iter().any(|p| p.1 < -1e-15) { badw += 1; if badw <= 8 { println!("depth {} lon {} lat {}: weights {:?}", d, lon, lat, w); } } },
          Err(_) => { badw += 1; if badw <= 8 { println!("depth {} lon {} lat {}: bilinear PANIC", d, lon, lat); } } }
    } } }
  println!("{} positions, {} bad offsets, {} bad weights", n, bad, badw);
}
