use cdshealpix::{proj, base_cell_from_proj_coo};
use cdshealpix::nested::hash;
fn main() {
  for &(lon, lat) in &[(0.0_f64, 60.0_f64), (90.0, 60.0), (180.0, 75.0), (0.0, 50.0), (90.0, 89.0), (0.0,-60.0), (90.0,-60.0), (45.0, 60.0), (10.0, 60.0)] {
    let (x, y) = proj(lon.to_radians(), lat.to_radians());
    let r = std::panic::catch_unwind(|| base_cell_from_proj_coo(x, y));
    println!("lon={} lat={} proj=({}, {}) base_cell_from_proj_coo={:?} nested::hash(0)={}", lon, lat, x, y, r, hash(0, lon.to_radians(), lat.to_radians()));
  }
  println!("dyadic (0.5,1.5): {:?}", std::panic::catch_unwind(|| base_cell_from_proj_coo(0.5, 1.5)));
  println!("dyadic (1.5,1.5): {:?}", std::panic::catch_unwind(|| base_cell_from_proj_coo(1.5, 1.5)));
  println!("dyadic (0.5,-1.5): {:?}", std::panic::catch_unwind(|| base_cell_from_proj_coo(0.5, -1.5)));
  println!("dyadic (1.5,-1.5): {:?}", std::panic::catch_unwind(|| base_cell_from_proj_coo(1.5, -1.5)));
}
