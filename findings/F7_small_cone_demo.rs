use cdshealpix::nested::*;
use cdshealpix::best_starting_depth;
fn main(){
  // deterministic LCG
  let mut s: u64 = 12345;
  let mut rnd = || { s = s.wrapping_mul(6364136223846793005).wrapping_add(1442695040888963407); ((s >> 11) as f64) / ((1u64<<53) as f64) };
  let mut miss = 0; let mut tot = 0; let mut first = None;
  for _ in 0..200000 {
    let depth = 3 + (rnd()*6.0) as u8;
    let lon = rnd() * 6.283185307179586;
    let lat = (rnd()*2.0-1.0) * 1.55;
    // radius such that best_starting_depth >= depth
    let r = 10f64.powf(-1.0 - rnd()*3.0);
    if r >= 0.8 { continue; }
    if best_starting_depth(r) < depth { continue; }
    let l = get_or_create(depth);
    let moc = l.cone_coverage_approx(lon, lat, r);
    let cells: Vec<u64> = moc.flat_iter().collect();
    tot += 1;
    // points strictly inside the cone
    for k in 0..16 {
      let a = (k as f64) * 0.39269908169872414;
      let rr = r * 0.98;
      // small-angle offset on the sphere (good enough well inside the cone since rr < r)
      let plat = lat + rr * a.sin();
      if plat.abs() >= 1.5707 { continue; }
      let plon = lon + rr * a.cos() / plat.cos().max(lat.cos());
      // true angular distance check
      let d = { let sdlat=((plat-lat)*0.5).sin(); let sdlon=((plon-lon)*0.5).sin(); 2.0*(sdlat*sdlat+lat.cos()*plat.cos()*sdlon*sdlon).sqrt().asin() };
      if d >= r { continue; }
      let mut pl = plon % 6.283185307179586; if pl < 0.0 { pl += 6.283185307179586; }
      let h = l.hash(pl, plat);
      if cells.binary_search(&h).is_err() {
        miss += 1;
        if first.is_none() { first = Some((depth, lon, lat, r, pl, plat, h, d)); }
        break;
      }
    }
  }
  println!("cones in small-cone branch: {}  cones missing a touched cell: {}  first: {:?}", tot, miss, first);
}
