use cdshealpix::ring::{hash, hash_with_dxdy, center, sph_coo, n_hash};
use cdshealpix::{nested, proj};
use std::f64::consts::PI;

fn contained(nside: u32, h: u64, lon: f64, lat: f64) -> bool {
  if h >= n_hash(nside) { return false; }
  let (cl, cb) = center(nside, h);
  let (cx, cy) = proj(cl, cb);
  let (px, py) = proj(lon, lat);
  let tol = 1e-9;
  // the same sphere point may have two images in the polar caps (gap): also try the image on the other side of the meridian
  let mut cands = vec![(px, py)];
  if py.abs() > 1.0 {
    // mirror with respect to the nearest facet border x = 2k (points at distance d west of the border <-> d east of it)
    let k = (px / 2.0).round();
    cands.push((2.0 * (2.0 * k) - px - 0.0, py));   // reflection about x = 2k
  }
  for (x, y) in cands {
    let mut dx = (x - cx).abs() % 8.0; if dx > 4.0 { dx = 8.0 - dx; }
    if dx + (y - cy).abs() <= 1.0 / (nside as f64) + tol { return true; }
  }
  false
}

fn main() {
  let mut errs = 0u64; let mut checks = 0u64;
  let mut lats: Vec<f64> = vec![-PI / 2.0, PI / 2.0, 0.0, (2.0f64 / 3.0).asin(), -(2.0f64 / 3.0).asin()];
  for i in 0..400 { lats.push(-PI / 2.0 + PI * (i as f64 + 0.37) / 400.0); }
  let mut lons: Vec<f64> = vec![];
  for k in 0..9 { lons.push(k as f64 * PI / 4.0); }
  for i in 0..60 { lons.push(2.0 * PI * (i as f64 + 0.123) / 60.0); }
  lons.push(2.0 * PI - 1e-15); lons.push(1e-15); lons.push(PI / 2.0 - 1e-15); lons.push(PI / 2.0 + 1e-15); lons.push(-PI / 2.0); lons.push(-1e-12);
  // (1) powers of two: ring::hash == nested -> ring
  for d in 0..7u8 {
    let nside = 1u32 << d; let layer = nested::get_or_create(d);
    for &lon in &lons { for &lat in &lats {
      checks += 1;
      let r = std::panic::catch_unwind(|| hash(nside, lon, lat));
      let e = layer.to_ring(layer.hash(lon, lat));
      match r { Ok(h) if h == e => {}, Ok(h) => { if contained(nside, h, lon, lat) { /* border tie: another owner convention */ } else { errs += 1; if errs < 15 { println!("nside={} lon={} lat={}: ring::hash={} nested->ring={}", nside, lon, lat, h, e); } } },
        Err(_) => { errs += 1; if errs < 15 { println!("nside={} lon={} lat={}: PANIC", nside, lon, lat); } } }
    } }
  }
  println!("(1) power-of-two comparison: {} checks, {} errors", checks, errs);
  // (2) any nside: result in range and containing; centres hash back
  let mut errs2 = 0u64; let mut checks2 = 0u64;
  for nside in (1u32..=24).chain([31u32, 33, 63, 100, 101, 255, 1000, 1001].iter().cloned()) {
    if nside <= 24 { for h in 0..n_hash(nside) { let (l, b) = center(nside, h); checks2 += 1; match std::panic::catch_unwind(|| hash(nside, l, b)) { Ok(x) if x == h => {}, other => { errs2 += 1; if errs2 < 15 { println!("nside={} hash(center({})) = {:?}", nside, h, other); } } } } }
    for &lon in &lons { for &lat in &lats {
      checks2 += 1;
      match std::panic::catch_unwind(|| hash(nside, lon, lat)) {
        Ok(h) if h < n_hash(nside) && contained(nside, h, lon, lat) => {},
        other => { errs2 += 1; if errs2 < 15 { println!("nside={} lon={} lat={}: {:?} (n_hash={})", nside, lon, lat, other, n_hash(nside)); } } }
    } }
  }
  println!("(2) any nside: {} checks, {} errors", checks2, errs2);
  // (3) sph_coo inverts hash_with_dxdy when both offsets < 1
  let mut errs3 = 0u64; let mut checks3 = 0u64; let mut cats = std::collections::BTreeMap::new();
  for &nside in &[1u32, 2, 3, 4, 5, 7, 8, 16, 33] {
    for &lon in &lons { for &lat in &lats {
      if lat.abs() >= PI / 2.0 { continue; }
      match std::panic::catch_unwind(|| hash_with_dxdy(nside, lon, lat)) {
        Ok((h, dx, dy)) => { if dx < 1.0 && dy < 1.0 && h < n_hash(nside) { checks3 += 1; let (l, b) = sph_coo(nside, h, dx, dy);
            let d = ((lat.sin() * b.sin()) + lat.cos() * b.cos() * (lon - l).cos()).min(1.0).acos();
            if d > 1e-7 { let cap = if lat > 0.7297276562269663 { "N" } else if lat < -0.7297276562269663 { "S" } else { "E" };
              let mer = { let m = (lon / (PI / 2.0)).round() * (PI / 2.0); if (lon - m).abs() < 1e-9 { "meridian" } else { "other" } };
              let off = if dx > 0.999999 { "dx~1" } else if dy > 0.999999 { "dy~1" } else if dx < 1e-6 { "dx~0" } else if dy < 1e-6 { "dy~0" } else { "mid" };
              *cats.entry(format!("{} {} {}", cap, mer, off)).or_insert(0u64) += 1;
              errs3 += 1; if *cats.get(&format!("{} {} {}", cap, mer, off)).unwrap() <= 3 { println!("nside={} lon={} lat={}: hash_with_dxdy=({}, {}, {}) sph_coo -> ({}, {}) dist {}", nside, lon, lat, h, dx, dy, l, b, d); } } } },
        Err(_) => { errs3 += 1; } }
    } }
  }
  println!("categories: {:?}", cats);
  println!("(3) sph_coo o hash_with_dxdy: {} checks, {} errors", checks3, errs3);
  if errs + errs2 + errs3 > 0 { std::process::exit(1); }
}
