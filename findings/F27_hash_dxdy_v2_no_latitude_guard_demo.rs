use cdshealpix::nested::get_or_create;
fn main() {
  for depth in [0u8, 3, 12, 29].iter() {
    let l = get_or_create(*depth);
    for lat in [2.0_f64, -2.0, 1.6, std::f64::NAN, 10.0].iter() {
      let r = std::panic::catch_unwind(std::panic::AssertUnwindSafe(|| l.hash_dxdy_v2(1.0, *lat)));
      let r2 = std::panic::catch_unwind(std::panic::AssertUnwindSafe(|| l.hash(1.0, *lat)));
      println!("depth {} lat {}: hash_dxdy_v2 -> {:?} (n_hash = {}); hash -> {}", depth, lat, r.as_ref().ok(), l.n_hash(), if r2.is_ok() {"value"} else {"panic"});
    }
  }
}
