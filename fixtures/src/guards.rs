const HALF_PI: f64 = std::f64::consts::FRAC_PI_2;

fn check(lat: f64) { assert!(-HALF_PI <= lat && lat <= HALF_PI); }

/// good twin: guard through a helper every path calls
pub fn lat_good(lat: f64) -> f64 { check(lat); lat.sin() }

/// good twin: same guard written as an early exit
pub fn lat_good_if(lat: f64) -> f64 {
  if !(-HALF_PI <= lat && lat <= HALF_PI) { panic!("latitude out of range"); }
  lat.sin()
}

/// bad twin: the guard only exists with debug assertions
pub fn lat_bad_debug_only(lat: f64) -> f64 { debug_assert!(-HALF_PI <= lat && lat <= HALF_PI); lat.sin() }

/// bad twin: one-sided
pub fn lat_bad_one_sided(lat: f64) -> f64 { assert!(lat <= HALF_PI); lat.sin() }

pub struct Lay { pub n_hash: u64 }
impl Lay {
  pub fn good(&self, hash: u64) -> u64 { assert!(hash < self.n_hash); hash >> 2 }
  pub fn good_flipped(&self, hash: u64) -> u64 { if self.n_hash <= hash { panic!("too large"); } hash >> 2 }
  pub fn bad(&self, hash: u64) -> u64 { hash >> 2 }
}
