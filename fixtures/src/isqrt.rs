/// bad twin: float square root of a 64-bit integer used as an exact index
pub fn ring_bad(hash: u64) -> u64 { (((1 + (hash << 1)) as f64).sqrt() as u64 - 1) >> 1 }

/// good twin: the estimate is checked against the integer it came from
pub fn ring_good(hash: u64) -> u64 {
  let mut r = (((1 + (hash << 1)) as f64).sqrt() as u64 - 1) >> 1;
  if 2 * r * (r + 1) > hash { r -= 1; } else if 2 * (r + 1) * (r + 2) <= hash { r += 1; }
  r
}

/// good twin: operand provably below 2^52
pub fn ring_small(hash: u32) -> u64 { (((1 + ((hash as u64) << 1)) as f64).sqrt() as u64 - 1) >> 1 }
