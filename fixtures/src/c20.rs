use std::sync::Once;

pub struct Obj { pub depth: u8 }
impl Obj { fn new(depth: u8) -> Obj { Obj { depth } } }
pub struct Obj2 { pub depth: u8 }
impl Obj2 { fn new(depth: u8) -> Obj2 { Obj2 { depth } } }

static mut GOOD_SLOTS: [Option<Obj>; 4] = [None, None, None, None];
static GOOD_INIT: [Once; 4] = [Once::new(), Once::new(), Once::new(), Once::new()];
static mut BAD_SLOTS: [Option<Obj2>; 4] = [None, None, None, None];
static BAD_INIT: [Once; 4] = [Once::new(), Once::new(), Once::new(), Once::new()];

/// good twin: call_once unconditionally, then read
pub fn get_good(depth: u8) -> &'static Obj {
  unsafe {
    GOOD_INIT[depth as usize].call_once(|| {
      GOOD_SLOTS[depth as usize] = Some(Obj::new(depth));
    });
    match GOOD_SLOTS[depth as usize] {
      Some(ref v) => v,
      _ => unreachable!(),
    }
  }
}

/// bad twin: racy fast path reading the slot before any synchronisation
pub fn get_bad(depth: u8) -> &'static Obj2 {
  unsafe {
    match BAD_SLOTS[depth as usize] {
      Some(ref v) => return v,
      None => {
        BAD_INIT[depth as usize].call_once(|| {
          BAD_SLOTS[depth as usize] = Some(Obj2::new(depth));
        });
      },
    }
    match BAD_SLOTS[depth as usize] {
      Some(ref v) => v,
      _ => unreachable!(),
    }
  }
}
