//! Known-good / known-bad twins compiled through the same fact extractor on every run:
//! positive controls for rules whose expected number of violations on the real crate is zero.
#![allow(static_mut_refs, dead_code, unused)]
pub mod c20;
pub mod guards;
pub mod isqrt;
pub mod zoc;

/// same name and signature as the crate's helper: the haversine sibling rule looks it up by path
#[inline(never)]
pub fn squared_half_segment(dlon: f64, dlat: f64, cos_lat1: f64, cos_lat2: f64) -> f64 {
  (0.5 * dlat).sin().powi(2) + cos_lat1 * cos_lat2 * (0.5 * dlon).sin().powi(2)
}

pub fn hav_good(lon1: f64, lat1: f64, lon2: f64, lat2: f64) -> f64 {
  squared_half_segment(lon2 - lon1, lat2 - lat1, lat1.cos(), lat2.cos())
}

/// cosine of a longitude where the cosine of the latitude is needed
pub fn hav_bad(lon1: f64, lat1: f64, lon2: f64, lat2: f64) -> f64 {
  squared_half_segment(lon2 - lon1, lat2 - lat1, lon1.cos(), lat2.cos())
}

/// cancellation twins: sin^2(d/2) in the half-angle form and in the cancelling short form
pub fn shs_half_angle(d: f64) -> f64 { let s = (0.5 * d).sin(); s * s }
pub fn shs_one_minus_cos(d: f64) -> f64 { 0.5 * (1.0 - d.cos()) }
pub fn polar_radius_half_angle(lat: f64) -> f64 { 6.0_f64.sqrt() * (0.5 * lat + std::f64::consts::FRAC_PI_4).cos() }
pub fn polar_radius_one_minus_sin(lat: f64) -> f64 { (3.0 * (1.0 - lat.sin())).sqrt() }

/// angular distance twins: atan2 of the cross and dot products, and the arc cosine of the dot product
pub fn ang_dist_atan2(lat1: f64, lat2: f64, dlon: f64) -> f64 {
  let (s1, c1) = lat1.sin_cos(); let (s2, c2) = lat2.sin_cos(); let (sd, cd) = dlon.sin_cos();
  let x = c2 * sd; let y = c1 * s2 - s1 * c2 * cd; let z = s1 * s2 + c1 * c2 * cd;
  (x * x + y * y).sqrt().atan2(z)
}
pub fn ang_dist_acos(lat1: f64, lat2: f64, dlon: f64) -> f64 {
  let (s1, c1) = lat1.sin_cos(); let (s2, c2) = lat2.sin_cos();
  (s1 * s2 + c1 * c2 * dlon.cos()).acos()
}
