//! Known-good / known-bad twins compiled through the same fact extractor on every run:
//! positive controls for rules whose expected number of violations on the real crate is zero.
#![allow(static_mut_refs, dead_code, unused)]
pub mod c20;
