/// good twin: 16-bit spread (XOR-shift form)
pub fn spread_good(i: u32) -> u64 {
  let mut i = i as u16;
  i = ((i << 4) | i) & 0x0F0Fu16;
  i = ((i << 2) | i) & 0x3333u16;
  i = ((i << 1) | i) & 0x5555u16;
  i as u64
}

/// bad twin: one mask typo (0x3333 -> 0x3331)
pub fn spread_bad(i: u32) -> u64 {
  let mut i = i as u16;
  i = ((i << 4) | i) & 0x0F0Fu16;
  i = ((i << 2) | i) & 0x3331u16;
  i = ((i << 1) | i) & 0x5555u16;
  i as u64
}

static SPREAD4: [u16; 16] = [0x00, 0x01, 0x04, 0x05, 0x10, 0x11, 0x14, 0x15, 0x40, 0x41, 0x44, 0x45, 0x50, 0x51, 0x54, 0x55];

/// loop twins: the same table look-ups, written out and as a loop with a concrete trip count
pub fn lut_unrolled(i: u32) -> u64 {
  let n: [u8; 2] = [(i & 15) as u8, ((i >> 4) & 15) as u8];
  (SPREAD4[n[0] as usize] | SPREAD4[n[1] as usize] << 8) as u64
}
pub fn lut_loop(i: u32) -> u64 {
  let n: [u8; 2] = [(i & 15) as u8, ((i >> 4) & 15) as u8];
  let mut r = 0_u16;
  for (k, &nibble) in n.iter().enumerate() {
    r |= SPREAD4[nibble as usize] << (8 * k);
  }
  r as u64
}
/// bad loop twin: the second nibble lands one bit too high
pub fn lut_loop_bad(i: u32) -> u64 {
  let n: [u8; 2] = [(i & 15) as u8, ((i >> 4) & 15) as u8];
  let mut r = 0_u16;
  for (k, &nibble) in n.iter().enumerate() {
    r |= SPREAD4[nibble as usize] << (9 * k);
  }
  r as u64
}
