/// good twin: 16-bit spread (XOR-shift form)
pub fn spread_good(i: u32) -> u64 {
  let mut i = i as u16;
  i = ((i << 4) | i) & 0x0F0Fu16;
  i = ((i << 2) | i) & 0x3333u16;
  i = ((i << 1) | i) & 0x5555u16;
  i as u64
}

/// bad twin: one mask typo (0x3333 -> 0x3331)
pub fn spread_bad(i: u32) -> u64 {
  let mut i = i as u16;
  i = ((i << 4) | i) & 0x0F0Fu16;
  i = ((i << 2) | i) & 0x3331u16;
  i = ((i << 1) | i) & 0x5555u16;
  i as u64
}
