"""Symbolic abstract interpreter over MIR (engine E4 of DESIGN.md, also the carrier of E1 facts).

A classical forward abstract interpretation over the CFG with joins at merge points; no path is
enumerated and nothing of the analysed crate is executed.  The value domain is a flat lattice of
*terms* over named unknowns (parameters, opaque call results, phi symbols introduced at joins),
with constant folding (sparse conditional constant propagation: a branch whose discriminant folds
to a constant has one successor).  The state also carries a *must* set of branch facts
(comparisons known to have succeeded / failed on every path to the program point); the meet at
joins is set intersection.  Local callees are analysed in place (bounded inlining, recursion cut),
so a guard established by a helper that every path calls is a fact of the caller.

Terms (Python tuples):
  ('c', ty, v)                constant; ints as Python ints (signed for signed types), floats as
                              raw IEEE bits (exact), bool 0/1
  ('p', name)                 parameter of the entry function
  ('sym', key)                opaque unknown (result of an un-modelled call, havoc)
  ('phi', key)                value merged at a join (operands recorded in Engine.phi_ops)
  ('op', name, ty, a, b)      binary operation     ('un', name, ty, a)   unary operation
  ('cast', kind, to_ty, a)
  ('fld', base, i) ('deref', base) ('idx', base, i) ('dc', base, variant) ('discr', base)
  ('call', name, args)        result of a pure modelled external function
  ('agg', kind, tag, fields)  tuple / array / struct / enum variant / closure value
  ('ref', fk, local, path)    reference to a place of an analysed frame
  ('ref_t', place_term)       reference to a symbolic place
  ('static', path)            the place of a static item;   ('fn', path)   a function item
  ('undef',)
"""
import struct
from mir import INT_TYS, tykey, callee_name, f64_from_bits, f64_to_bits

UNDEF = ('undef',)
UNIT = ('c', 'unit', 0)


def C(ty, v):
    return ('c', ty, v)


def is_const(t):
    return t[0] == 'c'


def wrap_int(ty, v):
    w, s = INT_TYS[ty]
    v &= (1 << w) - 1
    if s and v >> (w - 1): v -= 1 << w
    return v


def mk_bool(b):
    return ('c', 'bool', 1 if b else 0)


CMP = {"lt", "le", "gt", "ge", "eq", "ne"}
NEG = {"lt": "ge", "le": "gt", "gt": "le", "ge": "lt", "eq": "ne", "ne": "eq"}
SWAP = {"lt": "gt", "le": "ge", "gt": "lt", "ge": "le", "eq": "eq", "ne": "ne"}

PURE_EXTERNALS = {
    # name -> arity (None = any); results are ('call', name, args) terms, equal args => equal value
    "core::f64::<impl f64>::to_bits", "core::f64::<impl f64>::from_bits",
    "std::f64::<impl f64>::sqrt", "std::f64::<impl f64>::abs", "core::f64::<impl f64>::abs",
    "std::f64::<impl f64>::sin", "std::f64::<impl f64>::cos", "std::f64::<impl f64>::tan",
    "std::f64::<impl f64>::asin", "std::f64::<impl f64>::acos", "std::f64::<impl f64>::atan",
    "std::f64::<impl f64>::atan2", "std::f64::<impl f64>::sin_cos", "std::f64::<impl f64>::floor",
    "std::f64::<impl f64>::ceil", "std::f64::<impl f64>::round", "std::f64::<impl f64>::trunc",
    "std::f64::<impl f64>::powi", "std::f64::<impl f64>::mul_add", "std::f64::<impl f64>::exp",
    "std::f64::<impl f64>::ln", "core::f64::<impl f64>::max", "core::f64::<impl f64>::min",
    "core::f64::<impl f64>::is_nan", "core::f64::<impl f64>::is_finite",
    "core::f64::<impl f64>::to_radians", "core::f64::<impl f64>::to_degrees",
    "core::f64::<impl f64>::signum", "core::f64::<impl f64>::copysign",
    "core::f64::<impl f64>::recip", "core::f64::<impl f64>::clamp",
    "core::f64::<impl f64>::is_sign_negative", "core::f64::<impl f64>::is_sign_positive",
    "std::f64::<impl f64>::hypot", "std::f64::<impl f64>::cbrt", "std::f64::<impl f64>::rem_euclid",
    "std::f64::<impl f64>::div_euclid", "std::f64::<impl f64>::powf",
}
# integer helpers `core::num::<impl u64>::X` are matched by suffix
PURE_INT_METHODS = {"trailing_zeros", "leading_zeros", "count_ones", "to_le", "from_le", "to_be",
                    "from_be", "wrapping_add", "wrapping_sub", "wrapping_mul", "pow", "min", "max",
                    "rotate_left", "rotate_right", "swap_bytes", "abs", "is_power_of_two",
                    "next_power_of_two", "wrapping_shl", "wrapping_shr", "abs_diff",
                    "saturating_sub", "saturating_add", "checked_sub", "overflowing_sub",
                    "to_ne_bytes", "from_ne_bytes", "to_le_bytes", "from_le_bytes"}
PURE_INTRINSIC_PREFIXES = ("core::core_arch::x86::bmi2::", "core::core_arch::x86_64::bmi2::", "std::arch::x86_64::_p", "std::arch::x86::_p", "core::arch::x86_64::_p",
                           "std::intrinsics::", "core::intrinsics::", "std::mem::transmute",
                           "core::cmp::Ord::", "std::cmp::Ord::", "std::cmp::max", "std::cmp::min",
                           "core::cmp::max", "core::cmp::min")


import re as _re
INT_ORD_CMP = _re.compile(r"^(std|core)::cmp::impls::<impl (std|core)::cmp::Ord for [ui](8|16|32|64|128|size)>::cmp$")


def pure_external(name):
    if name in PURE_EXTERNALS: return True
    if name.startswith("core::num::<impl ") or name.startswith("std::num::<impl "):
        return name.rsplit("::", 1)[1] in PURE_INT_METHODS
    if name.startswith("core::f64::<impl f64>::") or name.startswith("std::f64::<impl f64>::"):
        return True
    return name.startswith(PURE_INTRINSIC_PREFIXES)


class Event:
    __slots__ = ("site", "callee", "args", "facts", "dest_ty", "at", "inlined", "ret", "visits", "dest", "argvals")

    def __init__(self, site, callee, args, facts, at, inlined):
        self.site, self.callee, self.args, self.facts = site, callee, list(args), facts
        self.at, self.inlined, self.ret, self.visits = at, inlined, None, 1
        self.dest = None
        self.argvals = None

    def __repr__(self):
        return "Event(%s @%s args=%s)" % (self.callee, self.at, [show(a) for a in self.args])


class State:
    __slots__ = ("store", "heap", "facts")

    def __init__(self, store=None, heap=None, facts=frozenset()):
        self.store = store if store is not None else {}
        self.heap = heap if heap is not None else {}
        self.facts = facts

    def copy(self):
        return State(dict(self.store), dict(self.heap), self.facts)


class Result:
    def __init__(self):
        self.ret = None; self.facts = None; self.returns = False; self.state = None


class Budget(Exception):
    pass


class Engine:
    def __init__(self, crate, max_depth=8, inline=None, opaque=(), assume=None, models=None, unroll=0, unroll_pred=None, max_recursion=0,
                 assume_int=None, step_budget=400000):
        self.crate = crate
        self.max_depth = max_depth
        self.inline_pred = inline
        self.opaque = set(opaque)
        self.assume = assume
        self.assume_int = assume_int
        self.models = models or {}
        self.max_recursion = max_recursion   # how many times a function may re-enter itself in place before the call is cut (opaque)
        self.unroll = unroll        # >0: bodies whose loops have a concrete trip count <= unroll are executed iteration by iteration
        self.unroll_pred = unroll_pred   # f(body path) -> bool: which bodies may be unrolled (default: all)
        if unroll:
            for k, f in ITER_MODELS.items(): self.models.setdefault(k, f)
        self.events = {}
        self.frame_body = {}        # frame key -> Body (to type the locals of another frame reached through a reference)
        self.phi_ops = {}
        self.phi_gate = {}          # phi -> (condition term, value if true, value if false)
        self._promoted = {}
        self.subst = {}             # term -> constant term: specialise a finite key that is not a parameter
        self.nonfinal = 0           # >0 while some frame on the stack is in its fixpoint-iteration pass
        self.edge_hook = None       # f(body, src_bb, tgt_bb, state, fk) on every propagated CFG edge
        self.visited_fns = set()
        self.steps = 0
        self.step_budget = step_budget
        self.notes = []
        self.access_hook = None     # f(kind, place_term, facts, loc) for places rooted at a static
        self.value_hook = None      # f(term, loc, facts) for every computed rvalue
        self.trait_dispatch = None  # f(trait, method) -> body path, for dyn / generic-Self calls
        self.store_hook = None      # f(place_term, value, loc, facts) for writes through symbolic places
        self.branches = []          # (discriminant term, loc) of every non-constant SwitchInt (last visit)
        self._branch_idx = {}
        self.loc = None

    # ---------------------------------------------------------------------------------- entry
    def run(self, path, args=None, facts=frozenset()):
        body = self.crate.body(path)
        if body is None: raise KeyError("no body for %s" % path)
        names = body.param_names()
        if args is None: args = [('p', n) for n in names]
        args = list(args)
        for i in range(len(args)):
            if args[i] is None: args[i] = ('p', names[i])
        st = State(facts=frozenset(facts))
        r = self.run_body(body, args, st, fk=((path, -1),), stack=(path,))
        return r

    # ------------------------------------------------------------------------------ core loop
    def run_body(self, body, args, state, fk, stack):
        self.visited_fns.add(body.path)
        self.frame_body[fk] = body
        st0 = state.copy()
        for i, a in enumerate(args):
            st0.store[(fk, i + 1)] = a
        instates = {0: st0}
        work = [0]
        succ_cache = body.succ()
        seen_blocks = set(); revisited = False
        final_ctx = self.nonfinal == 0
        if self.unroll and body.has_loops() and (self.unroll_pred is None or self.unroll_pred(body.path)):
            snap = (dict((k, set(v)) for k, v in self.phi_ops.items()), dict(self.phi_gate), dict(self.events), list(self.branches), dict(self._branch_idx))
            try:
                ret_val, ret_state = self.run_unrolled(body, fk, stack, st0)
                r = Result()
                if ret_state is not None:
                    r.returns = True; r.ret = ret_val; r.facts = ret_state.facts; r.state = ret_state
                return r
            except NoUnroll:
                self.phi_ops, self.phi_gate, self.events, self.branches, self._branch_idx = snap
        self.nonfinal += 1
        try:
            ret_val, ret_state = self.iterate(body, fk, stack, instates, work)
        finally:
            self.nonfinal -= 1
        if final_ctx:
            ret_val, ret_state = self.final_pass(body, fk, stack, st0, instates)
        r = Result()
        if ret_state is not None:
            r.returns = True; r.ret = ret_val; r.facts = ret_state.facts; r.state = ret_state
        return r

    # ------------------------------------------------------------------------- bounded unrolling
    def exec_block(self, body, fk, stack, bb, st):
        blk = body.blocks[bb]
        self.steps += 1
        if self.steps > self.step_budget: raise Budget("step budget exceeded in %s" % body.path)
        for s in blk["stmts"]:
            self.loc = (body.path, bb, s.get("at"), fk)
            self.exec_stmt(body, fk, st, s, bb)
        self.loc = (body.path, bb, blk["term"].get("at"), fk)
        return self.exec_term(body, fk, st, blk["term"], bb, stack)

    def run_unrolled(self, body, fk, stack, st0):
        """Execute a body whose loops all have a trip count the abstract state determines (loop
        condition folds to a constant in every round): each loop is executed round by round, its
        head state REPLACED by the state carried on the back edge instead of joined with it; inside
        one round (an acyclic region) blocks run once, in reverse post-order, from the join of their
        predecessors.  Exact for such loops (no widening, no merge of rounds); raises NoUnroll when a
        loop does not end within `self.unroll` rounds, and the caller falls back to the fixpoint."""
        rpo = body.rpo(); succ = body.succ()
        loops = body.natural_loops()
        ret = [None, None]
        def deliver(d, tgt, ost, key):
            old = d.get(tgt)
            d[tgt] = ost if old is None else self.join_state(old, ost, key)
        def region(blocks, entry, st, it):
            inn = {entry: st}; outs = {}
            for bb in sorted(blocks, key=lambda b: rpo[b]):
                if bb not in inn: continue
                if body.blocks[bb]["cleanup"]: continue
                if bb != entry and bb in loops:
                    edges = list(loop(bb, inn[bb]).items())
                else:
                    edges = self.exec_block(body, fk, stack, bb, inn[bb].copy())
                for tgt, ost in edges:
                    if self.edge_hook is not None and not self.nonfinal and not (bb != entry and bb in loops): self.edge_hook(body, bb, tgt, ost, fk)
                    if tgt == "return":
                        rv = ost.store.get((fk, 0), UNDEF)
                        if ret[1] is None: ret[0], ret[1] = rv, ost
                        else:
                            ret[0] = self.join_val(ret[0], rv, ('ret', fk))
                            ret[1] = self.join_state(ret[1], ost, ('retst', fk))
                    elif tgt in blocks and tgt != entry and rpo[tgt] > rpo[bb]:
                        deliver(inn, tgt, ost, (fk, tgt, it))
                    else:
                        deliver(outs, tgt, ost, (fk, tgt, 'out', it))
            return outs
        def loop(h, st):
            exits = {}
            for it in range(self.unroll + 1):
                outs = region(loops[h], h, st, it)
                back = outs.pop(h, None)
                for tgt, ost in outs.items(): deliver(exits, tgt, ost, (fk, tgt, 'exit', h))
                if back is None: return exits
                st = back
            raise NoUnroll(body.path)
        outs = region(set(rpo), 0, st0, 0)
        if outs: raise NoUnroll(body.path)          # irreducible flow
        return ret[0], ret[1]

    def iterate(self, body, fk, stack, instates, work):
        ret_val = None; ret_state = None
        seen_blocks = set(); revisited = False
        while work:
            work.sort()
            bb = work.pop(0)
            self.steps += 1
            if self.steps > self.step_budget: raise Budget("step budget exceeded in %s" % body.path)
            st = instates[bb].copy()
            blk = body.blocks[bb]
            if blk["cleanup"]: continue
            if bb in seen_blocks: revisited = True
            seen_blocks.add(bb)
            for s in blk["stmts"]:
                self.loc = (body.path, bb, s.get("at"), fk)
                self.exec_stmt(body, fk, st, s, bb)
            self.loc = (body.path, bb, blk["term"].get("at"), fk)
            outs = self.exec_term(body, fk, st, blk["term"], bb, stack)
            for tgt, ost in outs:
                if tgt == "return":
                    rv = ost.store.get((fk, 0), UNDEF)
                    if ret_state is None:
                        ret_val, ret_state = rv, ost
                    else:
                        ret_val = self.join_val(ret_val, rv, ('ret', fk))
                        ret_state = self.join_state(ret_state, ost, ('retst', fk))
                    continue
                old = instates.get(tgt)
                if old is None:
                    instates[tgt] = ost
                    if tgt not in work: work.append(tgt)
                else:
                    new = self.join_state(old, ost, (fk, tgt))
                    if not self.same_state(old, new):
                        instates[tgt] = new
                        if tgt not in work: work.append(tgt)
        return ret_val, ret_state

    def final_pass(self, body, fk, stack, st0, instates):
        """After the fixpoint iteration converged on a body with loops: one clean pass in reverse
        post-order with the loop-head states fixed to their converged values.  Every other block is
        then executed once, from the join of the FINAL states of its predecessors, so that events,
        gated merges and facts are not polluted by the less general states of early iterations."""
        rpo = body.rpo()
        succ = body.succ()
        heads = set()
        for b, ss in enumerate(succ):
            if b not in rpo: continue
            for t in ss:
                if t in rpo and rpo[t] <= rpo[b]: heads.add(t)
        # forget the merges created for non-head blocks of this frame during the iteration
        def of_frame(p):
            k = p[1]
            while isinstance(k, tuple) and k and isinstance(k[0], tuple) and len(k[0]) == 2 and k[0][0] == fk and isinstance(k[0][1], int):
                return k[0][1]
            return None
        # (a merge created at an inner join can have become the converged loop-head value itself:
        #  `n = if c { n + 1 } else { n }` -- those stay, with the operands they accumulated)
        live = set()
        for h in heads:
            hs = instates.get(h)
            if hs is None: continue
            for v in hs.store.values():
                if isinstance(v, tuple):
                    for x in walk(v):
                        if x[0] == 'phi': live.add(x)
        for p in list(self.phi_ops):
            b = of_frame(p)
            if b is not None and b not in heads and p not in live:
                del self.phi_ops[p]; self.phi_gate.pop(p, None)
        new_in = {0: st0}
        for h in heads:
            if h in instates: new_in[h] = instates[h]
        ret_val = None; ret_state = None
        for bb in sorted(rpo, key=lambda b: rpo[b]):
            if bb not in new_in: continue
            blk = body.blocks[bb]
            if blk["cleanup"]: continue
            self.steps += 1
            st = new_in[bb].copy()
            for s in blk["stmts"]:
                self.loc = (body.path, bb, s.get("at"), fk)
                self.exec_stmt(body, fk, st, s, bb)
            self.loc = (body.path, bb, blk["term"].get("at"), fk)
            outs = self.exec_term(body, fk, st, blk["term"], bb, stack)
            for tgt, ost in outs:
                if self.edge_hook is not None: self.edge_hook(body, bb, tgt, ost, fk)
                if tgt == "return":
                    rv = ost.store.get((fk, 0), UNDEF)
                    if ret_state is None: ret_val, ret_state = rv, ost
                    else:
                        ret_val = self.join_val(ret_val, rv, ('ret', fk))
                        ret_state = self.join_state(ret_state, ost, ('retst', fk))
                    continue
                if tgt in heads: continue
                old = new_in.get(tgt)
                new_in[tgt] = ost if old is None else self.join_state(old, ost, (fk, tgt))
        return ret_val, ret_state

    # -------------------------------------------------------------------------------- joins
    def join_val(self, a, b, key, gate=None):
        if a == b: return a
        if a == UNDEF: return b
        if b == UNDEF: return a
        if a[0] == 'agg' and b[0] == 'agg' and a[1] == b[1] and a[2] == b[2] and len(a[3]) == len(b[3]):
            return ('agg', a[1], a[2], tuple(self.join_val(x, y, key + (i,), gate) for i, (x, y) in enumerate(zip(a[3], b[3]))))
        # one side already is a merge that has the other among its operands: keep the merge
        if b[0] == 'phi' and a in self.phi_ops.get(b, ()): return b
        if a[0] == 'phi' and b in self.phi_ops.get(a, ()): return a
        if a[0] == b[0] and a[0] in ('fld', 'dc', 'deref', 'idx', 'op', 'un', 'cast', 'call', 'discr'):
            if self._match(b, a, {}): return b
            if self._match(a, b, {}): return a
        p = ('phi', key)
        ops = self.phi_ops.setdefault(p, set())
        fresh = not ops
        if fresh:
            if a != p: ops.add(a)
            if b != p: ops.add(b)
            if gate is not None and a != p and b != p:
                # clean two-way merge whose two sides are told apart by one branch condition:
                # remember phi = if gate { a } else { b }   (a gated phi; still a join, not a path)
                self.phi_gate[p] = (gate[0], a, b) if gate[1] else (gate[0], b, a)
            return p
        for x in (a, b):
            if x == p or x in ops: continue
            older = [o for o in ops if self._match(x, o, {})]
            if older:
                # x is the more general form of an operand recorded on an earlier visit: replace it
                for o in older: ops.discard(o)
                ops.add(x)
                g = self.phi_gate.get(p)
                if g is not None:
                    m = {}
                    ng = tuple(x if (y in older) else y for y in g[1:])
                    cond = g[0]
                    self._match_cond = None
                    self.phi_gate[p] = (self._generalise_like(cond, x, older[0]),) + ng
            else:
                ops.add(x)
                self.phi_gate.pop(p, None)
        return p

    def _generalise_like(self, cond, gen, spec):
        """rewrite `cond` replacing the stale symbols of `spec` by the matching ones of `gen`"""
        m = {}
        if not self._match(gen, spec, m): return cond
        inv = {v: k for k, v in m.items()}
        return self._subst(cond, inv, {})

    def _match(self, gen, spec, m, depth=0):
        """one-way matching: can `gen` (with its phi symbols read as 'any of their operands') be
        instantiated to `spec`?  m: phi -> chosen operand"""
        if gen == spec: return True
        if not isinstance(gen, tuple) or not isinstance(spec, tuple) or depth > 60: return False
        if gen and gen[0] == 'phi':
            if gen in m: return m[gen] == spec
            if spec == UNDEF or spec in self.phi_ops.get(gen, ()):
                m[gen] = spec; return True
            return False
        if len(gen) != len(spec) or not gen or gen[0] != spec[0] or gen[0] in ('c', 'p', 'sym', 'static', 'fn'): return False
        for x, y in zip(gen[1:], spec[1:]):
            if x == y: continue
            if isinstance(x, tuple) and isinstance(y, tuple):
                if not self._match(x, y, m, depth + 1): return False
            else: return False
        return True

    def _subst(self, t, m, memo):
        if not isinstance(t, tuple) or not t: return t
        if t in m: return m[t]
        if t in memo: return memo[t]
        if isinstance(t[0], str) and t[0] in ('c', 'p', 'sym', 'phi', 'static', 'fn'):
            memo[t] = t; return t
        r = tuple(self._subst(x, m, memo) if isinstance(x, tuple) else x for x in t)
        memo[t] = r
        return r

    def subsumes(self, gen, spec):
        """state `gen` is at least as general as `spec`: every location matches under one
        instantiation of gen's phi symbols and gen's facts, instantiated, are facts of spec"""
        m = {}
        for k, vs in spec.store.items():
            vg = gen.store.get(k, UNDEF)
            if vg != vs and not self._match(vg, vs, m): return False
        for k in gen.store.keys() - spec.store.keys():
            pass
        for k in gen.heap.keys() | spec.heap.keys():
            vg = gen.heap.get(k, k); vs = spec.heap.get(k, k)
            if vg != vs and not self._match(vg, vs, m): return False
        if gen.facts and m:
            memo = {}
            for f in gen.facts:
                if f in spec.facts: continue
                if self._subst(f, m, memo) not in spec.facts: return False
        elif not gen.facts <= spec.facts:
            return False
        return True

    def join_state(self, a, b, key):
        if a.store.keys() >= b.store.keys() and self.subsumes(a, b): return a
        if b.store.keys() >= a.store.keys() and self.subsumes(b, a): return b
        # gate: exactly one boolean term known true on one side and false on the other
        gate = None
        cands = [f for f in a.facts if f[0] == 'b' and ('b', f[1], not f[2]) in b.facts]
        if len(cands) == 1: gate = (cands[0][1], cands[0][2])
        store = {}
        for k in a.store.keys() | b.store.keys():
            va = a.store.get(k, UNDEF); vb = b.store.get(k, UNDEF)
            store[k] = va if va == vb else self.join_val(va, vb, (key, k), gate)
        heap = {}
        for k in a.heap.keys() | b.heap.keys():
            va = a.heap.get(k, k); vb = b.heap.get(k, k)   # absent = unmodified place
            heap[k] = va if va == vb else self.join_val(va, vb, (key, 'h', k), gate)
        facts = a.facts & b.facts
        # facts of the more general side whose instantiation holds on the other side are kept
        for gen, spec in ((a, b), (b, a)):
            extra = gen.facts - facts
            if not extra: continue
            m = {}
            for k, vs in spec.store.items():
                vg = gen.store.get(k, UNDEF)
                if vg != vs: self._match(vg, vs, m)
            if not m: continue
            memo = {}
            facts = facts | {f for f in extra if self._subst(f, m, memo) in spec.facts}
        return State(store, heap, facts)

    @staticmethod
    def same_state(a, b):
        return a.facts == b.facts and a.store == b.store and a.heap == b.heap

    # ------------------------------------------------------------------------------ operands
    def const_term(self, c):
        ty = c["ty"]; k = ty["k"]
        if "fn" in c:
            return ('fn', c["fn"].get("resolved", c["fn"]["path"]))
        if "static" in c:
            return ('ref_t', ('static', c["static"]))
        if "bits" in c:
            bits = int(c["bits"])
            if k == "int": return C(ty["n"], wrap_int(ty["n"], bits))
            if k == "float": return C("f%d" % ty["w"], bits)
            if k == "bool": return C("bool", bits & 1)
            if k == "char": return C("char", bits)
            if k == "adt":
                adt = self.crate.adts.get(ty["path"])
                if adt and adt["kind"] == "enum":
                    for vi, v in enumerate(adt["variants"]):
                        if int(v["discr"]) == bits and not v["fields"]:
                            return ('agg', 'adt:' + ty["path"], vi, ())
            return ('sym', ('const', tykey(ty), bits))
        if c.get("zst"):
            if k == "tuple" and not ty["elems"]: return UNIT
            if k == "adt": return ('agg', 'adt:' + ty["path"], 0, ())
            return ('sym', ('zst', tykey(ty)))
        if "indirect" in c and k == "array" and ty["elem"]["k"] in ("int", "float"):
            e = ty["elem"]; raw = bytes.fromhex(c["indirect"])[c.get("offset", 0):]
            w = e["w"] // 8; n = int(ty["len"]); ek = tykey(e)
            vals = []
            for i in range(n):
                b = int.from_bytes(raw[i * w:(i + 1) * w], "little")
                vals.append(C(ek, wrap_int(ek, b) if e["k"] == "int" else b))
            return ('agg', 'array', 0, tuple(vals))
        if "item" in c and c.get("promoted") is not None and k == "ref":
            return ('ref_t', ('promoted', c["item"], c["promoted"]))
        if "item" in c:
            return ('sym', ('constitem', c["item"], c.get("promoted")))
        if "slice" in c and k == "ref" and ty["to"]["k"] == "str":
            try: return ('c', 'str', bytes.fromhex(c["slice"])[:c.get("meta", 0)].decode("utf8", "replace"))
            except Exception: pass
        return ('sym', ('const', tykey(ty), c.get("indirect", c.get("alloc", ""))[:64]))

    def operand(self, body, fk, st, o):
        if o["k"] == "const": return self.const_term(o)
        v = self.read_place(body, fk, st, o["pl"])
        if self.subst and v in self.subst: v = self.subst[v]     # per-key specialisation, also when read through a reference
        return v

    # --------------------------------------------------------------------------------- places
    def resolve_place(self, body, fk, st, place):
        cur = ('local', fk, place["l"], ())
        for e in place["p"]:
            k = e[0]
            if k == "deref":
                v = self.read_cur(st, cur)
                if v[0] == 'ref': cur = ('local', v[1], v[2], v[3])
                elif v[0] == 'ref_t': cur = ('term', v[1])
                else: cur = ('term', ('deref', v))
                continue
            if k == "field": el = ('f', e[1])
            elif k == "downcast": el = ('dc', e[1])
            elif k == "cindex": el = ('i', e[1]) if not e[2] else ('ie', e[1])
            elif k == "index":
                iv = st.store.get((fk, e[1]), UNDEF)
                el = ('i', iv[2]) if is_const(iv) else ('ix', iv)
            else: el = ('x', k)
            if cur[0] == 'local': cur = ('local', cur[1], cur[2], cur[3] + (el,))
            else: cur = ('term', self.proj_term(cur[1], el))
        return cur

    def proj_term(self, t, el):
        k = el[0]
        if k == 'f': return ('fld', t, el[1])
        if k == 'dc': return ('dc', t, el[1])
        if k == 'i': return ('idx', t, C('usize', el[1]))
        if k == 'ix': return ('idx', t, el[1])
        return ('proj', t, el)

    def project(self, v, el):
        k = el[0]
        if v == UNDEF: return UNDEF
        if k == 'f':
            if v[0] == 'agg' and el[1] < len(v[3]): return v[3][el[1]]
            return ('fld', v, el[1])
        if k == 'dc':
            if v[0] == 'agg': return v
            return ('dc', v, el[1])
        if k == 'i':
            if v[0] == 'agg' and v[1] == 'array' and el[1] < len(v[3]): return v[3][el[1]]
            if v[0] == 'repeat': return v[1]
            return self.fold_static_idx(('idx', v, C('usize', el[1])))
        if k == 'ix':
            if v[0] == 'agg' and v[1] == 'array' and v[3] and all(x == v[3][0] for x in v[3]): return v[3][0]
            if v[0] == 'repeat': return v[1]
            return ('idx', v, el[1])
        return ('proj', v, el)

    def fold_static_idx(self, t):
        # an immutable scalar static -> its constant value
        if t[0] == 'static':
            s = self.crate.statics.get(t[1])
            if s and not s["mutable"] and s["ty"]["k"] in ("int", "float") and s.get("bytes"):
                raw = bytes.fromhex(s["bytes"]); ek = tykey(s["ty"])
                b = int.from_bytes(raw, "little")
                return C(ek, wrap_int(ek, b) if s["ty"]["k"] == "int" else b)
            return t
        # ('idx', ('static', p), const) on an immutable integer table -> constant
        if t[0] == 'idx' and t[1][0] == 'static' and is_const(t[2]):
            s = self.crate.statics.get(t[1][1])
            if s and not s["mutable"] and s["ty"]["k"] == "array" and s["ty"]["elem"]["k"] in ("int", "float") and s.get("bytes"):
                e = s["ty"]["elem"]; w = e["w"] // 8; raw = bytes.fromhex(s["bytes"]); i = t[2][2]
                if 0 <= i < len(raw) // w:
                    b = int.from_bytes(raw[i * w:(i + 1) * w], "little"); ek = tykey(e)
                    return C(ek, wrap_int(ek, b) if e["k"] == "int" else b)
        return t

    def read_cur(self, st, cur):
        if cur[0] == 'local':
            v = st.store.get((cur[1], cur[2]), UNDEF)
            for el in cur[3]: v = self.project(v, el)
            return v
        t = cur[1]
        if self.access_hook is not None and not self.nonfinal: self.note_access('read', t, st)
        if t in st.heap: return st.heap[t]
        r0 = t
        while r0[0] in ('fld', 'idx', 'dc'): r0 = r0[1]
        if r0[0] == 'promoted':
            v = self.promoted_value(r0)
            if v is not None:
                chain = []; r = t
                while r != r0:
                    chain.append(r); r = r[1]
                for c in reversed(chain):
                    if c[0] == 'fld': v = self.project(v, ('f', c[2]))
                    elif c[0] == 'dc': v = self.project(v, ('dc', c[2]))
                    else: v = self.project(v, ('i', c[2][2]) if is_const(c[2]) else ('ix', c[2]))
                return v
        if st.heap and t[0] in ('fld', 'idx', 'dc'):
            # a stored aggregate at a prefix of the place: project it
            chain = []; r = t
            while r[0] in ('fld', 'idx', 'dc') and r not in st.heap:
                chain.append(r); r = r[1]
            if r in st.heap:
                v = st.heap[r]
                for c in reversed(chain):
                    if c[0] == 'fld': v = self.project(v, ('f', c[2]))
                    elif c[0] == 'dc': v = self.project(v, ('dc', c[2]))
                    else: v = self.project(v, ('i', c[2][2]) if is_const(c[2]) else ('ix', c[2]))
                return v
        return self.fold_static_idx(t)

    def run_method(self, path, self_value, args=(), facts=frozenset()):
        """run a method taking `&self`/`&mut self`/`self` with a given abstract value for *self"""
        body = self.crate.body(path)
        if body is None: raise KeyError(path)
        st = State(facts=frozenset(facts))
        if body.local_ty(1)["k"] in ("ref", "ptr"):
            st.heap[('tmp', 'self')] = self_value
            a0 = ('ref_t', ('tmp', 'self'))
        else:
            a0 = self_value
        names = body.param_names()
        rest = [a if a is not None else ('p', names[i + 1]) for i, a in enumerate(args)]
        rest += [('p', n) for n in names[1 + len(rest):]]
        return self.run_body(body, [a0] + rest, st, fk=((path, -1),), stack=(path,))

    def promoted_value(self, root):
        """value of a promoted constant (`&CONST_EXPR` lifted out of a body): its MIR body is
        evaluated symbolically once (no inputs)"""
        if root in self._promoted: return self._promoted[root]
        self._promoted[root] = None
        b = self.crate.body(root[1])
        try:
            pb = b.promoted[root[2]] if b is not None else None
            if pb is not None:
                saved = (self.loc, self.nonfinal)
                self.nonfinal += 1          # no hooks, no final pass for constant evaluation
                try:
                    r = self.run_body(pb, [], State(), fk=(('promoted', root[1], root[2]),), stack=("promoted:%s:%s" % (root[1], root[2]),))
                finally:
                    self.nonfinal -= 1; self.loc = saved[0]
                if r.returns:
                    v = r.ret
                    # the promoted body returns a reference to its own temporary: the constant
                    # operand denotes that reference, so the place behind it holds the pointee
                    if v[0] == 'ref':
                        v = self.read_cur(r.state, ('local', v[1], v[2], v[3]))
                    elif v[0] == 'ref_t':
                        v = self.read_cur(r.state, ('term', v[1]))
                    self._promoted[root] = v
        except Exception:
            pass
        return self._promoted[root]

    def note_access(self, kind, t, st):
        r = t
        while r[0] in ('fld', 'idx', 'dc', 'deref', 'proj'): r = r[1]
        if r[0] == 'static':
            self.access_hook(kind, t, st.facts, self.loc)

    def read_place(self, body, fk, st, place):
        if not place["p"]:
            return st.store.get((fk, place["l"]), UNDEF)
        return self.read_cur(st, self.resolve_place(body, fk, st, place))

    def arity_of(self, tystr_or_desc, variant=0):
        t = tystr_or_desc
        if isinstance(t, dict):
            if t["k"] == "tuple": return len(t["elems"])
            if t["k"] == "array":
                try: return int(t["len"])
                except ValueError: return None
            if t["k"] == "adt":
                a = self.crate.adts.get(t["path"])
                if a and variant < len(a["variants"]): return len(a["variants"][variant]["fields"])
        return None

    def update(self, v, path, val, site):
        if not path: return val
        el = path[0]; k = el[0]
        if k == 'dc': return self.update(v, path[1:], val, site) if v[0] == 'agg' else ('sym', ('havoc', site))
        if v[0] == 'agg' and k in ('f', 'i') and el[1] < len(v[3]):
            f = list(v[3]); f[el[1]] = self.update(f[el[1]], path[1:], val, site)
            return ('agg', v[1], v[2], tuple(f))
        if v[0] == 'agg' and v[1] == 'array' and k == 'ix':
            # weak update of every element
            f = [self.join_val(x, self.update(x, path[1:], val, site), ('wk', site, i)) for i, x in enumerate(v[3])]
            return ('agg', v[1], v[2], tuple(f))
        return ('sym', ('havoc', site))

    def write_place(self, body, fk, st, place, val, site):
        if not place["p"]:
            st.store[(fk, place["l"])] = val; return
        cur = self.resolve_place(body, fk, st, place)
        self.write_cur(st, cur, val, site, body, place)

    def write_cur(self, st, cur, val, site, body=None, place=None):
        if cur[0] == 'local':
            key = (cur[1], cur[2])
            old = st.store.get(key, UNDEF)
            if cur[3] and old[0] != 'agg' and body is not None and key[0] is not None:
                old = self.expand(old, body, place, cur)
                if old[0] != 'agg' and cur[3][0][0] in ('f', 'i'):
                    # a field written through a reference to a local of ANOTHER frame: take the
                    # type of that local from its own body, so that the other fields are kept
                    tb = self.frame_body.get(key[0])
                    try:
                        ty = tb.local_ty(key[1]) if tb is not None else None
                        n = self.arity_of(ty) if ty is not None else None
                        if n is not None and ty["k"] in ("tuple", "adt", "array"):
                            kind = 'tuple' if ty["k"] == 'tuple' else ('array' if ty["k"] == 'array' else 'adt:' + ty["path"])
                            el = 'i' if kind == 'array' else 'f'
                            old = ('agg', kind, 0, tuple(UNDEF if old == UNDEF else self.project(old, (el, i)) for i in range(n)))
                    except Exception:
                        pass
            st.store[key] = self.update(old, cur[3], val, site)
        else:
            t = cur[1]
            if self.access_hook is not None and not self.nonfinal: self.note_access('write', t, st)
            if self.store_hook is not None and not self.nonfinal: self.store_hook(t, val, self.loc, st.facts)
            # functional update of an aggregate stored at a prefix of the place
            chain = []; r = t
            while r[0] in ('fld', 'idx', 'dc') and r not in st.heap:
                chain.append(r); r = r[1]
            if chain and r in st.heap and st.heap[r][0] == 'agg':
                path = []
                for c in reversed(chain):
                    if c[0] == 'fld': path.append(('f', c[2]))
                    elif c[0] == 'dc': path.append(('dc', c[2]))
                    else: path.append(('i', c[2][2]) if is_const(c[2]) else ('ix', c[2]))
                st.heap[r] = self.update(st.heap[r], tuple(path), val, site)
                return
            for k in [k for k in st.heap if k != t and (subterm(t, k) or subterm(k, t))]:
                st.heap[k] = ('sym', ('havoc', site, k))
            st.heap[t] = val

    def expand(self, old, body, place, cur):
        # turn an opaque/undef struct or tuple value into an aggregate of its fields so that a
        # field write keeps the other fields
        try:
            if place is None or place["p"] and place["p"][0][0] == "deref": return old
            ty = body.local_ty(place["l"])
            n = self.arity_of(ty)
            if n is None: return old
            kind = 'tuple' if ty["k"] == 'tuple' else ('array' if ty["k"] == 'array' else 'adt:' + ty["path"])
            if old == UNDEF: return ('agg', kind, 0, tuple(UNDEF for _ in range(n)))
            return ('agg', kind, 0, tuple(self.project(old, ('f', i) if kind != 'array' else ('i', i)) for i in range(n)))
        except Exception:
            return old

    # ---------------------------------------------------------------------------- statements
    def exec_stmt(self, body, fk, st, s, bb):
        if s["k"] == "assign":
            lhs = s["lhs"]
            lty = body.local_ty(lhs["l"]) if not lhs["p"] else None
            v = self.rvalue(body, fk, st, s["rv"], lty, (fk, bb, s["at"]))
            if self.subst and v in self.subst: v = self.subst[v]     # per-key specialisation
            if self.value_hook is not None and not self.nonfinal:
                self.cur_lhs = lhs
                self.value_hook(v, self.loc, st.facts)
            self.write_place(body, fk, st, lhs, v, (fk, bb, s["at"]))
        elif s["k"] == "setdiscr":
            self.write_place(body, fk, st, s["lhs"], ('sym', ('setdiscr', fk, bb)), (fk, bb))

    def rvalue(self, body, fk, st, rv, lty, site):
        k = rv["k"]
        if k == "use":
            return self.operand(body, fk, st, rv["op"])
        if k == "binop":
            a = self.operand(body, fk, st, rv["l"]); b = self.operand(body, fk, st, rv["r"])
            ty = tykey(lty) if lty is not None else None
            return self.binop(rv["op"], a, b, ty, self.operand_ty(body, rv["l"]))
        if k == "unop":
            a = self.operand(body, fk, st, rv["x"])
            return self.unop(rv["op"], a, tykey(lty) if lty is not None else self.operand_ty(body, rv["x"]))
        if k == "cast":
            a = self.operand(body, fk, st, rv["op"])
            return self.cast(rv["cast"], a, rv["ty"], self.operand_ty(body, rv["op"]))
        if k == "ref" or k == "rawptr":
            cur = self.resolve_place(body, fk, st, rv["pl"])
            if cur[0] == 'local': return ('ref', cur[1], cur[2], cur[3])
            t = cur[1]
            if self.access_hook is not None and not self.nonfinal:
                self.note_access('refmut' if rv.get("mut") else 'ref', t, st)
            if t[0] == 'deref': return t[1]           # &*p == p
            return ('ref_t', t)
        if k == "discr":
            v = self.read_place(body, fk, st, rv["pl"])
            return self.discr_of(v, tykey(lty) if lty is not None else 'isize')
        if k == "aggregate":
            ops = tuple(self.operand(body, fk, st, o) for o in rv["ops"])
            a = rv["agg"]
            if a == "adt": return ('agg', 'adt:' + rv["adt"], rv["variant"], ops)
            if a == "closure": return ('agg', 'closure:' + rv["closure"], 0, ops)
            if a in ("tuple", "array"): return ('agg', a, 0, ops)
            return ('sym', ('agg', site))
        if k == "repeat":
            v = self.operand(body, fk, st, rv["op"])
            try: n = int(rv["n"])
            except ValueError: return ('repeat', v)
            if n <= 64: return ('agg', 'array', 0, tuple(v for _ in range(n)))
            return ('repeat', v)
        return ('sym', ('rv', k, site))

    def operand_ty(self, body, o):
        if o["k"] == "const": return tykey(o["ty"])
        pl = o["pl"]
        if not pl["p"]: return tykey(body.local_ty(pl["l"]))
        last = pl["p"][-1]
        if last[0] == "field": return last[2]
        return None

    def discr_of(self, v, ty):
        if v[0] == 'agg' and v[1].startswith('adt:'):
            adt = self.crate.adts.get(v[1][4:])
            if adt and adt["kind"] == "enum":
                return C(ty if ty in INT_TYS else 'isize', int(adt["variants"][v[2]]["discr"]))
        return ('discr', v)

    # ----------------------------------------------------------------------------- arithmetic
    def binop(self, op, a, b, ty, opty):
        if op.endswith("withoverflow"):
            base = op[:-len("withoverflow")]
            r = self.binop(base, a, b, opty, opty)
            if is_const(a) and is_const(b) and a[1] in INT_TYS and a[1] == b[1] and base in ("add", "sub", "mul"):
                # exact: does the unbounded result leave the machine type?
                x = {"add": a[2] + b[2], "sub": a[2] - b[2], "mul": a[2] * b[2]}[base]
                return ('agg', 'tuple', 0, (r, mk_bool(wrap_int(a[1], x) != x)))
            return ('agg', 'tuple', 0, (r, ('op', base + '_overflows', 'bool', a, b)))
        if op.endswith("unchecked"): op = op[:-len("unchecked")]
        if op in CMP:
            if is_const(a) and is_const(b) and a[1] == b[1]:
                x, y = a[2], b[2]
                if a[1] in ("f64",): x, y = f64_from_bits(x), f64_from_bits(y)
                elif a[1] == "f32": return ('op', op, 'bool', a, b)
                return mk_bool({"lt": x < y, "le": x <= y, "gt": x > y, "ge": x >= y, "eq": x == y, "ne": x != y}[op])
            return ('op', op, 'bool', a, b)
        if ty is None: ty = opty
        if ty is None:
            # operands read through a projection (`*p op= c`): take the type from the operand terms
            ty = term_ty(a) if is_const(a) or a[0] in ('op', 'un', 'cast') else None
            if ty is None and (is_const(b) or b[0] in ('op', 'un', 'cast')) and op not in ("shl", "shr"): ty = term_ty(b)
        if is_const(a) and is_const(b):
            r = fold_bin(op, ty, a, b)
            if r is not None: return r
        # light identities (all exact for wrapping machine integers)
        if ty in INT_TYS:
            if is_const(b):
                if b[2] == 0 and op in ("add", "sub", "bitor", "bitxor", "shl", "shr"): return a
                if b[2] == 1 and op in ("mul", "div"): return a
                if b[2] == 0 and op in ("mul", "bitand"): return C(ty, 0)
            if is_const(a):
                if a[2] == 0 and op in ("add", "bitor", "bitxor"): return b
                if a[2] == 1 and op == "mul": return b
                if a[2] == 0 and op in ("mul", "bitand", "shl", "shr"): return C(ty, 0)
        return ('op', op, ty, a, b)

    def unop(self, op, a, ty):
        if is_const(a):
            if op == "not":
                if a[1] == "bool": return mk_bool(not a[2])
                if a[1] in INT_TYS: return C(a[1], wrap_int(a[1], ~a[2]))
            if op == "neg":
                if a[1] in INT_TYS: return C(a[1], wrap_int(a[1], -a[2]))
                if a[1] == "f64": return C("f64", a[2] ^ (1 << 63))
        if op == "not" and a[0] == 'op' and a[1] in CMP and a[2] == 'bool' and not self.is_float_term(a[3]):
            return ('op', NEG[a[1]], 'bool', a[3], a[4])
        if op == "ptr_metadata":
            if a[0] == 'ref':
                return ('un', 'len', 'usize', a)
        return ('un', op, ty, a)

    def is_float_term(self, t):
        return term_ty(t) in ("f64", "f32", None)

    def cast(self, kind, a, ty, from_ty):
        to = tykey(ty)
        if is_const(a):
            if kind == "int_to_int" and to in INT_TYS:
                if a[1] in INT_TYS or a[1] in ("bool", "char"): return C(to, wrap_int(to, a[2]))
            if kind == "int_to_float" and to == "f64" and a[1] in INT_TYS:
                return C("f64", f64_to_bits(float(a[2])))
            if kind == "float_to_int" and a[1] == "f64" and to in INT_TYS:
                x = f64_from_bits(a[2]); w, s = INT_TYS[to]
                lo, hi = (-(1 << (w - 1)), (1 << (w - 1)) - 1) if s else (0, (1 << w) - 1)
                if x != x: return C(to, 0)
                if x == float("inf"): return C(to, hi)
                if x == float("-inf"): return C(to, lo)
                return C(to, max(lo, min(hi, int(x))))
            if kind == "transmute":
                if a[1] == "f64" and to in ("u64", "i64"): return C(to, wrap_int(to, a[2]))
                if a[1] in ("u64", "i64") and to == "f64": return C("f64", a[2] & ((1 << 64) - 1))
        if kind.startswith("coerce_") or kind in ("ptr_to_ptr", "Subtype"):
            return a
        if kind == "int_to_int" and from_ty == to: return a
        return ('cast', kind, to, a)

    # ---------------------------------------------------------------------------- terminators
    def exec_term(self, body, fk, st, t, bb, stack):
        k = t["k"]
        if k == "goto": return [(t["target"], st)]
        if k == "return": return [("return", st)]
        if k in ("unreachable", "resume", "abort", "other"): return []
        if k == "drop": return [(t["target"], st)]
        if k == "assert":
            c = self.operand(body, fk, st, t["cond"])
            exp = t["expected"]
            if is_const(c):
                return [(t["target"], st)] if bool(c[2]) == exp else []
            f = fact_of(c, exp)
            if contradicts(st.facts, f): return []
            st.facts = st.facts | {f}
            return [(t["target"], st)]
        if k == "switch":
            return self.exec_switch(body, fk, st, t)
        if k == "call":
            return self.exec_call(body, fk, st, t, bb, stack)
        return []

    def exec_switch(self, body, fk, st, t):
        d = self.operand(body, fk, st, t["discr"])
        targets = [(int(v), tg) for v, tg in t["targets"]]
        if is_const(d):
            dv = d[2]
            if d[1] in INT_TYS: dv &= (1 << INT_TYS[d[1]][0]) - 1   # switch values are unsigned bit patterns
            for v, tg in targets:
                if v == dv: return [(tg, st)]
            return [(t["otherwise"], st)]
        dty = term_ty(d)
        outs = []
        bkey = (self.loc[3], self.loc[1])
        if bkey in self._branch_idx: self.branches[self._branch_idx[bkey]] = (d, self.loc)
        else:
            self._branch_idx[bkey] = len(self.branches); self.branches.append((d, self.loc))
        is_bool = dty == 'bool' or (d[0] == 'op' and d[2] == 'bool') or self.operand_ty(body, t["discr"]) == 'bool'
        if is_bool:
            forced = self.assume(d) if self.assume else None
            for v, tg in targets + [(None, t["otherwise"])]:
                truth = (v != 0) if v is not None else (targets[0][0] == 0)
                if forced is not None and truth != forced: continue
                f = fact_of(d, truth)
                if contradicts(st.facts, f): continue
                # ('tested', cond): polarity-free marker, survives the join of the two outcomes —
                # "on every path to here this condition has been evaluated"
                ns = st.copy(); ns.facts = ns.facts | {f, ('tested', d)}
                outs.append((tg, ns))
            return outs
        forced = self.assume_int(d) if self.assume_int else None
        cmp3 = d[1][2] if d[0] == 'discr' and d[1][0] == 'call' and d[1][1] == 'Ord::cmp' else None
        def with_cmp(facts, v):
            # Ordering::{Less = -1, Equal = 0, Greater = 1}; switch values are unsigned bit patterns
            if cmp3 is None or v is None: return facts
            op = 'eq' if v == 0 else ('gt' if v == 1 else 'lt')
            return facts | {('b', ('op', op, 'bool', cmp3[0], cmp3[1]), True)}
        known = None
        for f in st.facts:
            if f[0] == 'eqc' and f[1] == d and f[3]: known = f[2]
        if forced is not None: known = forced
        excluded = {f[2] for f in st.facts if f[0] == 'eqc' and f[1] == d and not f[3]}
        for v, tg in targets:
            if known is not None and v != known: continue
            if v in excluded: continue
            ns = st.copy(); ns.facts = with_cmp(ns.facts | {('eqc', d, v, True)}, v)
            outs.append((tg, ns))
        if known is None or all(v != known for v, _ in targets):
            ns = st.copy()
            ns.facts = ns.facts | {('eqc', d, v, False) for v, _ in targets}
            if cmp3 is not None:
                taken = {(0 if v == 0 else (1 if v == 1 else -1)) for v, _ in targets} | {(0 if v == 0 else (1 if v == 1 else -1)) for v in excluded}
                rest = [x for x in (-1, 0, 1) if x not in taken]
                if len(rest) == 1: ns.facts = with_cmp(ns.facts, rest[0] if rest[0] >= 0 else 255)
            outs.append((t["otherwise"], ns))
        return outs

    # ----------------------------------------------------------------------------------- calls
    def exec_call(self, body, fk, st, t, bb, stack):
        func = t["func"]
        args = [self.operand(body, fk, st, a) for a in t["args"]]
        site = fk + ((body.path, bb),)
        if func["k"] != "fn":
            fv = self.operand(body, fk, st, func["op"])
            name = fv[1] if fv[0] == 'fn' else None
            finfo = {}
        else:
            name = callee_name(func); finfo = func
        dynamic = bool(finfo) and (finfo.get("inst") == "virtual" or ("trait" in finfo and "resolved" not in finfo))
        if dynamic:
            # trait method called on `dyn Trait` or on a generic Self: the body named by the path is
            # only the trait's default; never inline it unless the caller of the engine says which
            # impl is meant
            tgt = self.trait_dispatch(finfo.get("trait"), finfo.get("method")) if self.trait_dispatch else None
            if tgt is None and args and args[0][0] == 'ref_t' and args[0][1][0] == 'static':
                # receiver is a reference to a known static: exact devirtualisation through the impl table
                sty = self.crate.statics.get(args[0][1][1], {}).get("ty", {})
                if sty.get("k") == "adt":
                    for imp in self.crate.impls:
                        if imp["trait"] == finfo.get("trait") and imp["self_ty"] == sty["path"]:
                            tgt = imp["methods"].get(finfo.get("method"), "%s::%s" % (finfo.get("trait"), finfo.get("method")))
                            self_ty_imp = imp
                            # default methods called on this receiver must dispatch to the same impl
                            break
            name = tgt if tgt else "dyn:%s::%s" % (finfo.get("trait"), finfo.get("method"))
        diverges = t["target"] is None
        ev = self.record_event(site, name, args, st.facts, t["at"], func)
        ev.dest = t["dest"]
        # values behind reference arguments at call time (before any havoc by the callee)
        ev.argvals = [self.read_cur(st, ('local', a[1], a[2], a[3])) if a[0] == 'ref' else None for a in args]
        if diverges:
            return []
        ret = None
        # closure call through Fn* traits
        cbody = self.crate.body(name) if name else None
        cargs = args
        if cbody is not None and cbody.kind == "Closure" and finfo.get("trait", "").startswith(("std::ops::Fn", "core::ops::Fn")):
            tup = args[1] if len(args) > 1 else UNIT
            n = cbody.arg_count - 1
            cargs = [args[0]] + [self.project(tup, ('f', i)) for i in range(n)]
            # the body takes `&self`/`&mut self`/`self` depending on the closure kind; when called by
            # value through call_once on a by-ref closure body rustc inserts a shim: pass a ref_t.
        model = self.models.get(name) if name else None
        if model is not None:
            ret = model(self, st, args, site)
        elif name in ("std::intrinsics::discriminant_value", "core::intrinsics::discriminant_value") and args:
            a = args[0]
            if a[0] == 'ref': v = self.read_cur(st, ('local', a[1], a[2], a[3]))
            elif a[0] == 'ref_t': v = self.read_cur(st, ('term', a[1]))
            else: v = ('deref', a)
            d = self.discr_of(v, 'isize')
            ret = d
        if ret is None and name and name.startswith("<std::vec::Vec<") and name.endswith("as std::iter::Extend<T>>::extend") and len(args) == 2:
            # `vec.extend(iter.map(closure))`: the closure body is run once on a generic element and what it
            # returns is recorded as a `push` made at this site (rules that read the pushes of a loop
            # see the same thing whether the loop is written `for .. { vec.push(f(x)) }` or as an adaptor)
            mp = next((e_ for e_ in self.events.values() if e_.ret == args[1] and e_.callee == "std::iter::Iterator::map" and len(e_.args) == 2), None)
            if mp is not None and mp.args[1][0] == 'agg' and str(mp.args[1][1]).startswith('closure:'):
                cpath = mp.args[1][1][len('closure:'):]
                cb = self.crate.body(cpath)
                if cb is not None and cb.arg_count == 2 and stack.count(cpath) == 0:
                    elem = ('sym', ('elem', site))
                    if cb.local_ty(1)["k"] == "ref":
                        envp = ('tmp', ('closure-env', site)); st.heap[envp] = mp.args[1]; a0 = ('ref_t', envp)
                    else:
                        a0 = mp.args[1]
                    sub = self.run_body(cb, [a0, elem], st, site, stack + (cpath,))
                    if sub.returns:
                        st = sub.state
                        psite = fk + ((body.path, ('extend', bb)),)
                        pev = Event(psite, "std::vec::Vec::<T, A>::push", [args[0], sub.ret], sub.facts, t["at"], False)
                        pev.ret = UNIT; pev.argvals = [None, None]
                        self.events[psite] = pev
        if ret is None and name and INT_ORD_CMP.match(name) and len(args) == 2 and name not in self.opaque:
            # `a.cmp(&b)` on primitive integers: a pure three-way comparison of the two pointees; the
            # switch on its discriminant gives the same facts as the chain `a < b` / `a > b` / else
            vals = [ev.argvals[i] if args[i][0] == 'ref' else (self.read_cur(st, ('term', args[i][1])) if args[i][0] == 'ref_t' else None) for i in range(2)]
            if all(v is not None for v in vals):
                ret = ('call', 'Ord::cmp', tuple(vals))
        if ret is None and name and cbody is not None and name not in self.opaque and stack.count(name) <= self.max_recursion \
                and len(stack) < self.max_depth and (self.inline_pred is None or self.inline_pred(name, len(stack))):
            sub = self.run_body(cbody, cargs, st, site, stack + (name,))
            ev.inlined = True
            if not sub.returns:
                return []
            st = sub.state
            ret = sub.ret
        if ret is None:
            if name and pure_external(name):
                ret = self.fold_pure(name, args)
            else:
                ret = ('sym', ('ret', site, name))
                # havoc places reachable through mutable references passed to unknown code
                for i, (a, o) in enumerate(zip(args, t["args"])):
                    oty = self.operand_desc_ty(body, o)
                    if oty is not None and oty["k"] in ("ref", "ptr") and oty.get("mut"):
                        if a[0] == 'ref':
                            self.write_cur(st, ('local', a[1], a[2], a[3]), ('sym', ('havoc', site, i)), site)
                        elif a[0] == 'ref_t':
                            self.write_cur(st, ('term', a[1]), ('sym', ('havoc', site, i)), site)
                        else:
                            self.write_cur(st, ('term', ('deref', a)), ('sym', ('havoc', site, i)), site)
        ev.ret = ret if ev.ret is None else self.join_val(ev.ret, ret, ('evret', site))
        self.write_place(body, fk, st, t["dest"], ret, site)
        return [(t["target"], st)]

    def operand_desc_ty(self, body, o):
        if o["k"] == "const": return o["ty"]
        pl = o["pl"]
        if not pl["p"]: return body.local_ty(pl["l"])
        return None

    def record_event(self, site, name, args, facts, at, func):
        ev = self.events.get(site)
        if ev is None:
            ev = Event(site, name, args, facts, at, False)
            self.events[site] = ev
        else:
            # in-states only grow during the fixpoint iteration, so the LAST visit of a site sees
            # the most general state: its arguments and must-facts are the summary of the site
            ev.visits += 1
            ev.args = list(args)
            ev.facts = facts
            ev.ret = None
        return ev

    def fold_pure(self, name, args):
        short = name.rsplit("::", 1)[1]
        a = args
        try:
            if all(is_const(x) for x in a):
                if name.endswith("<impl f64>::to_bits"): return C("u64", a[0][2])
                if name.endswith("<impl f64>::from_bits"): return C("f64", a[0][2] & ((1 << 64) - 1))
                if name.startswith("core::num::<impl "):
                    ty = name[len("core::num::<impl "):].split(">")[0]
                    if ty in INT_TYS:
                        w, s = INT_TYS[ty]; x = a[0][2] & ((1 << w) - 1)
                        if short == "trailing_zeros": return C("u32", w if x == 0 else (x & -x).bit_length() - 1)
                        if short == "leading_zeros": return C("u32", w - x.bit_length())
                        if short == "count_ones": return C("u32", bin(x).count("1"))
                        if short in ("to_le", "from_le"): return a[0]
                        if short == "wrapping_add": return C(ty, wrap_int(ty, a[0][2] + a[1][2]))
                        if short == "wrapping_sub": return C(ty, wrap_int(ty, a[0][2] - a[1][2]))
                        if short == "wrapping_mul": return C(ty, wrap_int(ty, a[0][2] * a[1][2]))
                        if short == "pow": return C(ty, wrap_int(ty, a[0][2] ** a[1][2]))
                if name.endswith("<impl f64>::abs") and a[0][1] == "f64": return C("f64", a[0][2] & ~(1 << 63))
                if name.endswith("<impl f64>::sqrt") and a[0][1] == "f64":
                    x = f64_from_bits(a[0][2])
                    if x >= 0: return C("f64", f64_to_bits(x ** 0.5)) if False else ('call', name, tuple(a))
        except Exception:
            pass
        return ('call', name, tuple(a))


def fold_bin(op, ty, a, b):
    x, y = a[2], b[2]
    if ty in INT_TYS and a[1] in INT_TYS:
        w, s = INT_TYS[ty]
        if op == "add": return C(ty, wrap_int(ty, x + y))
        if op == "sub": return C(ty, wrap_int(ty, x - y))
        if op == "mul": return C(ty, wrap_int(ty, x * y))
        if op == "div":
            if y == 0: return None
            q = abs(x) // abs(y); q = q if (x >= 0) == (y >= 0) else -q
            return C(ty, wrap_int(ty, q))
        if op == "rem":
            if y == 0: return None
            r = abs(x) % abs(y); r = r if x >= 0 else -r
            return C(ty, wrap_int(ty, r))
        if op == "bitand": return C(ty, wrap_int(ty, x & y))
        if op == "bitor": return C(ty, wrap_int(ty, x | y))
        if op == "bitxor": return C(ty, wrap_int(ty, x ^ y))
        if op == "shl": return C(ty, wrap_int(ty, (x & ((1 << w) - 1)) << (y % w)))
        if op == "shr":
            return C(ty, wrap_int(ty, x >> (y % w)) if s else wrap_int(ty, (x & ((1 << w) - 1)) >> (y % w)))
    if ty == "bool" and a[1] == "bool":
        if op == "bitand": return mk_bool(x & y)
        if op == "bitor": return mk_bool(x | y)
        if op == "bitxor": return mk_bool(x ^ y)
    if ty == "f64" and a[1] == "f64" and b[1] == "f64":
        fx, fy = f64_from_bits(x), f64_from_bits(y)
        try:
            if op == "add": return C("f64", f64_to_bits(fx + fy))
            if op == "sub": return C("f64", f64_to_bits(fx - fy))
            if op == "mul": return C("f64", f64_to_bits(fx * fy))
            if op == "div" and fy != 0: return C("f64", f64_to_bits(fx / fy))
        except OverflowError:
            return None
    return None


def term_ty(t):
    k = t[0]
    if k == 'c': return t[1]
    if k == 'op': return t[2]
    if k == 'un': return t[2]
    if k == 'cast': return t[2]
    return None


def fact_of(c, truth):
    """Canonical fact for boolean term c being `truth`.  Float comparisons keep their polarity
    (a failed `a <= b` is not `a > b`: NaN)."""
    if c[0] == 'un' and c[1] == 'not':
        return fact_of(c[3], not truth)
    return ('b', c, bool(truth))


def contradicts(facts, f):
    if f[0] == 'b':
        return ('b', f[1], not f[2]) in facts
    return False


def subterm(a, b):
    """True if term a occurs inside term b."""
    if a == b: return True
    if isinstance(b, tuple):
        for x in b:
            if isinstance(x, tuple) and subterm(a, x): return True
    return False


class NoUnroll(Exception):
    pass


# ------------------------------------------------------------------ iterator models (unroll mode)
def _opt(v=None):
    return ('agg', 'adt:std::option::Option', 1, (v,)) if v is not None else ('agg', 'adt:std::option::Option', 0, ())


def _array_len(v):
    if v[0] == 'agg' and v[1] == 'array': return len(v[3])
    if v[0] == 'cast' and isinstance(v[2], str):
        import re
        m = re.fullmatch(r"\[[^;\[\]]+; (\d+)\]", v[2])
        if m: return int(m.group(1))
    return None


def _m_slice_iter(eng, st, args, site):
    a = args[0]
    if a[0] != 'ref': return None
    arr = eng.read_cur(st, ('local', a[1], a[2], a[3]))
    n = _array_len(arr)
    if n is None: return None
    return ('agg', 'model:slice_iter', 0, (arr, C('usize', 0), C('usize', n)))


def _m_enumerate(eng, st, args, site):
    it = args[0]
    if it[0] == 'agg' and it[1].startswith('model:'): return ('agg', 'model:enumerate', 0, (it, C('usize', 0)))
    return None


def _m_into_iter(eng, st, args, site):
    it = args[0]
    if it[0] == 'agg' and (it[1].startswith('model:') or it[1] == 'adt:std::ops::Range'): return it
    return None


def _iter_step(eng, it):
    """(item or None, new iterator value) for a modelled iterator with a concrete position; None if not concrete"""
    if it[0] != 'agg': return None
    if it[1] == 'model:slice_iter':
        arr, pos, n = it[3]
        if pos[0] != 'c' or n[0] != 'c': return None
        if pos[2] >= n[2]: return (None, it)
        elem = eng.project(arr, ('i', pos[2]))
        return (('ref_t', elem), ('agg', it[1], 0, (arr, C('usize', pos[2] + 1), n)))
    if it[1] == 'model:enumerate':
        inner, k = it[3]
        r = _iter_step(eng, inner)
        if r is None or k[0] != 'c': return None
        if r[0] is None: return (None, ('agg', it[1], 0, (r[1], k)))
        return (('agg', 'tuple', 0, (k, r[0])), ('agg', it[1], 0, (r[1], C('usize', k[2] + 1))))
    if it[1] == 'adt:std::ops::Range':
        a, b = it[3]
        if a[0] != 'c' or b[0] != 'c' or a[1] != b[1]: return None
        if a[2] >= b[2]: return (None, it)
        return (a, ('agg', it[1], it[2], (C(a[1], a[2] + 1), b)))
    return None


def _m_next(eng, st, args, site):
    a = args[0]
    if a[0] != 'ref': return None
    cur = ('local', a[1], a[2], a[3])
    it = eng.read_cur(st, cur)
    r = _iter_step(eng, it)
    if r is None: return None
    item, new = r
    eng.write_cur(st, cur, new, site)
    return _opt(item)


ITER_MODELS = {
    "core::slice::<impl [T]>::iter": _m_slice_iter,
    "std::iter::Iterator::enumerate": _m_enumerate,
    "<I as std::iter::IntoIterator>::into_iter": _m_into_iter,
    "<std::slice::Iter<'a, T> as std::iter::Iterator>::next": _m_next,
    "<std::iter::Enumerate<I> as std::iter::Iterator>::next": _m_next,
    "std::iter::range::<impl std::iter::Iterator for std::ops::Range<A>>::next": _m_next,
}


def walk(t):
    """all sub-terms of t (tuples whose head is a constructor name; containers are traversed)"""
    if isinstance(t, tuple):
        if t and isinstance(t[0], str):
            yield t
            if t[0] in ('sym', 'phi', 'c', 'p', 'static', 'fn'): return     # keys are not terms
        for x in t:
            if isinstance(x, tuple):
                for y in walk(x): yield y


def show(t, crate=None, depth=0):
    """Human-readable rendering of a term."""
    if not isinstance(t, tuple): return repr(t)
    k = t[0]
    if depth > 12: return "…"
    s = lambda x: show(x, crate, depth + 1)
    if k == 'c':
        if t[1] == 'f64': return repr(f64_from_bits(t[2]))
        if t[1] == 'unit': return "()"
        if t[1] == 'bool': return "true" if t[2] else "false"
        return "%s%s" % (t[2], t[1]) if t[1] in INT_TYS else repr(t[2])
    if k == 'p': return t[1]
    if k == 'sym': return "?%s" % (abs(hash(t[1])) % 100000)
    if k == 'phi': return "φ%s" % (abs(hash(t[1])) % 100000)
    if k == 'op': return "(%s %s %s)" % (s(t[3]), OPSYM.get(t[1], t[1]), s(t[4]))
    if k == 'un': return "%s(%s)" % (t[1], s(t[3]))
    if k == 'cast': return "(%s as %s)" % (s(t[3]), t[2])
    if k == 'fld':
        return "%s.%s" % (s(t[1]), t[2])
    if k == 'deref': return "*%s" % s(t[1])
    if k == 'idx': return "%s[%s]" % (s(t[1]), s(t[2]))
    if k == 'dc': return "%s@v%d" % (s(t[1]), t[2])
    if k == 'discr': return "discr(%s)" % s(t[1])
    if k == 'call': return "%s(%s)" % (t[1].rsplit("::", 1)[-1], ", ".join(s(x) for x in t[2]))
    if k == 'agg':
        n = t[1]
        if n.startswith('adt:'):
            n = n[4:].rsplit("::", 1)[-1] + "#%d" % t[2]
        return "%s{%s}" % (n, ", ".join(s(x) for x in t[3]))
    if k == 'ref': return "&local%s%s" % (t[2], list(t[3]) if t[3] else "")
    if k == 'ref_t': return "&%s" % s(t[1])
    if k == 'static': return t[1].rsplit("::", 1)[-1]
    if k == 'fn': return "fn:" + t[1]
    if k == 'undef': return "undef"
    return str(t)


OPSYM = {"add": "+", "sub": "-", "mul": "*", "div": "/", "rem": "%", "bitand": "&", "bitor": "|",
         "bitxor": "^", "shl": "<<", "shr": ">>", "lt": "<", "le": "<=", "gt": ">", "ge": ">=",
         "eq": "==", "ne": "!="}
