#!/usr/bin/env python3
"""Pretty-printer for fact files (debug aid): python3 pp.py facts.json <path-substring>"""
import json, sys

def pl(p):
    s = "_%d" % p["l"]
    for e in p["p"]:
        k = e[0]
        if k == "deref": s = "(*%s)" % s
        elif k == "field": s = "%s.%d" % (s, e[1])
        elif k == "index": s = "%s[_%d]" % (s, e[1])
        elif k == "cindex": s = "%s[%s%d]" % (s, "-" if e[2] else "", e[1])
        elif k == "downcast": s = "(%s as %s)" % (s, e[2] or e[1])
        else: s = "%s.%s" % (s, k)
    return s

def tys(t):
    k = t["k"]
    if k == "int": return t["n"]
    if k == "float": return "f%d" % t["w"]
    if k in ("adt", "dyn", "param", "other", "deep"): return t["s"]
    if k == "ref": return "&%s%s" % ("mut " if t["mut"] else "", tys(t["to"]))
    if k == "ptr": return "*%s%s" % ("mut " if t["mut"] else "const ", tys(t["to"]))
    if k == "array": return "[%s; %s]" % (tys(t["elem"]), t["len"])
    if k == "slice": return "[%s]" % tys(t["elem"])
    if k == "tuple": return "(%s)" % ", ".join(tys(x) for x in t["elems"])
    if k in ("fndef", "closure"): return "%s{%s}" % (k, t["path"])
    return k

def op(o):
    if o["k"] in ("copy", "move"): return ("move " if o["k"] == "move" else "") + pl(o["pl"])
    if "fn" in o: return "fn " + o["fn"].get("resolved", o["fn"]["path"])
    if "static" in o: return "&static " + o["static"]
    if "bits" in o:
        t = o["ty"]
        if t["k"] == "float":
            import struct
            return "%r_f64" % struct.unpack("<d", int(o["bits"]).to_bytes(8, "little"))[0] if t["w"] == 64 else o["bits"] + "_f32bits"
        return "%s_%s" % (o["bits"], tys(t))
    if "item" in o: return "const " + o["item"] + ("[promoted %s]" % o["promoted"] if "promoted" in o else "")
    return "const<%s>" % tys(o["ty"])

def rv(r):
    k = r["k"]
    if k == "use": return op(r["op"])
    if k == "binop": return "%s(%s, %s)" % (r["op"], op(r["l"]), op(r["r"]))
    if k == "unop": return "%s(%s)" % (r["op"], op(r["x"]))
    if k == "cast": return "%s as %s [%s]" % (op(r["op"]), tys(r["ty"]), r["cast"])
    if k == "ref": return "&%s%s" % ("mut " if r["mut"] else "", pl(r["pl"]))
    if k == "rawptr": return "&raw %s" % pl(r["pl"])
    if k == "discr": return "discriminant(%s)" % pl(r["pl"])
    if k == "aggregate":
        n = r["agg"]
        if n == "adt": n = "%s::%s" % (r["adt"], r["variant_name"])
        if n == "closure": n = "closure " + r["closure"]
        return "%s{%s}" % (n, ", ".join(op(x) for x in r["ops"]))
    if k == "repeat": return "[%s; %s]" % (op(r["op"]), r["n"])
    return k + ":" + r.get("dbg", "")

def show(b, out=sys.stdout):
    out.write("fn %s  (%s) args=%d %s\n" % (b.get("path"), b["span"], b["arg_count"], b.get("vis", "")))
    for d in b["debug"]:
        out.write("  debug %s => %s\n" % (d["name"], pl(d["val"]) if "l" in d["val"] else op(d["val"])))
    for i, l in enumerate(b["locals"]):
        out.write("  let _%d: %s\n" % (i, tys(l["ty"])))
    for i, blk in enumerate(b["blocks"]):
        out.write("  bb%d%s:\n" % (i, " (cleanup)" if blk["cleanup"] else ""))
        for s in blk["stmts"]:
            if s["k"] == "assign": out.write("    %s = %s   // %s\n" % (pl(s["lhs"]), rv(s["rv"]), s["at"].split("/")[-1]))
            else: out.write("    %s\n" % json.dumps(s)[:200])
        t = blk["term"]; k = t["k"]
        if k == "goto": s = "goto bb%d" % t["target"]
        elif k == "switch": s = "switch(%s) [%s, otherwise bb%d]" % (op(t["discr"]), ", ".join("%s: bb%d" % (a, b2) for a, b2 in t["targets"]), t["otherwise"])
        elif k == "call":
            f = t["func"]
            name = f.get("resolved", f.get("path", "?")) if f["k"] == "fn" else "indirect " + op(f["op"])
            s = "%s = call %s(%s) -> %s" % (pl(t["dest"]), name, ", ".join(op(a) for a in t["args"]), "bb%d" % t["target"] if t["target"] is not None else "!")
            if f.get("inst") == "virtual": s += "  [virtual %s::%s]" % (f.get("trait"), f.get("method"))
        elif k == "assert": s = "assert(%s == %s, %s) -> bb%d" % (op(t["cond"]), t["expected"], t["msg"], t["target"])
        elif k == "drop": s = "drop(%s) -> bb%d" % (pl(t["place"]), t["target"])
        else: s = k
        out.write("    %s   // %s\n" % (s, t["at"].split("/")[-1]))

if __name__ == "__main__":
    f = json.load(open(sys.argv[1]))
    for b in f["bodies"]:
        if sys.argv[2] in b["path"] and (len(sys.argv) < 4 or b["path"].endswith(sys.argv[3])):
            show(b)
            for i, p in enumerate(b.get("promoted", [])):
                print("  -- promoted %d" % i); show(dict(p, path=b["path"] + "[promoted]"))
