"""Reference HEALPix geometry (Gorski et al. 2005, Calabretta & Roukema 2007), independent of the crate:
projection plane x in [0, 8), y in [-2, 2]; base cells are the squares (rotated 45 deg) of half-diagonal 1
centred at (1+2k, 1) [north cap], (2k, 0) [equatorial], (1+2k, -1) [south cap]."""
import math

def unproj(x, y):
    x = x % 8.0
    ay = abs(y)
    if ay <= 1.0:
        lon = x * math.pi / 4; lat = math.asin(min(1.0, ay * 2.0 / 3.0))
    else:
        t = 2.0 - ay                               # sqrt(3 (1 - |z|))
        k = math.floor(x / 2.0)
        pm1 = x - 2 * k - 1.0                      # offset from the centre meridian of the quarter, in [-1, 1)
        lon = (2 * k + 1 + (pm1 / t if t > 0 else 0.0)) * math.pi / 4
        z = 1.0 - t * t / 3.0
        lat = math.asin(max(-1.0, min(1.0, z)))
    return lon, (lat if y >= 0 else -lat)

def vec(lon, lat):
    c = math.cos(lat); return (c * math.cos(lon), c * math.sin(lon), math.sin(lat))

def dist(u, v):
    cx = u[1] * v[2] - u[2] * v[1]; cy = u[2] * v[0] - u[0] * v[2]; cz = u[0] * v[1] - u[1] * v[0]
    return math.atan2(math.sqrt(cx * cx + cy * cy + cz * cz), u[0] * v[0] + u[1] * v[1] + u[2] * v[2])

def cells(depth):
    """[(lon, lat, unit vector of the centre, largest centre-to-vertex distance)] of the 12 * 4^depth cells"""
    n = 1 << depth; out = []
    for b in range(12):
        q = b % 4
        x0, y0 = ((1 + 2 * q, 1.0) if b < 4 else ((2 * q, 0.0) if b < 8 else (1 + 2 * q, -1.0)))
        for i in range(n):
            for j in range(n):
                cx = x0 + (i - j) / n; cy = y0 + (i + j + 1) / n - 1.0
                lon, lat = unproj(cx, cy)
                c = vec(lon, lat)
                vs = [unproj(cx, cy + 1.0 / n), unproj(cx, cy - 1.0 / n), unproj(cx + 1.0 / n, cy), unproj(cx - 1.0 / n, cy)]
                out.append((lon % (2 * math.pi), lat, c, max(dist(c, vec(*v)) for v in vs)))
    return out
