"""Runs the fact extractor (the rustc_private driver) over a crate under a named build config.
A fresh CARGO_TARGET_DIR outside /repo and /verif is used on every run (cargo's freshness cache
would otherwise skip the wrapper) and removed afterwards."""
import os, shutil, subprocess, tempfile, time, atexit
from mir import Crate

VERIF = os.path.dirname(os.path.dirname(os.path.abspath(__file__)))
DRIVER = os.path.join(VERIF, "driver", "target", "release", "hpx-facts")
REPO = os.environ.get("HPX_REPO", "/repo")

CONFIGS = {
    # name: (extra rustflags, cargo args)
    "rel": ("-C debug-assertions=off -C overflow-checks=off", ["--lib"]),
    "dbg": ("-C debug-assertions=on -C overflow-checks=on", ["--lib"]),
    "bmi2": ("-C debug-assertions=off -C overflow-checks=off -C target-feature=+bmi2", ["--lib"]),
    "test": ("-C debug-assertions=off -C overflow-checks=off", ["--lib", "--profile", "test"]),
}
BASE_FLAGS = "-Zmir-opt-level=0 -Awarnings -Zub-checks=no"

_tmp = None
_cache = {}


class ExtractError(Exception):
    pass


def sysroot():
    return subprocess.check_output(["rustc", "+nightly", "--print", "sysroot"], text=True).strip()


def tmpdir():
    global _tmp
    if _tmp is None:
        _tmp = tempfile.mkdtemp(prefix="hpxverif.")
        atexit.register(lambda: shutil.rmtree(_tmp, ignore_errors=True))
    return _tmp


def ensure_driver():
    if not os.path.exists(DRIVER):
        r = subprocess.run(["cargo", "build", "--release", "--offline"], cwd=os.path.join(VERIF, "driver"),
                           capture_output=True, text=True)
        if r.returncode != 0 or not os.path.exists(DRIVER):
            raise ExtractError("cannot build the fact extractor:\n" + r.stderr[-4000:])


def extract(config="rel", repo=None, crate_name="cdshealpix"):
    """Returns a mir.Crate for `repo` (default /repo) under `config`."""
    repo = repo or REPO
    key = (config, repo, crate_name)
    if key in _cache: return _cache[key]
    ensure_driver()
    flags, cargo_args = CONFIGS[config]
    t0 = time.time()
    work = tempfile.mkdtemp(prefix="x.", dir=tmpdir())
    out = os.path.join(work, "facts.json")
    env = dict(os.environ)
    env.update({
        "LD_LIBRARY_PATH": sysroot() + "/lib",
        "HPX_FACTS_OUT": out,
        "HPX_FACTS_CRATE": crate_name,
        "RUSTFLAGS": BASE_FLAGS + " " + flags,
        "RUSTC_WORKSPACE_WRAPPER": DRIVER,
        "CARGO_TARGET_DIR": os.path.join(work, "target"),
        "CARGO_NET_OFFLINE": "true",
        "RUSTC_ICE": "0",
        "CARGO_INCREMENTAL": "0",
    })
    env.pop("RUSTC_WRAPPER", None)
    r = subprocess.run(["cargo", "+nightly", "check", "--offline"] + cargo_args, cwd=repo, env=env,
                       capture_output=True, text=True)
    if r.returncode != 0:
        shutil.rmtree(work, ignore_errors=True)
        raise ExtractError("crate does not compile under config %s:\n%s" % (config, r.stderr[-6000:]))
    if not os.path.exists(out) or os.path.getmtime(out) < t0 - 1:
        shutil.rmtree(work, ignore_errors=True)
        raise ExtractError("fact file was not produced for config %s (wrapper skipped?)\n%s" % (config, r.stderr[-2000:]))
    c = Crate(out)
    c.config = config
    c.extract_s = time.time() - t0
    shutil.rmtree(os.path.join(work, "target"), ignore_errors=True)
    _cache[key] = c
    return c
