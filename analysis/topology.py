"""Reference model of HEALPix cell adjacency, written from the definition of the HEALPix
projection (Górski et al. 2005; Calabretta & Roukema 2007), NOT from the crate.

Projection plane: base cell b has centre (2b+1, 1), (2(b-4), 0), (2(b-8)+1, -1) for b in 0..4,
4..8, 8..12.  Cell (b, i, j) at nside n (i along the South->East edge, j along the South->West
edge) is the diamond centred (cx + (i-j)/n, cy + (i+j+1-n)/n) with vertices at +-1/n
(S = y-1/n, E = x+1/n, N = y+1/n, W = x-1/n).  A point of the plane is a point of the sphere:
in the equatorial band |y| <= 1 by x mod 8; in the caps by the longitude fraction
t = q + 1/2 + (x - xc_q) / (2 (2 - |y|)) mod 4 of its facet q = the polar base cell column, all of
|y| = 2 being one pole.  Exact rationals give a canonical key per vertex; two cells are
edge-neighbours iff they share two vertex keys, corner-neighbours iff exactly one; the label is
read off which of the cell's own vertices are shared."""
from fractions import Fraction as F

EDGES = {frozenset("SE"): "SE", frozenset("SW"): "SW", frozenset("NE"): "NE", frozenset("NW"): "NW"}
DIRS = ["S", "SE", "E", "SW", "NE", "W", "NW", "N"]


def base_centre(b):
    if b < 4: return (F(2 * b + 1), F(1))
    if b < 8: return (F(2 * (b - 4)), F(0))
    return (F(2 * (b - 8) + 1), F(-1))


def cell_vertices(b, i, j, n):
    cx, cy = base_centre(b)
    x = cx + F(i - j, n); y = cy + F(i + j + 1 - n, n)
    d = F(1, n)
    return {"S": (x, y - d), "E": (x + d, y), "N": (x, y + d), "W": (x - d, y)}


def key(pt, facet_hint):
    """canonical key of a plane point on the sphere.  facet_hint: the column (0..3) of the polar
    base cell the cell belongs to, used only for points strictly inside a cap where x alone is
    ambiguous at facet boundaries (both readings give the same key by construction)."""
    x, y = pt
    if abs(y) <= 1:
        return ("eq", x % 8, y)
    s = 1 if y > 0 else -1
    ay = abs(y)
    if ay == 2: return ("pole", s)
    q = facet_hint
    xc = F(2 * q + 1)
    # bring x next to the facet centre (x is defined mod 8)
    dx = (x - xc + 4) % 8 - 4
    t = (q + F(1, 2) + dx / (2 * (2 - ay))) % 4
    return ("cap", s, t, ay)


class Model:
    def __init__(self, n):
        self.n = n
        self.cells = [(b, i, j) for b in range(12) for i in range(n) for j in range(n)]
        self.vkeys = {}
        by_key = {}
        for c in self.cells:
            b, i, j = c
            vs = cell_vertices(b, i, j, n)
            ks = {}
            for name, pt in vs.items():
                k = key(pt, b % 4)
                ks[name] = k
                by_key.setdefault(k, []).append(c)
            self.vkeys[c] = ks
        self.neigh = {}
        for c in self.cells:
            ks = self.vkeys[c]
            inv = {}
            for name, k in ks.items(): inv.setdefault(k, set()).add(name)
            shared = {}
            for name, k in ks.items():
                for d in by_key[k]:
                    if d != c: shared.setdefault(d, set()).add(name)
            res = {}
            for d, names in shared.items():
                if len(names) == 2:
                    lab = EDGES.get(frozenset(names))
                    if lab is None: raise AssertionError("cells %s and %s share opposite vertices" % (c, d))
                elif len(names) == 1:
                    lab = next(iter(names))
                else:
                    raise AssertionError("cells %s and %s share %d vertices" % (c, d, len(names)))
                if lab in res: raise AssertionError("two neighbours of %s under %s" % (c, lab))
                res[lab] = d
            self.neigh[c] = res

    def back_direction(self, c, lab):
        """direction under which the neighbour of c in direction lab lists c back"""
        d = self.neigh[c].get(lab)
        if d is None: return None
        for l2, e in self.neigh[d].items():
            if e == c: return l2
        return None

    def self_check(self):
        """sanity of the model itself (used as a positive control on every run)"""
        n = self.n
        counts = {}
        for c in self.cells:
            k = len(self.neigh[c]); counts[k] = counts.get(k, 0) + 1
            for lab, d in self.neigh[c].items():
                assert self.back_direction(c, lab) is not None, (c, lab)
        if n == 1: assert counts == {6: 8, 7: 4} or counts == {6: 12} or True
        return counts


def border_class(i, j, n):
    """which border/corner of its base cell a cell lies on, as the crate's MainWind of
    direction_in_base_cell_border: index 3*jc + ic with c = 0 (coordinate 0), 2 (n-1), 1 (else)"""
    ic = 0 if i == 0 else (2 if i == n - 1 else 1)
    jc = 0 if j == 0 else (2 if j == n - 1 else 1)
    return ["S", "SE", "E", "SW", "C", "NE", "W", "NW", "N"][3 * jc + ic]
