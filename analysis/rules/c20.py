"""C20 — lazily initialised `static mut` tables: access discipline under std::sync::Once (engine E2).

Rule (typestate + must-facts = dominance): every access to a `static mut` of the crate is either
 (a) inside the closure handed to `Once::call_once` on ONE paired `Once` array, at the same index
     (state `in_once`), or
 (b) a read at a program point where, on every path, `call_once` on that paired `Once[index]` has
     returned (state `once_done`; by the contract of `Once` this is a happens-before edge from the
     initialising write);
the initialiser stores `Some(ctor(index))`, `ctor` has no other call site, the raw pointer to the
static does not escape, and the shared object type has no interior mutability and no `&mut self`
method.  Nothing is executed; interleavings are covered by the argument, not by enumeration."""
from sym import Engine, show, walk, subterm, UNIT

ONCE_CALL = "std::sync::Once::call_once"


def statics_mut(crate):
    return sorted(p for p, s in crate.statics.items() if s["mutable"])


def bodies_mentioning(crate, static):
    out = []
    needle = '"static": "%s"' % static
    import json
    for b in crate.bodies.values():
        for body in [b] + b.promoted:
            if needle in json.dumps(body.j.get("blocks")):
                out.append(b); break
    return out


def make_engine(crate, accesses, once_sites):
    last = {}
    def hook(kind, t, facts, loc):
        # keep the LAST visit of each access site (most general state of the fixpoint iteration)
        k = (kind, t, loc)
        if k in last: accesses[last[k]] = (kind, t, facts, loc)
        else:
            last[k] = len(accesses); accesses.append((kind, t, facts, loc))

    def call_once_model(eng, st, args, site):
        once_ref, clo = args[0], args[1]
        place = once_ref[1] if once_ref[0] == 'ref_t' else ('deref', once_ref)
        once_sites.append((place, clo, eng.loc))
        if clo[0] == 'agg' and clo[1].startswith('closure:'):
            cb = crate.body(clo[1][8:])
            if cb is not None:
                before = st.copy()
                st.store[(site, 'env')] = clo
                env = ('ref', site, 'env', ())
                if cb.local_ty(1)["k"] != "ref": env = clo
                st.facts = st.facts | {('in_once', place)}
                sub = eng.run_body(cb, [env], st, site + (("closure", 0),), (cb.path,))
                if sub.returns:
                    after = sub.state
                    after.facts = (after.facts - {('in_once', place)})
                    j = eng.join_state(before, after, ('once', site))
                    st.store, st.heap = j.store, j.heap
                    st.facts = before.facts | {('once_done', place)}
                    return UNIT
        st.facts = st.facts | {('once_done', place)}
        return UNIT

    eng = Engine(crate, models={ONCE_CALL: call_once_model}, max_depth=6)
    eng.access_hook = hook
    return eng


def split_slot(t):
    """('idx', ('static', S), i) prefix of an access term -> (S, i, rest?)"""
    chain = []
    r = t
    while r[0] in ('fld', 'idx', 'dc', 'deref', 'proj'):
        chain.append(r); r = r[1]
    chain.reverse()
    if r[0] != 'static': return None, None
    if chain and chain[0][0] == 'idx': return r[1], chain[0][2]
    return r[1], None


def check_discipline(ctx, crate, label=""):
    muts = statics_mut(crate)
    n_access = 0
    ctors = {}
    for S in muts:
        users = bodies_mentioning(crate, S)
        fns = [b for b in users if b.kind != "Closure"]
        closures = [b for b in users if b.kind == "Closure"]
        visited = set()
        paired = set()
        if not fns and not closures:
            continue
        for f in fns:
            ctx.functions.add(f.path)
            accesses, once_sites = [], []
            eng = make_engine(crate, accesses, once_sites)
            eng.run(f.path)
            visited |= eng.visited_fns
            # pointer escape: the raw pointer constant to S passed to a call or stored
            for ev in eng.events.values():
                for a in ev.args:
                    if a == ('ref_t', ('static', S)):
                        ctx.violated("no-escape", "%s:escape:%s" % (S, f.path),
                                     "pointer to the whole static mut %s is passed to %s" % (S, ev.callee), at=ev.at)
            for kind, t, facts, loc in accesses:
                s, idx = split_slot(t)
                if s != S: continue
                n_access += 1
                where = "%s (%s)" % (loc[0], loc[2])
                in_once = [x for x in facts if x[0] == 'in_once']
                done = [x for x in facts if x[0] == 'once_done']
                ok_in = [x for x in in_once if x[1][0] == 'idx' and x[1][1][0] == 'static' and x[1][2] == idx]
                ok_done = [x for x in done if x[1][0] == 'idx' and x[1][1][0] == 'static' and x[1][2] == idx]
                for x in ok_in + ok_done: paired.add(x[1][1][1])
                key = "%s:%s:%s" % (S, loc[0], kind + ("-before-once" if not (ok_in or ok_done) else ""))
                if idx is None:
                    ctx.violated("discipline", key, "access to %s not through a single slot index" % S, at=where)
                elif kind in ('write', 'refmut'):
                    if ok_in:
                        ctx.holds("discipline", "%s:%s:write-in-once" % (S, loc[0]), "write of %s inside call_once closure" % show(t), at=where,
                                  sample={"static": S, "access": kind, "place": show(t), "state": "in_once", "at": where})
                    else:
                        ctx.violated("discipline", key, "unsynchronised %s of %s: not inside the closure given to call_once on the paired Once slot" % (kind, show(t)), at=where)
                else:
                    if ok_in or ok_done:
                        ctx.holds("discipline", "%s:%s:%s-%s" % (S, loc[0], kind, "in-once" if ok_in else "after-once"),
                                  "%s of %s %s" % (kind, show(t), "inside call_once closure" if ok_in else "dominated by call_once on the same index"), at=where,
                                  sample={"static": S, "access": kind, "place": show(t), "state": "in_once" if ok_in else "once_done", "at": where})
                    else:
                        ctx.violated("discipline", key,
                                     "unsynchronised %s of %s: on some path to this point call_once on the paired Once[%s] has not returned (data race with the initialising write)" % (kind, show(t), show(idx)), at=where)
            # constructor: payload of the Some written in the closure
            for kind, t, facts, loc in accesses:
                pass
            for ev in eng.events.values():
                if ev.callee and crate.body(ev.callee) is not None and any(fr[0] == "closure" for fr in ev.site) \
                        and len([fr for fr in ev.site if fr[0] != "closure"]) == 2:
                    # direct call from the closure body
                    ctors.setdefault(S, set()).add(ev.callee)
        for cb in closures:
            ctx.functions.add(cb.path)
            if cb.path not in visited:
                ctx.violated("discipline", "%s:%s:closure-not-under-once" % (S, cb.path),
                             "closure touching %s is not the argument of a Once::call_once call" % S, at=cb.span)
        if len(paired) == 1:
            ctx.holds("pairing", "%s:paired-once" % S, "all synchronised accesses use the Once array %s" % sorted(paired)[0])
        elif len(paired) > 1:
            ctx.violated("pairing", "%s:paired-once" % S, "accesses are guarded by different Once arrays: %s" % sorted(paired))
        # constructor has exactly one call site
        for ctor in sorted(ctors.get(S, ())):
            sites = crate.callers().get(ctor, [])
            ok = len(sites) == 1 and crate.body(sites[0][0]).kind == "Closure"
            ctx.report("single-constructor-site", "%s:ctor:%s" % (S, ctor), ok,
                       "%s is called from %s" % (ctor, sorted(set(s[0] for s in sites))), at=crate.body(ctor).span)
    return muts, n_access


def check_shared_types(ctx, crate):
    """The objects handed out as &'static are never mutated afterwards: no interior mutability in
    their fields, no method taking &mut self, trait objects they hold are Sync."""
    n = 0
    for S in statics_mut(crate):
        ty = crate.statics[S]["ty"]
        # [Option<T>; N]
        try:
            T = ty["elem"]["args"][0]["path"]
        except Exception:
            ctx.undecided("shared-type", "%s:type" % S, "unexpected static type %r" % ty); continue
        adt = crate.adts.get(T)
        if not adt: ctx.undecided("shared-type", "%s:adt" % S, "no ADT info for %s" % T); continue
        bad = []
        for f in adt["variants"][0]["fields"]:
            for needle in ("Cell<", "Mutex", "RwLock", "Atomic", "*mut", "*const", "UnsafeCell", "&mut"):
                if needle in f["ty"]: bad.append("%s: %s" % (f["name"], f["ty"]))
            n += 1
        ctx.report("shared-type", "%s:%s:no-interior-mutability" % (S, T), not bad,
                   "fields with interior mutability / raw pointers: %s" % bad if bad else "%d fields, none with interior mutability" % len(adt["variants"][0]["fields"]))
        mm = [b.path for b in crate.bodies.values() if b.j.get("impl_self") == T and b.arg_count >= 1
              and b.local_ty(1)["k"] == "ref" and b.local_ty(1)["mut"] and b.local_ty(1)["to"].get("path") == T]
        ctx.report("shared-type", "%s:%s:no-mut-self-method" % (S, T), not mm, "methods taking &mut self: %s" % mm)
        n += 1
    return n


def fixture_controls(ctx):
    fx = ctx.fixtures()
    class Sub:  # collect reports of the fixture crate without polluting the real ones
        pass
    from framework import Ctx
    sub = Ctx("C20", ctx.tier)
    check_discipline(sub, fx)
    keys = {(i["key"], i["status"]) for i in sub.instances}
    bad_flagged = any(k.startswith("c20::BAD_SLOTS") and s == "violated" for k, s in keys)
    good_clean = not any(k.startswith("c20::GOOD_SLOTS") and s != "holds" for k, s in keys) and \
        any(k.startswith("c20::GOOD_SLOTS") and s == "holds" for k, s in keys)
    ctx.control("c20-bad-fixture-flagged", bad_flagged, "rule must flag fixtures::c20::get_bad (read before call_once): %s" % sorted(keys))
    ctx.control("c20-good-fixture-clean", good_clean, "rule must accept fixtures::c20::get_good: %s" % sorted(keys))


def run(ctx):
    configs = ["rel"] if ctx.tier == "quick" else ["rel", "dbg"]
    for cfg in configs:
        crate = ctx.crate(cfg)
        muts, n_access = check_discipline(ctx, crate)
        check_shared_types(ctx, crate)
        ctx.floor("static-mut-objects[%s]" % cfg, len(muts), 2)
        ctx.floor("static-mut-access-sites[%s]" % cfg, n_access, 6)
    fixture_controls(ctx)
    ctx.assume("std::sync::Once contract: the closure runs at most once, and call_once returning happens-after its completion")
    ctx.extra["exhaustive"] = True
