"""C03 — geometry accessors.  D out-of-range cell number rejected on every accessor (E1) and
n_hash = 12*4^depth for the 30 depths (E4 on Layer::new); D sph_coo rejects offsets outside [0,1);
(vertex agreement between accessors: see vertices_agree, E6)."""
from sym import Engine, show, C, walk
from rules.common import check_hash_range_guard, check_float_domain_guard, float_interval, param, run_fn

LAYER_ACCESSORS = ["center", "sph_coo", "vertex", "vertices", "vertices_map", "path_along_cell_side",
                   "path_along_cell_edge", "grid", "center_of_projected_cell"]
FREE_WRAPPERS = ["center", "sph_coo", "vertices", "path_along_cell_side", "path_along_cell_edge", "grid"]


def layer_n_hash_pred(crate):
    idx = crate.field_index("nested::Layer", "n_hash")
    def pred(op, n):
        if op != "lt" or n[0] != 'fld' or n[2] != idx: return False
        base = n[1]
        if base == ('deref', ('p', 'self')): return True
        # the layer object of the lazily initialised table: LAYERS[depth]@Some.0
        r = base
        while r[0] in ('fld', 'idx', 'dc', 'deref'): r = r[1]
        return r == ('static', 'nested::LAYERS')
    return pred


def layer_constants(ctx, crate, clause="layer-constants"):
    """E4: Layer::new(depth) folded for each depth: n_hash, nside, masks, time_half_nside"""
    fn = "nested::Layer::new"
    b = ctx.anchor(crate, fn, clause)
    if b is None: return {}
    fields = [f["name"] for f in crate.adts["nested::Layer"]["variants"][0]["fields"]]
    out = {}
    for d in range(30):
        e, r = run_fn(crate, fn, [C('u8', d)])
        ctx.functions |= e.visited_fns
        if not r.returns or r.ret[0] != 'agg':
            ctx.undecided(clause, "%s:depth%d" % (fn, d), "cannot fold Layer::new(%d): %s" % (d, show(r.ret) if r.returns else "diverges"), at=b.span); continue
        vals = dict(zip(fields, r.ret[3]))
        out[d] = vals
        def cv(n):
            v = vals.get(n); return v[2] if v is not None and v[0] == 'c' else None
        spread = sum(1 << (2 * k) for k in range(d))
        exp = {"depth": d, "nside": 1 << d, "nside_minus_1": (1 << d) - 1, "n_hash": 12 << (2 * d), "twice_depth": 2 * d,
               "d0h_mask": 15 << (2 * d), "x_mask": spread, "y_mask": spread << 1, "xy_mask": (1 << (2 * d)) - 1,
               "nside_remainder_mask": (1 << d) - 1, "time_half_nside": (d - 1) << 52}
        bad = {k: (cv(k), v) for k, v in exp.items() if cv(k) != v}
        ctx.report(clause, "%s:depth%d" % (fn, d), not bad,
                   "Layer::new(%d) constants %s" % (d, "match the closed forms (n_hash = 12*4^d, nside = 2^d, masks, exponent shift)" if not bad else "differ from the closed forms: %s" % bad),
                   at=b.span, sample={"depth": d, "n_hash": cv("n_hash"), "nside": cv("nside"), "time_half_nside": cv("time_half_nside")} if d in (0, 1, 29) else None)
    return out


def run(ctx):
    crate = ctx.crate("rel")
    pred = layer_n_hash_pred(crate)
    n = 0
    for m in LAYER_ACCESSORS:
        if check_hash_range_guard(ctx, crate, "nested::Layer::" + m, "hash", pred, "self.n_hash", "hash-guard") is not None: n += 1
    for m in FREE_WRAPPERS:
        if check_hash_range_guard(ctx, crate, "nested::" + m, "hash", pred, "layer.n_hash", "hash-guard") is not None: n += 1
    ctx.floor("hash-guarded-accessors", n, 15)
    layer_constants(ctx, crate)
    for fn in ("nested::Layer::sph_coo", "nested::sph_coo"):
        for p in ("dx", "dy"):
            b = ctx.anchor(crate, fn, "offset-guard")
            if b is None: continue
            e, r = run_fn(crate, fn); ctx.functions |= e.visited_fns
            lo, los, hi, his = float_interval(r.facts, param(p))
            ok = lo >= 0.0 and (hi < 1.0 or (hi == 1.0 and his))
            ctx.report("offset-guard", "%s:%s" % (fn, p), ok, "%s ∈ [%r, %r%s at every normal return (required [0, 1))" % (p, lo, hi, ")" if his else "]"), at=b.span)
    from rules import c03_vertices
    c03_vertices.run(ctx, crate)
    if ctx.tier == "thorough":
        dbg = ctx.crate("dbg")
        for m in LAYER_ACCESSORS:
            check_hash_range_guard(ctx, dbg, "nested::Layer::" + m, "hash", layer_n_hash_pred(dbg), "self.n_hash", "hash-guard", key="nested::Layer::%s:hash[dbg]" % m)
    ctx.not_decided("centre/offset/path/grid points hash back to their cell; hash_with_dxdy offsets in [0,1]; recovery within 1e-13 rad; depth0_bits rare branches (float numerics)")
    from rules import c03_border_offsets
    c03_border_offsets.run(ctx, ctx.crate("rel"))
    c03_border_offsets.tiebreaks(ctx, ctx.crate("rel"))
    c03_border_offsets.recursion_args(ctx, ctx.crate("rel"))
    from rules.c03_vertices import cardinal_set
    cardinal_set(ctx, ctx.crate("rel"))
    from rules.c03_vertices import cardinal_set_iterator
    cardinal_set_iterator(ctx, ctx.crate("rel"))
    from rules.c03_vertices import grid_ranges
    grid_ranges(ctx, ctx.crate("rel"))
    from rules.c03_vertices import path_points
    path_points(ctx, ctx.crate("rel"))
    from rules.c03_vertices import decomposition_chain
    decomposition_chain(ctx, ctx.crate("rel"))
    from rules import scale
    scale.run(ctx, ctx.crate("rel"), list(range(30)))
    from rules import cancellation
    cancellation.check(ctx, ctx.crate("rel"), ['nested::Layer::hash', 'nested::Layer::center', 'nested::Layer::sph_coo', 'nested::Layer::vertices', 'nested::Layer::vertex', 'nested::Layer::hash_with_dxdy', 'nested::Layer::grid', 'nested::Layer::path_along_cell_edge', 'nested::Layer::path_along_cell_side'], floor=26)
    from rules import controls
    controls.guard_controls(ctx)
    from rules import controls as _controls
    _controls.feval_controls(ctx)
