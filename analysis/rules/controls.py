"""Positive controls: each rule family must flag the known-bad fixture and accept its known-good
twin on every run (exit 2 'broken machinery' otherwise; never a VIOLATION line)."""
import math
from sym import Engine, show
from bits import Bits, sym_bits, spread_bits
from rules.common import check_float_domain_guard, check_hash_range_guard, param

HALF_PI = math.pi / 2


def _sub(ctx):
    from framework import Ctx
    return Ctx(ctx.pid, ctx.tier)


def guard_controls(ctx):
    fx = ctx.fixtures()
    sub = _sub(ctx)
    for fn in ("guards::lat_good", "guards::lat_good_if", "guards::lat_bad_debug_only", "guards::lat_bad_one_sided"):
        check_float_domain_guard(sub, fx, fn, "lat", -HALF_PI, HALF_PI, "ctl", key=fn)
    idx = fx.field_index("guards::Lay", "n_hash")
    pred = lambda op, n: op == "lt" and n == ('fld', ('deref', ('p', 'self')), idx)
    for fn in ("guards::Lay::good", "guards::Lay::good_flipped", "guards::Lay::bad"):
        check_hash_range_guard(sub, fx, fn, "hash", pred, "self.n_hash", "ctl", key=fn)
    st = {i["key"]: i["status"] for i in sub.instances}
    want = {"guards::lat_good": "holds", "guards::lat_good_if": "holds", "guards::lat_bad_debug_only": "violated", "guards::lat_bad_one_sided": "violated",
            "guards::Lay::good": "holds", "guards::Lay::good_flipped": "holds", "guards::Lay::bad": "violated"}
    ctx.control("guard-rule-on-fixtures", all(st.get(k) == v for k, v in want.items()), "expected %s, got %s" % (want, st))


def isqrt_controls(ctx):
    from rules import e7
    fx = ctx.fixtures()
    sub = _sub(ctx)
    for fn in ("isqrt::ring_bad", "isqrt::ring_good", "isqrt::ring_small"):
        e7.check_fn(sub, fx, fn, "ctl")
    st = {i["key"].split(":sqrt")[0]: i["status"] for i in sub.instances}
    want = {"isqrt::ring_bad": "violated", "isqrt::ring_good": "holds", "isqrt::ring_small": "holds"}
    ctx.control("sqrt-chain-rule-on-fixtures", all(st.get(k) == v for k, v in want.items()), "expected %s, got %s" % (want, st))


def haversine_controls(ctx):
    from rules import haversine
    fx = ctx.fixtures()
    sub = _sub(ctx)
    haversine.check_all(sub, fx, clause="ctl")
    st = {i["key"].split(":")[0]: i["status"] for i in sub.instances}
    ctx.control("haversine-rule-on-fixtures", st.get("hav_good") == "holds" and st.get("hav_bad") == "violated", "got %s" % st)


def bits_controls(ctx):
    fx = ctx.fixtures()
    res = {}
    for fn in ("zoc::spread_good", "zoc::spread_bad"):
        e = Engine(fx); r = e.run(fn)
        v = Bits(fx, {param("i"): sym_bits('i', 32, 8)}, e.phi_ops).ev(r.ret)
        res[fn] = v == spread_bits(sym_bits('i', 32, 8), 64, 0)
    ctx.control("bit-vector-rule-on-fixtures", res == {"zoc::spread_good": True, "zoc::spread_bad": False}, "got %s" % res)
    # bounded unrolling: a loop with a concrete trip count gives the term of its written-out twin
    res = {}
    for fn in ("zoc::lut_unrolled", "zoc::lut_loop", "zoc::lut_loop_bad"):
        e = Engine(fx, unroll=64); r = e.run(fn)
        v = Bits(fx, {param("i"): sym_bits('i', 32, 8)}, e.phi_ops).ev(r.ret)
        res[fn] = v == spread_bits(sym_bits('i', 32, 8), 64, 0)
    e = Engine(fx); r = e.run("zoc::lut_loop")           # without unrolling the loop is a merge: not decided, never "equal"
    v = Bits(fx, {param("i"): sym_bits('i', 32, 8)}, e.phi_ops).ev(r.ret)
    res["lut_loop(no unroll)"] = v == spread_bits(sym_bits('i', 32, 8), 64, 0)
    ctx.control("bounded-unrolling-on-fixtures", res == {"zoc::lut_unrolled": True, "zoc::lut_loop": True, "zoc::lut_loop_bad": False, "lut_loop(no unroll)": False}, "got %s" % res)


def cancellation_controls(ctx):
    from rules import cancellation
    fx = ctx.fixtures()
    res = {fn: bool(cancellation.scan_function(fx, fn)) for fn in ("shs_half_angle", "shs_one_minus_cos", "polar_radius_half_angle", "polar_radius_one_minus_sin", "ang_dist_atan2", "ang_dist_acos")}
    ctx.control("cancellation-lint-on-fixtures", res == {"shs_half_angle": False, "shs_one_minus_cos": True, "polar_radius_half_angle": False, "polar_radius_one_minus_sin": True, "ang_dist_atan2": False, "ang_dist_acos": True}, "got %s" % res)


def feval_controls(ctx):
    """the formula reader on hand-made terms: integer wrap at the width of the type, saturating
    float -> int casts, leading_zeros, fmod, a gated merge; and the range reader on a gated merge"""
    import math
    from sym import C
    from mir import f64_to_bits
    from rules.common import feval, frange_facts
    F = lambda v: ('c', 'f64', f64_to_bits(v))
    x = ('p', 'x')
    class E: phi_gate = {}; phi_ops = {}
    e = E()
    t1 = ('op', 'shl', 'i32', ('cast', 'int_to_int', 'i32', x), C('u8', 29))
    ctx.control("feval:i32-shift-wraps", feval(t1, {x: 4}, e) == -(1 << 31) and feval(t1, {x: 3}, e) == 3 << 29, "(x as i32) << 29 at 4 and 3")
    t2 = ('cast', 'float_to_int', 'u8', ('op', 'mul', 'f64', F(2.0), x))
    ctx.control("feval:float-to-int-saturates", [feval(t2, {x: v}, e) for v in (0.25, 0.5, 1.0, 200.0, -3.0)] == [0, 1, 2, 255, 0], "(2.0 * x) as u8")
    t3 = ('call', 'core::num::<impl u64>::leading_zeros', (('op', 'bitxor', 'u64', x, C('u64', 5)),))
    ctx.control("feval:leading-zeros", feval(t3, {x: 4}, e) == 63 and feval(t3, {x: 5}, e) == 64, "leading_zeros(x ^ 5)")
    t4 = ('op', 'rem', 'f64', x, F(1.5))
    ctx.control("feval:fmod-keeps-sign", feval(t4, {x: -2.0}, e) == -0.5 and feval(t4, {x: 2.0}, e) == 0.5, "x % 1.5")
    phi = ('phi', 'control')
    a2 = ('call', 'f64::atan2', (('p', 'y'), x))
    e.phi_gate = {phi: (('op', 'lt', 'f64', a2, F(0.0)), ('op', 'add', 'f64', a2, F(2 * math.pi)), a2)}
    r = frange_facts(phi, {}, set(), eng=e)
    ctx.control("frange:gated-merge", r is not None and abs(r[0]) < 1e-12 and abs(r[1] - 2 * math.pi) < 1e-12, "atan2 + 2pi if negative: %s" % (r,))
    r2 = frange_facts(('op', 'rem', 'f64', x, F(2 * math.pi)), {x: (-float('inf'), float('inf'))}, set(), eng=e)
    ctx.control("frange:rem-keeps-sign", r2 is not None and r2[0] < 0, "x %% 2pi over all x: %s" % (r2,))
