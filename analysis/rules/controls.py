"""Positive controls: each rule family must flag the known-bad fixture and accept its known-good
twin on every run (exit 2 'broken machinery' otherwise; never a VIOLATION line)."""
import math
from sym import Engine, show
from bits import Bits, sym_bits, spread_bits
from rules.common import check_float_domain_guard, check_hash_range_guard, param

HALF_PI = math.pi / 2


def _sub(ctx):
    from framework import Ctx
    return Ctx(ctx.pid, ctx.tier)


def guard_controls(ctx):
    fx = ctx.fixtures()
    sub = _sub(ctx)
    for fn in ("guards::lat_good", "guards::lat_good_if", "guards::lat_bad_debug_only", "guards::lat_bad_one_sided"):
        check_float_domain_guard(sub, fx, fn, "lat", -HALF_PI, HALF_PI, "ctl", key=fn)
    idx = fx.field_index("guards::Lay", "n_hash")
    pred = lambda op, n: op == "lt" and n == ('fld', ('deref', ('p', 'self')), idx)
    for fn in ("guards::Lay::good", "guards::Lay::good_flipped", "guards::Lay::bad"):
        check_hash_range_guard(sub, fx, fn, "hash", pred, "self.n_hash", "ctl", key=fn)
    st = {i["key"]: i["status"] for i in sub.instances}
    want = {"guards::lat_good": "holds", "guards::lat_good_if": "holds", "guards::lat_bad_debug_only": "violated", "guards::lat_bad_one_sided": "violated",
            "guards::Lay::good": "holds", "guards::Lay::good_flipped": "holds", "guards::Lay::bad": "violated"}
    ctx.control("guard-rule-on-fixtures", all(st.get(k) == v for k, v in want.items()), "expected %s, got %s" % (want, st))


def isqrt_controls(ctx):
    from rules import e7
    fx = ctx.fixtures()
    sub = _sub(ctx)
    for fn in ("isqrt::ring_bad", "isqrt::ring_good", "isqrt::ring_small"):
        e7.check_fn(sub, fx, fn, "ctl")
    st = {i["key"].split(":sqrt")[0]: i["status"] for i in sub.instances}
    want = {"isqrt::ring_bad": "violated", "isqrt::ring_good": "holds", "isqrt::ring_small": "holds"}
    ctx.control("sqrt-chain-rule-on-fixtures", all(st.get(k) == v for k, v in want.items()), "expected %s, got %s" % (want, st))


def haversine_controls(ctx):
    from rules import haversine
    fx = ctx.fixtures()
    sub = _sub(ctx)
    haversine.check_all(sub, fx, clause="ctl")
    st = {i["key"].split(":")[0]: i["status"] for i in sub.instances}
    ctx.control("haversine-rule-on-fixtures", st.get("hav_good") == "holds" and st.get("hav_bad") == "violated", "got %s" % st)


def bits_controls(ctx):
    fx = ctx.fixtures()
    res = {}
    for fn in ("zoc::spread_good", "zoc::spread_bad"):
        e = Engine(fx); r = e.run(fn)
        v = Bits(fx, {param("i"): sym_bits('i', 32, 8)}, e.phi_ops).ev(r.ret)
        res[fn] = v == spread_bits(sym_bits('i', 32, 8), 64, 0)
    ctx.control("bit-vector-rule-on-fixtures", res == {"zoc::spread_good": True, "zoc::spread_bad": False}, "got %s" % res)
    # bounded unrolling: a loop with a concrete trip count gives the term of its written-out twin
    res = {}
    for fn in ("zoc::lut_unrolled", "zoc::lut_loop", "zoc::lut_loop_bad"):
        e = Engine(fx, unroll=64); r = e.run(fn)
        v = Bits(fx, {param("i"): sym_bits('i', 32, 8)}, e.phi_ops).ev(r.ret)
        res[fn] = v == spread_bits(sym_bits('i', 32, 8), 64, 0)
    e = Engine(fx); r = e.run("zoc::lut_loop")           # without unrolling the loop is a merge: not decided, never "equal"
    v = Bits(fx, {param("i"): sym_bits('i', 32, 8)}, e.phi_ops).ev(r.ret)
    res["lut_loop(no unroll)"] = v == spread_bits(sym_bits('i', 32, 8), 64, 0)
    ctx.control("bounded-unrolling-on-fixtures", res == {"zoc::lut_unrolled": True, "zoc::lut_loop": True, "zoc::lut_loop_bad": False, "lut_loop(no unroll)": False}, "got %s" % res)


def cancellation_controls(ctx):
    from rules import cancellation
    fx = ctx.fixtures()
    res = {fn: bool(cancellation.scan_function(fx, fn)) for fn in ("shs_half_angle", "shs_one_minus_cos", "polar_radius_half_angle", "polar_radius_one_minus_sin", "ang_dist_atan2", "ang_dist_acos")}
    ctx.control("cancellation-lint-on-fixtures", res == {"shs_half_angle": False, "shs_one_minus_cos": True, "polar_radius_half_angle": False, "polar_radius_one_minus_sin": True, "ang_dist_atan2": False, "ang_dist_acos": True}, "got %s" % res)
