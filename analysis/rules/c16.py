"""C16 — cell-size helpers.  D `best_starting_depth(r)` returns the deepest depth whose tabulated
limit exceeds r, and refuses exactly what `has_best_starting_depth` announces: the function's CFG
is a decision tree; for each leaf the must-facts give the sets A (comparisons r < T[a] that
succeeded) and B (failed); with T strictly decreasing (checked on the initialiser data) the leaf
returning k is right iff max A = k and (min B = k + 1, or B is empty and k = 29); the leaves must
cover 0..=29 exactly once.  N table sanity (ratio of consecutive entries)."""
from sym import Engine, show, walk
from rules.common import cmp_facts, cval, run_fn, param

TABLE = "SMALLER_EDGE2OPEDGE_DIST"
FN = "best_starting_depth"
HAS = "has_best_starting_depth"


def depth0_bound(ctx, crate, clause="depth0-bound-siblings"):
    """the three sibling helpers use one and the same bound for base cells (depth 0), and it is
    the distance from the centre of a polar base cell to the pole, pi/2 - asin(2/3)"""
    import math
    from sym import C
    from rules.common import strip_generics
    want = math.pi / 2 - math.asin(2.0 / 3.0)
    vals = {}
    for fn, args in (("largest_center_to_vertex_distance", [C('u8', 0), None, None]), ("largest_center_to_vertex_distance_with_radius", [C('u8', 0), None, None, None])):
        b = ctx.anchor(crate, fn, clause)
        if b is None: continue
        e = Engine(crate); r = e.run(fn, args); ctx.functions |= e.visited_fns
        vals[fn] = cval(r.ret) if r.returns else None
    fn = "largest_center_to_vertex_distances_with_radius"
    b = ctx.anchor(crate, fn, clause)
    if b is not None:
        e = Engine(crate, opaque={"get_or_create"}); e.run(fn, [C('u8', 0), None, None, None, None]); ctx.functions |= e.visited_fns
        ps = [ev for ev in e.events.values() if ev.callee and strip_generics(ev.callee).endswith("Vec::push") and len(ev.site) == 2 and cval(ev.args[1]) is not None]
        vals[fn] = cval(ps[0].args[1]) if len(ps) == 1 else None
        # and the remaining depths start at 1 after the depth-0 entry
    ok = len(vals) == 3 and all(v is not None and abs(v - want) < 1e-15 for v in vals.values()) and len(set(vals.values())) == 1
    ctx.report(clause, "largest_center_to_vertex_distance*:depth0", ok,
               "all three siblings use %r = pi/2 - asin(2/3) for base cells" % want if ok else "the siblings disagree or differ from pi/2 - asin(2/3) = %r: %s" % (want, vals),
               at=b.span if b else None, kind="N", sample={"depth0_values": vals, "expected": want})


def npc_siblings(ctx, crate, clause="npc-bound-siblings"):
    """the scalar `_with_radius` helper and the multi-depth helper compute the polar-cap bound with
    the same expression of (lon, radius, slope, intercept) — instance confirmed by reading; the
    multi-depth copy is the one the cone recursion uses, the scalar one the small-cone branch"""
    fa = "largest_c2v_dist_in_npc_with_radius"; fb = "largest_center_to_vertex_distances_with_radius"
    ba, bb = ctx.anchor(crate, fa, clause), ctx.anchor(crate, fb, clause)
    if ba is None or bb is None: return
    from rules.common import strip_generics
    slope = crate.field_index("ConstantsC2V", "slope_npc"); inter = crate.field_index("ConstantsC2V", "intercept_npc")
    def norm(t, csts):
        """rename the constants object to a common symbol"""
        if t == csts: return ('sym', ('csts',))
        if isinstance(t, tuple): return tuple(norm(x, csts) if isinstance(x, tuple) else x for x in t)
        return t
    # a helper that turns (|lat|, radius) into what is added to the reduced longitude is kept as an
    # uninterpreted function of its arguments on both sides (same helper, same arguments)
    HW = "cone_lon_half_width"
    models = {HW: (lambda eng, st, args, site: ('call', HW, tuple(args)))} if crate.body(HW) is not None else {}
    # scalar side: the helper as the public scalar function calls it (its arguments substituted)
    fpub = "largest_center_to_vertex_distance_with_radius"
    ea = Engine(crate, opaque={"get_or_create"}, models=models); ea.run(fpub); ctx.functions |= ea.visited_fns
    calls = [ev for ev in ea.events.values() if ev.callee == fa and ev.ret is not None]
    ta = None
    if len(calls) == 1:
        csa = [x for x in walk(calls[0].ret) if x[0] == 'deref' and any(x[1] == ev.ret for ev in ea.events.values() if ev.callee == "get_or_create")]
        ta = norm(calls[0].ret, csa[0]) if csa else None
    eb = Engine(crate, opaque={"get_or_create"}, models=models); eb.run(fb); ctx.functions |= eb.visited_fns
    pushes = [ev for ev in eb.events.values() if ev.callee and strip_generics(ev.callee).endswith("Vec::push") and len(ev.site) == 2]
    goc = {ev.ret for ev in eb.events.values() if ev.callee == "get_or_create"}
    cand = []
    for p in pushes:
        v = p.args[1]
        cs = [x for x in walk(v) if x[0] == 'deref' and x[1] in goc]
        if cs and any(x[0] == 'fld' and x[2] == slope for x in walk(v)):
            cand.append(norm(v, cs[0]))
    # what is added to the reduced longitude must be the half-width IN LONGITUDE of the cone: on the
    # sphere a cone of radius r centred at latitude b reaches asin(sin r / cos b) >= r / cos b > r on each
    # side of its centre, and every longitude when it contains a pole (b + r >= pi/2).  Adding the bare
    # radius makes the bound too small near the poles (cells of the cone lost).  Read at sample points.
    import math
    from rules.common import feval
    added = None
    if ta is not None:
        for x in walk(ta):
            if x[0] == 'call' and x[1].endswith("::min") and len(x[2]) == 2:
                for a_ in x[2]:
                    if a_[0] == 'op' and a_[1] == 'add' and a_[2] == 'f64': added = a_[4] if any(y[0] == 'call' and y[1].endswith("::abs") for y in walk(a_[3])) else a_[3]
    okw = None; whyw = "cannot find the term added to the reduced longitude"
    if added is not None:
        if added[0] == 'call' and added[1] == HW:
            eh = Engine(crate); rh = eh.run(HW)
            pn = crate.body(HW).param_names()
            bad = []
            for b_, r_ in [(0.75, 0.1), (1.0, 0.2), (1.3, 0.2), (1.5, 0.01), (0.9, 0.5), (1.4, 0.3), (1.56, 0.02), (0.3, 1.0)] + [(x, y) for x in (0.0, 0.2, 0.5, 0.75, 1.0, 1.3, 1.5) for y in (1e-3, 0.05, 0.4, 1.2, 1.6, 2.0, 2.5, 3.0, 3.14)]:
                v = feval(rh.ret, {('p', pn[0]): b_, ('p', pn[1]): r_}, eh) if rh.returns else None
                want = math.pi / 4 if b_ + r_ >= math.pi / 2 else math.asin(min(1.0, math.sin(r_) / math.cos(b_)))
                if v is None or (b_ + r_ >= math.pi / 2 and v < math.pi / 4) or (b_ + r_ < math.pi / 2 and v < want - 1e-12): bad.append((b_, r_, v, want))
            okw = not bad and calls[0].args[1] == added
            whyw = "w(|lat|, r) >= asin(sin r / cos lat) (>= pi/4 when the cone contains a pole) at 71 sample points, radii up to pi" if okw else "w(lat = %s, r = %s) = %s, the longitude half-width of that cone is %.6f" % bad[0] if bad else "the helper is not given w"
        else:
            lat_in = any(y[0] == 'p' and 'lat' in y[1] for y in walk(added))
            okw = False if not lat_in else None
            whyw = "the polar-cap bound adds %s to the reduced longitude: the bare radius, not the half-width in longitude of the cone (asin(sin r / cos lat), every longitude when the cone contains a pole) — cells of a cone near a pole are lost" % show(added)[:60] if not lat_in else "cannot read %s" % show(added)[:60]
    ctx.report(clause, "npc-bound:longitude-extent-of-the-cone", okw, whyw, at=ba.span, kind="N")
    ok = ta is not None and len(cand) == 1 and cand[0] == ta
    ctx.report(clause, "npc-bound:scalar==multi-depth", ok,
               "both = slope_npc * min(|pi/4 - |lon| %% pi/2| + w, pi/4) + intercept_npc with the same w(lat, radius): %s" % (show(ta)[:120]) if ok else
               "the polar-cap bound of largest_c2v_dist_in_npc_with_radius (%s) differs from the one pushed by the multi-depth helper (%s)" % (show(ta)[:140] if ta else None, [show(c)[:140] for c in cand]), at=ba.span, kind="N")


def profile_agreement(ctx, clause="both-profiles"):
    """N: with debug assertions ON, no path of the public bound helpers may carry assertions that
    are jointly satisfiable only for a single value of an input-derived quantity (then every
    ordinary input of that path panics in debug builds instead of returning a bound)."""
    from rules.common import float_interval
    crate = ctx.crate("dbg")
    for fn in ("largest_center_to_vertex_distance", "largest_center_to_vertex_distance_with_radius", "largest_center_to_vertex_distances_with_radius"):
        b = ctx.anchor(crate, fn, clause)
        if b is None: continue
        rets = []
        e = Engine(crate, opaque={"get_or_create"})
        def eh(body, s, t, st, fk, fn=fn):
            # every propagated edge of the function and of the helpers analysed in place
            rets.append(("%s:bb%s" % (body.path, s), st.facts))
        e.edge_hook = eh
        e.run(fn); ctx.functions |= e.visited_fns
        bad = []
        for s, facts in rets:
            terms = set()
            for op, a, c, pos in cmp_facts(facts):
                if pos and cval(c) is not None and a[0] != 'c': terms.add(a)
                if pos and cval(a) is not None and c[0] != 'c': terms.add(c)
            for t in terms:
                lo, los, hi, his = float_interval(facts, t)
                if lo > hi or (lo == hi and lo not in (0.0,)) or (lo == hi and (los or his)):
                    if not any(b0[1:] == (show(t)[:60], lo, hi) for b0 in bad): bad.append((s, show(t)[:60], lo, hi))
        ctx.report(clause, fn + ":no-degenerate-debug-domain", bool(rets) and not bad,
                   "%d CFG edges (helpers analysed in place); on none do the debug assertions pin an input-derived value to a single point" % len(rets) if not bad else
                   "after %s the debug assertions require %s in [%r, %r]: every other input taking this path panics in a debug build" % bad[0], at=b.span, kind="N")


def debug_assertions_cover_inputs(ctx, clause="both-profiles"):
    """N: a comparison that only the dev profile establishes (a `debug_assert!`) on a range-reduced
    input must hold for the whole range that input can take: otherwise ordinary calls (a negative
    longitude, say) panic in debug builds while release builds answer.  The range of the asserted
    expression is computed from the ranges of the parameters (lon: any finite value, lat in
    [-pi/2, pi/2], radius in (0, pi]) through + - * / %, abs, min, max."""
    import math
    from rules.common import frange
    for fn in ("largest_center_to_vertex_distance", "largest_center_to_vertex_distance_with_radius", "largest_center_to_vertex_distances_with_radius"):
        facts = {}
        b = None
        for cfg in ("rel", "dbg"):
            crate = ctx.crate(cfg)
            b = ctx.anchor(crate, fn, clause)
            if b is None: break
            acc = []
            e = Engine(crate, opaque={"get_or_create"})
            def eh(body, s_, t_, st, fk, acc=acc):
                if t_ != "return": return               # what holds when a function (or a helper analysed in place) hands back a value
                acc.append(frozenset(f for f in st.facts if f[0] == 'b' and f[1][0] == 'op' and f[1][1] in ('lt', 'le', 'gt', 'ge')))
            e.edge_hook = eh
            e.run(fn); ctx.functions |= e.visited_fns
            facts[cfg] = acc
        if b is None: continue
        env = {('p', 'lon'): (-1e9, 1e9), ('p', 'cone_lon'): (-1e9, 1e9), ('p', 'lat'): (-math.pi / 2, math.pi / 2), ('p', 'cone_lat'): (-math.pi / 2, math.pi / 2),
               ('p', 'radius'): (0.0, math.pi), ('p', 'cone_radius'): (0.0, math.pi)}
        from rules.common import frange_facts
        rel_all = set().union(*facts["rel"]) if facts["rel"] else set()
        bad = []; n = 0; seen = set()
        for path_facts in facts["dbg"]:
            path_rel = {f for f in path_facts if f in rel_all}          # what the release build knows on that path too
            for f in path_facts - rel_all:                               # established by a debug assertion only
                if f in seen: continue
                t, truth = f[1], f[2]
                ps = {x[1] for x in walk(t) if x[0] == 'p'}
                # longitudes only: they are the unbounded input that the helpers reduce themselves; assertions
                # relating abs(lat) and the radius follow from the branch taken (a relation between two
                # inputs, not a range), and their consistency is what the degenerate-domain rule above checks
                if not ps or not all("lon" in p_ for p_ in ps): continue
                a, c = frange_facts(t[3], env, path_rel), frange_facts(t[4], env, path_rel)
                if a is None or c is None: continue
                seen.add(f); n += 1
                op = t[1] if truth else {'lt': 'ge', 'le': 'gt', 'gt': 'le', 'ge': 'lt'}[t[1]]
                tol = 1e-9
                holds = (op in ('lt', 'le') and a[1] <= c[0] + tol) or (op in ('gt', 'ge') and a[0] >= c[1] - tol)
                if not holds: bad.append((show(t)[:90] + (" is %s" % truth), a, c))
        ctx.report(clause, fn + ":debug-assertions-cover-the-inputs", not bad,
                   "%d comparisons established only in the dev profile: each holds on the whole range of its operands" % n if not bad else
                   "the dev profile requires %s, but the left side ranges over [%.4g, %.4g] and the right side over [%.4g, %.4g] for admissible arguments (e.g. a negative longitude: `lon %% HALF_PI` keeps the sign): such calls panic in debug builds" % (bad[0][0], bad[0][1][0], bad[0][1][1], bad[0][2][0], bad[0][2][1]),
                   at=b.span, kind="N", sample={"debug_only_comparisons": n})


def run(ctx):
    crate = ctx.crate("rel")
    s = crate.statics.get(TABLE)
    if s is None:
        ctx.undecided("table", "table:missing", "static %s not found" % TABLE); return
    T = crate.static_table(TABLE)
    dec = all(T[i] > T[i + 1] for i in range(len(T) - 1))
    ctx.report("table", "table:strictly-decreasing", dec and len(T) == 30, "%d entries, strictly decreasing: %s" % (len(T), dec), at=s["span"],
               sample={"table_head": T[:3], "table_tail": T[-2:]})
    ratios = [T[i] / T[i + 1] for i in range(len(T) - 1)]
    ctx.report("table", "table:ratio", all(1.9 < r < 2.3 for r in ratios), "ratio of consecutive limits in [%.4f, %.4f] (cell size halves per depth)" % (min(ratios), max(ratios)), at=s["span"], kind="N")
    # the limit scales as 1/nside with a correction that itself halves with the depth:
    # T[k]/T[k+1] = 2 + e_k, 0 < e_k, e_{k+1} <= 0.6 e_k + 1e-7 (1e-7: the table's own noise).
    # A mistyped entry shows up as a break of that pattern (sensitivity ~ e_k, i.e. 5e-5 at depth 11).
    ex = [r - 2.0 for r in ratios]
    breaks = [k for k in range(len(ex)) if not (ex[k] > -1e-7) or (k > 0 and not (ex[k] <= 0.6 * ex[k - 1] + 1e-7))]
    ctx.report("table", "table:second-order-pattern", not breaks, "T[k]/T[k+1] - 2 is positive and at least halves-ish at each depth (k = 0..28)" if not breaks else
               "the pattern breaks at depth(s) %s: T[%d]/T[%d] = %.9f — an entry near there is inconsistent with its neighbours" % (breaks, breaks[0], breaks[0] + 1, ratios[breaks[0]]), at=s["span"], kind="N")
    # the limit may not exceed the width of the narrowest cell.  Along the borders of the polar-cap base
    # cells (lon = k*pi/2) a cell is, to first order, a parallelogram of area pi/(3 nside^2) whose long
    # side is sqrt((pi^2/4) k2 + (4/9)/k2)/nside with k2 = (2 - sigma^2/3)/3, sigma = sqrt(3(1 - sin lat)):
    # its width decreases from 0.7108/nside on the transition latitude (sigma = 1) to
    # W = (pi/3)/sqrt((2/3)(1 + pi^2/4)) = 0.68877/nside at the pole (sigma = 0).  First order: checked
    # where the cells are small (depth >= 12), with 0.2 % for the finite size.
    import math
    W = (math.pi / 3) / math.sqrt((2.0 / 3.0) * (1 + math.pi ** 2 / 4))
    over = [(d, T[d] * (1 << d)) for d in range(12, len(T)) if T[d] * (1 << d) > W * 1.002]
    for d, v in over:
        ctx.report("table", "table[%d]=%r:narrowest-cell" % (d, T[d]), False,
                   "limit * nside = %.5f at depth %d exceeds the width of the narrowest cells, %.5f (cap borders towards the poles): a cone of that radius can cross a whole cell, so it is not contained in the cell of its centre plus the neighbours" % (v, d, W), at=s["span"], kind="N")
    ctx.report("table", "table:narrowest-cell-bound", not over, "for depth 12..=29, limit * nside <= %.5f * 1.002 (narrowest cell, at the poles along the cap borders); max %.5f" % (W, max(T[d] * (1 << d) for d in range(12, len(T)))) if not over else
               "%d entries exceed the narrowest-cell width" % len(over), at=s["span"], kind="N")
    idx_of = {v: i for i, v in enumerate(T)}
    b = ctx.anchor(crate, FN, "decision-tree")
    if b is None: return
    pname = b.param_names()[0]
    leaves = []
    eng = Engine(crate)
    def vh(v, loc, facts):
        lhs = eng.cur_lhs
        if loc[0] == FN and lhs["l"] == 0 and not lhs["p"]:
            leaves.append((v, facts, loc))
    eng.value_hook = vh
    r = eng.run(FN)
    ctx.functions |= eng.visited_fns
    seen = {}
    for v, facts, loc in leaves:
        if v[0] != 'c':
            ctx.undecided("decision-tree", "%s:leaf@%s" % (FN, loc[2]), "leaf returns a non-constant %s" % show(v), at=loc[2]); continue
        k = v[2]
        A, B, other = set(), set(), []
        for op, a, c, pos in cmp_facts(facts):
            if a == param(pname) and op == "lt" and cval(c) in idx_of:
                (A if pos else B).add(idx_of[cval(c)])
            elif c == param(pname) and op == "gt" and cval(a) in idx_of:
                (A if pos else B).add(idx_of[cval(a)])
            else: other.append((op, show(a), show(c), pos))
        ok = bool(A) and max(A) == k and ((B and min(B) == k + 1) or (not B and k == 29)) and not other
        seen[k] = seen.get(k, 0) + 1
        detail = "leaf returns %d under r < T[%s] and not r < T[%s]" % (k, sorted(A), sorted(B))
        if not ok:
            detail += " — the leaf covers r in [T[%s], T[%s]); there the deepest depth whose limit exceeds r is %s (and the region must be a single table interval), but the leaf returns %d" % (min(B) if B else "-", max(A) if A else "-", (min(B) - 1) if B else 29, k)
        ctx.report("decision-tree", "%s:leaf%d" % (FN, k), ok, detail, at="%s (%s)" % (FN, loc[2]),
                   sample={"returns": k, "succeeded": sorted(A), "failed": sorted(B)} if k in (0, 15, 28, 29) else None)
    missing = [k for k in range(30) if seen.get(k, 0) != 1]
    ctx.report("decision-tree", FN + ":leaves-cover-0..29-once", not missing, "depths not returned by exactly one leaf: %s" % missing, at=b.span)
    ctx.floor("leaves", len(leaves), 30)
    # refusal consistent with has_best_starting_depth
    e2, r2 = run_fn(crate, HAS); ctx.functions |= e2.visited_fns
    bh = ctx.anchor(crate, HAS, "refusal")
    if bh is not None:
        t = r2.ret
        from rules.common import is_cmp
        ok = is_cmp(t, 'lt', param(bh.param_names()[0]), lambda x: cval(x) == T[0])
        ctx.report("refusal", HAS + ":compares-with-T[0]", ok, "has_best_starting_depth(r) = %s" % show(t), at=bh.span)
        entry = [f for f in cmp_facts(r.facts)] if r.returns else []
        ok2 = any(op == "lt" and a == param(pname) and cval(c) == T[0] and pos for op, a, c, pos in entry)
        ctx.report("refusal", FN + ":asserts-r<T[0]", ok2, "every normal return of best_starting_depth has r < T[0] = %r as a succeeded comparison (NaN and larger radii panic)" % T[0], at=b.span)
    depth0_bound(ctx, crate)
    npc_siblings(ctx, crate)
    profile_agreement(ctx)
    debug_assertions_cover_inputs(ctx)
    from rules import c16_bounds
    c16_bounds.run(ctx, crate)
    ctx.not_decided("that the tabulated limits and the linear/parabolic envelopes of ConstantsC2V are upper bounds of real cell sizes (spherical trigonometry); largest_center_to_vertex_distance*")
    from rules import controls as _controls
    _controls.feval_controls(ctx)
