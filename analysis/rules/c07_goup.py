"""C07/C08 — `dd_4_go_up`, the step of `not` (and of the builders' complement fill) that says how many
levels to climb between two consecutive cells: finite table against the definition.

The function's result is extracted once as a term over (d, h, next_d, next_h) (two gated merges, a
shift, a xor, leading_zeros, min); the term is then READ (not run: rules.common.feval) at every pair
of disjoint cells A = (d, h) before B = (next_d, next_h) of depths 0..=1 (quick) or 0..=2 (thorough), plus the first / last
cells of every base cell one depth further, and compared with the definition:
   the smallest k such that the ancestors of A and B at depth d - k are the same cell or siblings
   (share their parent; at depth 0 every pair of base cells counts as siblings, so k <= d).
A wrong k makes `not` skip or duplicate the cells between A and B (or underflow the depth)."""
from sym import Engine, show
from rules.common import feval, param

FN = "nested::bmoc::dd_4_go_up"


def spec(d, h, nd, nh):
    def anc(depth, hh, e):          # ancestor at depth e <= depth
        return hh >> (2 * (depth - e))
    for k in range(d + 1):
        e = d - k
        if e == 0: return k
        if e - 1 <= nd and anc(d, h, e - 1) == anc(nd, nh, e - 1): return k
    return d


def cells(depth, full):
    n = 12 << (2 * depth)
    if full: return list(range(n))
    per = 1 << (2 * depth)
    out = set()
    for b in range(12):
        for off in (0, 1, 2, 3, per // 4 - 1, per // 4, per // 2, per - 4, per - 2, per - 1):
            out.add(b * per + off)
    return sorted(out)


def run(ctx, crate, clause="complement-fill"):
    b = ctx.anchor(crate, FN, clause)
    if b is None: return 0
    pn = b.param_names()
    if pn != ["d", "h", "next_d", "next_h"]:
        ctx.undecided(clause, FN + ":table", "parameters %s, expected (d, h, next_d, next_h)" % pn, at=b.span); return 0
    e = Engine(crate); r = e.run(FN)
    ctx.functions |= e.visited_fns
    if not r.returns:
        ctx.undecided(clause, FN + ":table", "no value", at=b.span); return 0
    D = 2 if ctx.tier == "thorough" else 1
    bad = []; n = 0; undec = None
    for d in range(D + 2):
        A = cells(d, d <= D)
        for nd in range(D + 2):
            B = cells(nd, nd <= D)
            m = max(d, nd)
            for h in A:
                a_end = (h + 1) << (2 * (m - d))
                for nh in B:
                    if (nh << (2 * (m - nd))) < a_end: continue          # B starts after A ends (disjoint, in BMOC order)
                    got = feval(r.ret, {param("d"): d, param("h"): h, param("next_d"): nd, param("next_h"): nh}, e)
                    n += 1
                    if got is None:
                        undec = (d, h, nd, nh); break
                    exp = spec(d, h, nd, nh)
                    if got != exp and len(bad) < 5: bad.append(((d, h), (nd, nh), got, exp))
                if undec: break
            if undec: break
        if undec: break
    if undec:
        ctx.undecided(clause, FN + ":table", "the extracted result %s cannot be read at %s" % (show(r.ret)[:120], undec), at=b.span); return 0
    ctx.report(clause, FN + ":levels-to-climb==definition", not bad and n >= (60000 if D == 2 else 10000),
               "%d pairs of consecutive disjoint cells (depths 0..=%d exhaustive, depth %d on the borders of the base cells): the number of levels to climb is the smallest one at which the two ancestors share their parent, capped at depth 0" % (n, D, D + 1) if not bad else
               "cell %s followed by %s: climbs %s level(s), the definition gives %s (first of %d)" % (bad[0][0], bad[0][1], bad[0][2], bad[0][3], len(bad)),
               at=b.span, kind="N", sample={"pairs": n, "mismatches": [str(x) for x in bad]})
    return 1
