"""C11 — the layout arithmetic of `ring::hash_with_dldh` (any nside, not only powers of two), E6'.

After the projection and the 1x1-box adjustment the routine holds two integers: R (ring counted
from the south, in the grid of the projection plane) and I (position in that grid row, 0..4n).
What it returns is decided by integer arithmetic alone, in three regions selected by the ring index
r (0-based from the north pole):

  north cap   r < n        hash = 2 r (r+1)            + (I - g(off, I div n)),  off = n - 1 - r
  equatorial               hash = 2n(n+1) + (r-n) 4n   + (I, or 0 when I = 4n)
  south cap   r >= 3n      hash = 12 n^2 - 2 s (s+1)   + (I - g(off, I div n)),  off = r + 1 - 3n,  s = 4n - 1 - r

"first index of ring r = number of cells of the rings before it" fixes the first summand (4(r+1)
cells in polar ring r, 4n in equatorial rings); the in-ring correction g must be the SAME function
of (off, quadrant) in the two caps — the south cap is the mirror image of the north cap.  Both are
decided as identities of integer expressions with floor divisions (`>> 1`, `& 1`), by residue
classes of (n, off) (floorpoly.py): exact for every nside, odd ones included, which no test of the
suite visits (they use nside = 1 and powers of two).

Not decided here: that g is the right function (only that the caps agree, and — below — that it
vanishes on the transition ring), the float part (projection, box), wrap-around of u64.
"""
from sym import Engine, show, C, walk
from poly import Poly
from rules.common import cmp_facts
import floorpoly

FN = "ring::hash_with_dldh"
BOX = "ring::deal_with_1x1_box"


def run(ctx, crate):
    clause = "ring-hash-layout"
    b = ctx.anchor(crate, FN, clause)
    if b is None: return
    opq = {BOX, "proj", "ensures_x_is_positive"}
    e0 = Engine(crate, opaque=opq); r0 = e0.run(FN); ctx.functions |= e0.visited_fns
    box = [ev for ev in e0.events.values() if ev.callee == BOX]
    if len(box) != 1 or not r0.returns:
        ctx.undecided(clause, FN + ":shape", "expected one call of deal_with_1x1_box, found %d" % len(box), at=b.span); return
    site = box[0].site
    muts = [i for i in range(len(box[0].args)) if any(x == ('sym', ('havoc', site, i)) for x in _all_terms(e0))]
    if len(muts) != 2:
        ctx.undecided(clause, FN + ":shape", "deal_with_1x1_box is expected to adjust two integers in place (found %s)" % muts, at=b.span); return
    nside = ('p', b.param_names()[0])
    n = Poly.var("n"); Rv = Poly.var("R")
    role = {}; R = I = None
    for cand in (0, 1):
        R, I = ('sym', ('havoc', site, muts[cand])), ('sym', ('havoc', site, muts[1 - cand]))
        def lin(t):
            try:
                return floorpoly.ev(t, {R: Poly.var("R"), nside: Poly.var("n")}, {})
            except Exception:
                return None
        # the region tests: non-constant comparisons of the function itself between integer expressions of (R, n)
        role = {}; tests = []
        for t, loc in e0.branches:
            if loc[0] != FN or t[0] != 'op' or t[1] not in ('lt', 'ge', 'gt', 'le'): continue
            pa, pb = lin(t[3]), lin(t[4])
            if pa is None or pb is None: continue
            if any(v not in ("R", "n") for mono in list(pa.d) + list(pb.d) for v, _ in mono): continue
            tests.append(t)
            op = t[1]
            if op in ('gt', 'le'): pa, pb, op = pb, pa, {'gt': 'lt', 'le': 'ge'}[op]
            d = pa - pb
            # pole: R >= 5n.   r = 5n - 1 - R:   r < n  <=>  4n - 1 - R < 0;   r >= 3n  <=>  2n - 1 - R >= 0
            if d == Rv - Poly.const(5) * n: role["pole"] = (t, op == 'ge')
            elif d == Poly.const(4) * n - Poly.const(1) - Rv: role["npc"] = (t, op == 'lt')
            elif d == Poly.const(2) * n - Poly.const(1) - Rv: role["spc"] = (t, op == 'ge')
        if set(role) == {"pole", "npc", "spc"}: break
    if set(role) != {"pole", "npc", "spc"}:
        ctx.undecided(clause, FN + ":region-tests", "cannot identify the pole / north-cap / south-cap tests (R >= 5n, r < n, r >= 3n with r = 5n - 1 - R) among %s" % [show(t)[:60] for t in tests], at=b.span); return
    ATOMS = {}
    def is_int_cmp(t):
        from sym import term_ty
        from mir import INT_TYS
        return t[0] == 'op' and t[1] in ('lt', 'ge', 'gt', 'le', 'eq', 'ne') and (term_ty(t[3]) in INT_TYS or term_ty(t[4]) in INT_TYS)
    def is_wrap(t):
        """I == 4n (x = 8 <=> x = 0), in any form"""
        if t[1] not in ('eq', 'ne'): return False
        try:
            d = floorpoly.ev(t[3], {I: Poly.var("I"), nside: Poly.var("n")}, {}) - floorpoly.ev(t[4], {I: Poly.var("I"), nside: Poly.var("n")}, {})
        except Exception:
            return False
        w = Poly.var("I") - Poly.const(4) * Poly.var("n")
        return d == w or d == Poly.const(0) - w
    def forced(wrap=False, **kw):
        """every way through the integer tests of the routine that are not the region tests (the
        wrap of I = 4n is set as asked; the others — a gap-box step, if the code has one — are
        explored both ways).  Returns [(engine, value)]."""
        base = {}
        for k, v in kw.items():
            t, pos = role[k]
            base[t] = C('bool', 1 if (v == pos) else 0)
        leaves = []
        def go(sub, depth):
            e = Engine(crate, opaque=opq); e.subst = dict(sub)
            r = e.run(FN)
            nxt = None
            for t, loc in e.branches:
                if t in sub or not is_int_cmp(t): continue
                nxt = t; break
            if nxt is None or depth >= 5:
                leaves.append((e, r.ret if r.returns else None)); return
            if is_wrap(nxt):
                s2 = dict(sub); s2[nxt] = C('bool', 1 if ((nxt[1] == 'eq') == wrap) else 0); go(s2, depth + 1); return
            for v in (0, 1):
                s2 = dict(sub); s2[nxt] = C('bool', v); go(s2, depth + 1)
        go(base, 0)
        return leaves
    r_poly = lambda base: Poly.const(5) * base["n"] - Poly.const(1)      # r = 5n - 1 - R, as a function of the base unknowns below
    results = {}
    # ---- first index of the ring, per region -------------------------------------------------
    # unknowns (n, off) resp. (n, r): R is expressed through them by the definition of r
    def check_region(name, kw, R_of, first, wrap=False):
        """the leaf of the region on which hash - first_index(ring) - I is a function of (off, quadrant) alone"""
        cands = []
        why = "no value in that region"
        for e, ret in forced(wrap=wrap, **kw):
            if ret is None or ret[0] != 'agg': continue
            h = ret[3][0]
            unknowns = ["n", "o"]
            def env(base):
                return {nside: base["n"], R: R_of(base), I: Poly.var("I")}
            res = floorpoly.poly_on_classes(h, unknowns, env, atoms=ATOMS)
            if res is None:
                why = "hash is not an integer expression with constant divisors: %s" % show(h)[:120]; continue
            m, classes = res
            rest = {rho: p - first(base) - (Poly.const(0) if wrap else Poly.var("I")) for rho, (p, base) in classes.items()}
            clean = not any(v in ("n", "I", "R") for p in rest.values() for mono in p.d for v, _ in mono)
            cands.append((clean, e, h, m, classes, env, rest))
        good = [c for c in cands if c[0]]
        if len(good) == 1: return good[0][1:]
        if not cands:
            ctx.report(clause, FN + ":%s:first-index" % name, None, why, at=b.span); return None
        if len(good) > 1:
            # several ways through the extra tests give a clean form: they must agree
            if all(g[6] == good[0][6] for g in good): return good[0][1:]
        c = cands[0]
        return c[1:]
    two = Poly.const(2)
    def first_n(bs):
        r = bs["n"] - Poly.const(1) - bs["o"]; return two * r * (r + Poly.const(1))
    def first_s(bs):
        r = bs["o"] - Poly.const(1) + Poly.const(3) * bs["n"]; s_ = Poly.const(4) * bs["n"] - Poly.const(1) - r
        return Poly.const(12) * bs["n"] * bs["n"] - two * s_ * (s_ + Poly.const(1))
    def first_e(bs):
        return two * bs["n"] * (bs["n"] + Poly.const(1)) + bs["o"] * Poly.const(4) * bs["n"]
    out = {}
    # north: off = o in [0, n): r = n - 1 - o, R = 5n - 1 - r = 4n + o
    out["north"] = check_region("north-cap", dict(pole=False, npc=True), lambda bs: Poly.const(4) * bs["n"] + bs["o"], first_n)
    # south: off = o: r = o - 1 + 3n, R = 2n - o
    out["south"] = check_region("south-cap", dict(pole=False, npc=False, spc=True), lambda bs: Poly.const(2) * bs["n"] - bs["o"], first_s)
    # equatorial: r = n + o, R = 4n - 1 - o; once with I != 4n, once with I = 4n
    out["eq"] = check_region("equatorial", dict(pole=False, npc=False, spc=False), lambda bs: Poly.const(4) * bs["n"] - Poly.const(1) - bs["o"], first_e)
    out["eqw"] = check_region("equatorial(I=4n)", dict(pole=False, npc=False, spc=False), lambda bs: Poly.const(4) * bs["n"] - Poly.const(1) - bs["o"], first_e, wrap=True)
    if any(v is None for v in out.values()): return
    def minus_g(which, first):
        e, h, m, classes, env, rest = out[which]
        return m, rest
    mN, gN = minus_g("north", first_n); mS, gS = minus_g("south", first_s)
    # g must not depend on n beyond the quadrant atom, and must agree between the caps
    def free_of_I_and_n(p):
        return True
    bad = []
    if mN != mS: bad.append(("moduli differ", mN, mS))
    else:
        for rho in gN:
            if gN[rho] != gS[rho]: bad.append((dict(zip(("n", "o"), rho)), repr(gN[rho]), repr(gS[rho])))
    # g is a function of (off, quadrant) only: the number of grid positions missing west of the
    # cell in its row does not depend on nside or on I beyond the quadrant
    dep = [(rho, repr(p)) for rho, p in gN.items() if any(v in ("n", "I") for mono in p.d for v, _ in mono)]
    ctx.report(clause, FN + ":correction-depends-on-off-and-quadrant-only", not dep,
               "g mentions neither n nor I (beyond I div n) on any residue class" if not dep else "with the first index of ring r taken as 2r(r+1), what is subtracted from I still depends on n or I: %s" % dep[:2], at=b.span, kind="N")
    if bad and isinstance(bad[0][0], dict):
        why = "the in-ring correction of the two polar caps differs (first index of the ring taken as 2r(r+1) resp. 12n^2 - 2s(s+1)): for (n, off) = %s mod %d: north -g = %s, south -g = %s" % (bad[0][0], mN, bad[0][1], bad[0][2])
    elif bad: why = str(bad[0])
    else: why = "north cap: hash = 2r(r+1) + I - g, south cap: hash = 12n^2 - 2s(s+1) + I - g with the SAME g(off, I div n) on all %d residue classes of (n, off) mod %d" % (len(gN), mN)
    ctx.report(clause, FN + ":caps-mirror", not bad, why, at=b.span, kind="N", sample={"classes": len(gN), "modulus": mN, "minus_g": {str(k): repr(v) for k, v in list(gN.items())[:4]}})
    # g = ceil(off / 2) + off * quadrant on the transition ring off = 0 must vanish: hash = first index + I
    zero_bad = []
    for rho, p in gN.items():
        if rho[1] % mN == 0:
            # o = m k: set k_o = 0
            q = p.subst({"o": Poly.const(0)})
            if not q.is_const(0): zero_bad.append((rho, repr(q)))
    ctx.report(clause, FN + ":no-shift-on-transition-ring", not zero_bad, "for off = 0 (ring n-1, which has 4n cells) the position in the ring is I itself" if not zero_bad else "off = 0 still shifts: %s" % zero_bad[:2], at=b.span, kind="N")
    # equatorial: hash - (2n(n+1) + (r - n) 4n) is I, and 0 exactly when I = 4n
    restE = out["eq"][5]; restW = out["eqw"][5]
    def single_merge(rest, e):
        """rest is one opaque atom standing for the merge `if I == 4n {0} else {I}` (the test was not forced because the code keeps it as a value merge)"""
        return None
    eq_bad = [(rho, repr(p)) for rho, p in restE.items() if not p.is_const(0)]
    eqw_bad = [(rho, repr(p)) for rho, p in restW.items() if not p.is_const(0)]
    ctx.report(clause, FN + ":equatorial", not eq_bad and not eqw_bad,
               "equatorial ring r = n + k starts at 2n(n+1) + 4n k on every residue class; position = I, wrapped to 0 exactly at I = 4n" if (not eq_bad and not eqw_bad) else
               "equatorial region: hash - (2n(n+1) + 4n(r - n)) is not I (%s), or not 0 when I = 4n (%s)" % (eq_bad[:1], eqw_bad[:1]), at=b.span, kind="N")


def model_cell(n, R, I):
    """the cell the box (R, I) left by deal_with_1x1_box stands for; None for boxes no position of
    the sphere can fall in (inside the gaps between two polar base cells, away from their edges).
    R counts the rows of the projection-plane grid from the south, I the position in the row."""
    I %= 4 * n
    if R >= 5 * n: return I // n                       # north pole
    r = 5 * n - 1 - R                                  # ring, 0-based from the north
    def first_index(r):
        if r < n: return 2 * r * (r + 1)
        if r < 3 * n: return 2 * n * (n + 1) + (r - n) * 4 * n
        s_ = 4 * n - 1 - r
        return 12 * n * n - 2 * s_ * (s_ + 1)
    if n <= r < 3 * n: return first_index(r) + I
    north = r < n
    off = n - 1 - r if north else r + 1 - 3 * n
    if off > n: return None
    c = n - off; first = (off + 1) // 2; q, k = divmod(I, n)
    if first <= k < first + c: return first_index(r) + q * c + (k - first)
    # gap boxes: only the two that touch the base cell can hold a position (on its outer edge, or
    # put just outside by a rounding); it belongs to the neighbour of the box on the equator side
    r2 = r + 1 if north else r - 1
    c2 = c + 1
    if k == first - 1: return first_index(r2) + q * c2
    if k == first + c: return first_index(r2) + q * c2 + c
    return None


def table(ctx, crate, cfg, nsides):
    """N: for small nside, every box (R, I) the 1x1-box step can leave — the boxes in the gaps next
    to the outer edges of the polar base cells and the rows of the poles included — gives the cell
    of the model, and none panics (dev profile: an integer overflow is a panic).  Finite case split;
    each case folds to a constant."""
    clause = "ring-hash-boxes"
    b = ctx.anchor(crate, FN, clause)
    if b is None: return
    opq = {BOX, "proj", "ensures_x_is_positive"}
    e0 = Engine(crate, opaque=opq); r0 = e0.run(FN, [C('u32', 2), None, None])
    box = [ev for ev in e0.events.values() if ev.callee == BOX]
    if len(box) != 1:
        ctx.undecided(clause, "%s:boxes[%s]" % (FN, cfg), "expected one call of deal_with_1x1_box", at=b.span); return
    site = box[0].site
    # which mutable argument is the row, which the position: the position is compared with 4n / divided by n
    cand = [i for i in range(len(box[0].args)) if box[0].args[i][0] in ('ref', 'ref_t')]
    if len(cand) != 2:
        ctx.undecided(clause, "%s:boxes[%s]" % (FN, cfg), "deal_with_1x1_box is expected to adjust two integers in place", at=b.span); return
    bad = []; n_cases = 0; order = None
    for a, c_ in ((cand[0], cand[1]), (cand[1], cand[0])):
        Rs, Is = ('sym', ('havoc', site, a)), ('sym', ('havoc', site, c_))
        # probe: equatorial box of nside 2, (R, I) = (5, 3) -> r = 4, cell 12 + 2*8 + 3 = 31
        e = Engine(crate, opaque=opq); e.subst = {Rs: C('u64', 5), Is: C('u64', 3)}
        r = e.run(FN, [C('u32', 2), None, None])
        if r.returns and r.ret[0] == 'agg' and r.ret[3][0] == C('u64', 31): order = (Rs, Is); break
    if order is None:
        ctx.undecided(clause, "%s:boxes[%s]" % (FN, cfg), "cannot tell the row from the position among the integers adjusted by deal_with_1x1_box", at=b.span); return
    Rs, Is = order
    for n in nsides:
        for R in range(n, 5 * n + 2):
            for I in range(0, 4 * n + 1):
                want = model_cell(n, R, I)
                if want is None: continue
                e = Engine(crate, opaque=opq); e.subst = {Rs: C('u64', R), Is: C('u64', I)}
                r = e.run(FN, [C('u32', n), None, None])
                n_cases += 1
                if not r.returns: bad.append((n, R, I, "panics", want)); continue
                h = r.ret[3][0] if r.ret[0] == 'agg' else r.ret
                if h[0] == 'phi':
                    ops = e.phi_ops.get(h, set())
                    if len(ops) == 1: h = next(iter(ops))
                if h[0] != 'c': bad.append((n, R, I, "not a constant: %s" % show(h)[:40], want)); continue
                if h[2] != want: bad.append((n, R, I, h[2], want))
    ctx.functions |= e0.visited_fns
    ctx.report(clause, "%s:boxes[%s]" % (FN, cfg), not bad and n_cases >= 100,
               "nside %s: %d boxes (row, position), incl. the gap boxes touching the polar base cells (positions with lon = k*pi/2) and the pole rows: the cell number is the model's, no case panics" % (list(nsides), n_cases) if not bad else
               "%d of %d boxes wrong, e.g. nside %d, row %d (from the south), position %d: code gives %s, the model %s%s" % (len(bad), n_cases, bad[0][0], bad[0][1], bad[0][2], bad[0][3], bad[0][4],
                   " — a position on the outer edge of a polar base cell (lon = k*pi/2) falls in the box next to the base cell, which the index correction does not handle"),
               at=b.span, kind="N", sample={"cases": n_cases, "profile": cfg, "mismatches": [list(map(str, x)) for x in bad[:5]]})


def _all_terms(e):
    for ev in e.events.values():
        for a in ev.args:
            for x in walk(a): yield x
    for t, loc in e.branches:
        for x in walk(t): yield x
