"""C11 — the layout arithmetic of `ring::hash_with_dldh` (any nside, not only powers of two), E6'.

After the projection and the 1x1-box adjustment the routine holds two integers: R (ring counted
from the south, in the grid of the projection plane) and I (position in that grid row, 0..4n).
What it returns is decided by integer arithmetic alone, in three regions selected by the ring index
r (0-based from the north pole):

  north cap   r < n        hash = 2 r (r+1)            + (I - g(off, I div n)),  off = n - 1 - r
  equatorial               hash = 2n(n+1) + (r-n) 4n   + (I, or 0 when I = 4n)
  south cap   r >= 3n      hash = 12 n^2 - 2 s (s+1)   + (I - g(off, I div n)),  off = r + 1 - 3n,  s = 4n - 1 - r

"first index of ring r = number of cells of the rings before it" fixes the first summand (4(r+1)
cells in polar ring r, 4n in equatorial rings); the in-ring correction g must be the SAME function
of (off, quadrant) in the two caps — the south cap is the mirror image of the north cap.  Both are
decided as identities of integer expressions with floor divisions (`>> 1`, `& 1`), by residue
classes of (n, off) (floorpoly.py): exact for every nside, odd ones included, which no test of the
suite visits (they use nside = 1 and powers of two).

Not decided here: that g is the right function (only that the caps agree, and — below — that it
vanishes on the transition ring), the float part (projection, box), wrap-around of u64.
"""
from sym import Engine, show, C, walk
from poly import Poly
from rules.common import cmp_facts
import floorpoly

FN = "ring::hash_with_dldh"
BOX = "ring::deal_with_1x1_box"


def run(ctx, crate):
    clause = "ring-hash-layout"
    b = ctx.anchor(crate, FN, clause)
    if b is None: return
    opq = {BOX, "proj", "ensures_x_is_positive"}
    e0 = Engine(crate, opaque=opq); r0 = e0.run(FN); ctx.functions |= e0.visited_fns
    box = [ev for ev in e0.events.values() if ev.callee == BOX]
    if len(box) != 1 or not r0.returns:
        ctx.undecided(clause, FN + ":shape", "expected one call of deal_with_1x1_box, found %d" % len(box), at=b.span); return
    site = box[0].site
    muts = [i for i in range(len(box[0].args)) if any(x == ('sym', ('havoc', site, i)) for x in _all_terms(e0))]
    if len(muts) != 2:
        ctx.undecided(clause, FN + ":shape", "deal_with_1x1_box is expected to adjust two integers in place (found %s)" % muts, at=b.span); return
    nside = ('p', b.param_names()[0])
    n = Poly.var("n"); Rv = Poly.var("R")
    role = {}; R = I = None
    for cand in (0, 1):
        R, I = ('sym', ('havoc', site, muts[cand])), ('sym', ('havoc', site, muts[1 - cand]))
        def lin(t):
            try:
                return floorpoly.ev(t, {R: Poly.var("R"), nside: Poly.var("n")}, {})
            except Exception:
                return None
        # the region tests: non-constant comparisons of the function itself between integer expressions of (R, n)
        role = {}; tests = []
        for t, loc in e0.branches:
            if loc[0] != FN or t[0] != 'op' or t[1] not in ('lt', 'ge', 'gt', 'le'): continue
            pa, pb = lin(t[3]), lin(t[4])
            if pa is None or pb is None: continue
            if any(v not in ("R", "n") for mono in list(pa.d) + list(pb.d) for v, _ in mono): continue
            tests.append(t)
            op = t[1]
            if op in ('gt', 'le'): pa, pb, op = pb, pa, {'gt': 'lt', 'le': 'ge'}[op]
            d = pa - pb
            # pole: R >= 5n.   r = 5n - 1 - R:   r < n  <=>  4n - 1 - R < 0;   r >= 3n  <=>  2n - 1 - R >= 0
            if d == Rv - Poly.const(5) * n: role["pole"] = (t, op == 'ge')
            elif d == Poly.const(4) * n - Poly.const(1) - Rv: role["npc"] = (t, op == 'lt')
            elif d == Poly.const(2) * n - Poly.const(1) - Rv: role["spc"] = (t, op == 'ge')
        if set(role) == {"pole", "npc", "spc"}: break
    if set(role) != {"pole", "npc", "spc"}:
        ctx.undecided(clause, FN + ":region-tests", "cannot identify the pole / north-cap / south-cap tests (R >= 5n, r < n, r >= 3n with r = 5n - 1 - R) among %s" % [show(t)[:60] for t in tests], at=b.span); return
    ATOMS = {}
    def forced(**kw):
        sub = {}
        for k, v in kw.items():
            t, pos = role[k]
            sub[t] = C('bool', 1 if (v == pos) else 0)
        e = Engine(crate, opaque=opq); e.subst = sub
        r = e.run(FN)
        return e, (r.ret if r.returns else None)
    r_poly = lambda base: Poly.const(5) * base["n"] - Poly.const(1)      # r = 5n - 1 - R, as a function of the base unknowns below
    results = {}
    # ---- first index of the ring, per region -------------------------------------------------
    # unknowns (n, off) resp. (n, r): R is expressed through them by the definition of r
    def check_region(name, kw, R_of, want_first, inring):
        e, ret = forced(**kw)
        if ret is None or ret[0] != 'agg':
            ctx.report(clause, FN + ":%s:first-index" % name, None, "no value in that region", at=b.span); return None
        h = ret[3][0]
        unknowns = ["n", "o"]
        def env(base):
            return {nside: base["n"], R: R_of(base), I: Poly.var("I")}
        res = floorpoly.poly_on_classes(h, unknowns, env, atoms=ATOMS)
        if res is None:
            ctx.report(clause, FN + ":%s:first-index" % name, None, "hash is not an integer expression with constant divisors: %s" % show(h)[:120], at=b.span); return None
        m, classes = res
        return e, h, m, classes, env
    out = {}
    # north: off = o in [0, n): r = n - 1 - o, R = 5n - 1 - r = 4n + o
    out["north"] = check_region("north-cap", dict(pole=False, npc=True), lambda bs: Poly.const(4) * bs["n"] + bs["o"], None, None)
    # south: off = o: r = o - 1 + 3n, R = 2n - o
    out["south"] = check_region("south-cap", dict(pole=False, npc=False, spc=True), lambda bs: Poly.const(2) * bs["n"] - bs["o"], None, None)
    # equatorial: r = n + o, R = 4n - 1 - o
    out["eq"] = check_region("equatorial", dict(pole=False, npc=False, spc=False), lambda bs: Poly.const(4) * bs["n"] - Poly.const(1) - bs["o"], None, None)
    if any(v is None for v in out.values()): return
    # in the caps: hash - first(r) - I  =: -g  must be the same function of (o, atoms) north and south
    def minus_g(which, first):
        e, h, m, classes, env = out[which]
        res = {}
        for rho, (p, base) in classes.items():
            res[rho] = p - first(base) - Poly.var("I")
        return m, res
    two = Poly.const(2)
    def first_n(bs):
        r = bs["n"] - Poly.const(1) - bs["o"]; return two * r * (r + Poly.const(1))
    def first_s(bs):
        r = bs["o"] - Poly.const(1) + Poly.const(3) * bs["n"]; s = Poly.const(4) * bs["n"] - Poly.const(1) - r
        return Poly.const(12) * bs["n"] * bs["n"] - two * s * (s + Poly.const(1))
    mN, gN = minus_g("north", first_n); mS, gS = minus_g("south", first_s)
    # g must not depend on n beyond the quadrant atom, and must agree between the caps
    def free_of_I_and_n(p):
        return True
    bad = []
    if mN != mS: bad.append(("moduli differ", mN, mS))
    else:
        for rho in gN:
            if gN[rho] != gS[rho]: bad.append((dict(zip(("n", "o"), rho)), repr(gN[rho]), repr(gS[rho])))
    # g is a function of (off, quadrant) only: the number of grid positions missing west of the
    # cell in its row does not depend on nside or on I beyond the quadrant
    dep = [(rho, repr(p)) for rho, p in gN.items() if any(v in ("n", "I") for mono in p.d for v, _ in mono)]
    ctx.report(clause, FN + ":correction-depends-on-off-and-quadrant-only", not dep,
               "g mentions neither n nor I (beyond I div n) on any residue class" if not dep else "with the first index of ring r taken as 2r(r+1), what is subtracted from I still depends on n or I: %s" % dep[:2], at=b.span, kind="N")
    if bad and isinstance(bad[0][0], dict):
        why = "the in-ring correction of the two polar caps differs (first index of the ring taken as 2r(r+1) resp. 12n^2 - 2s(s+1)): for (n, off) = %s mod %d: north -g = %s, south -g = %s" % (bad[0][0], mN, bad[0][1], bad[0][2])
    elif bad: why = str(bad[0])
    else: why = "north cap: hash = 2r(r+1) + I - g, south cap: hash = 12n^2 - 2s(s+1) + I - g with the SAME g(off, I div n) on all %d residue classes of (n, off) mod %d" % (len(gN), mN)
    ctx.report(clause, FN + ":caps-mirror", not bad, why, at=b.span, kind="N", sample={"classes": len(gN), "modulus": mN, "minus_g": {str(k): repr(v) for k, v in list(gN.items())[:4]}})
    # g = ceil(off / 2) + off * quadrant on the transition ring off = 0 must vanish: hash = first index + I
    zero_bad = []
    for rho, p in gN.items():
        if rho[1] % mN == 0:
            # o = m k: set k_o = 0
            q = p.subst({"o": Poly.const(0)})
            if not q.is_const(0): zero_bad.append((rho, repr(q)))
    ctx.report(clause, FN + ":no-shift-on-transition-ring", not zero_bad, "for off = 0 (ring n-1, which has 4n cells) the position in the ring is I itself" if not zero_bad else "off = 0 still shifts: %s" % zero_bad[:2], at=b.span, kind="N")
    # equatorial: hash - (2n(n+1) + (r - n) 4n) is I or 0 (merge): check through the two alternatives
    e, h, m, classes, env = out["eq"]
    eq_bad = []
    for rho, (p, base) in classes.items():
        first = two * base["n"] * (base["n"] + Poly.const(1)) + base["o"] * Poly.const(4) * base["n"]
        rest = p - first
        # rest must be a single atom / merge standing for `if I == 4n {0} else {I}`: it may not mention n, o, R
        if any(v in ("n", "o") for mono in rest.d for v, _ in mono): eq_bad.append((rho, repr(rest)))
    # and the merge is {0, I} gated by I == 4n
    inring = None
    if h[0] == 'op' and h[1] == 'add':
        inring = [x for x in (h[3], h[4]) if x[0] == 'phi']
    ok_merge = False
    if inring:
        ops = e.phi_ops.get(inring[0], set()); gate = e.phi_gate.get(inring[0])
        ok_merge = ops == {C('u64', 0), I} and gate is not None and gate[0][0] == 'op' and gate[0][1] in ('eq', 'ne')
        if ok_merge:
            g = gate[0]
            other = g[4] if g[3] == I else (g[3] if g[4] == I else None)
            try:
                ok_merge = other is not None and floorpoly.ev(other, {nside: Poly.var("n")}, {}) == Poly.const(4) * Poly.var("n")
            except Exception:
                ok_merge = False
            if ok_merge:
                zero_when = gate[1] if g[1] == 'eq' else gate[2]
                ok_merge = zero_when == C('u64', 0)
    ctx.report(clause, FN + ":equatorial", not eq_bad and ok_merge,
               "equatorial ring r = n + k starts at 2n(n+1) + 4n k on every residue class; position = I, wrapped to 0 exactly at I = 4n" if (not eq_bad and ok_merge) else
               "equatorial region: first index differs (%s) or the wrap of I = 4n is not `if I == 4n {0} else {I}` (%s)" % (eq_bad[:1], show(inring[0]) if inring else show(h)[:80]), at=b.span, kind="N")


def _all_terms(e):
    for ev in e.events.values():
        for a in ev.args:
            for x in walk(a): yield x
    for t, loc in e.branches:
        for x in walk(t): yield x
