"""C03 — "the four vertices are the same whichever accessor returns them" (E6) and the base-cell
centre table vs. the topology model (E4).

vertices(h)[k] and vertex_lonlat(x, y, dir) (used by vertex() and vertices_map()) are reduced to
unproj(x + a*o, y + b*o) with (x, y) the projected centre and o = 1/nside; the polynomial offsets
(a, b) must be S (0,-1), E (1,0), N (0,1), W (-1,0) in both, the array position must be the
Cardinal's index, and the wrap `ensures_x_is_positive` must be present wherever a = -1."""
from fractions import Fraction
from sym import Engine, show, C, State, walk
from poly import Poly, to_poly
from rules.common import param, strip_generics
from topology import base_centre

L = "nested::Layer::"
CARD = "compass_point::Cardinal"
WANT = {"S": (0, -1), "E": (1, 0), "N": (0, 1), "W": (-1, 0)}


def unproj_args(e, ret_term):
    """(x term, y term, wrapped?) of the unproj call whose result is ret_term"""
    for ev in e.events.values():
        if ev.callee == "unproj" and ev.ret == ret_term:
            x, y = ev.args
            wrapped = False
            for w in e.events.values():
                if w.callee == "ensures_x_is_positive" and w.ret == x:
                    x = w.args[0]; wrapped = True
            return x, y, wrapped
    return None


def run(ctx, crate):
    clause = "vertices-agree"
    cpc = L + "center_of_projected_cell"
    opq = {cpc, "unproj", "ensures_x_is_positive"}
    o_t = ('fld', ('deref', param("self")), crate.field_index("nested::Layer", "one_over_nside"))
    names = {}
    # vertices()
    fn = L + "vertices"
    b = ctx.anchor(crate, fn, clause)
    got_v = {}
    if b is not None:
        e = Engine(crate, opaque=opq); r = e.run(fn); ctx.functions |= e.visited_fns
        cen = [ev for ev in e.events.values() if ev.callee == cpc]
        if len(cen) == 1 and r.returns and r.ret[0] == 'agg' and len(r.ret[3]) == 4 and cen[0].args[1] == param("hash"):
            xs, ys = ('fld', cen[0].ret, 0), ('fld', cen[0].ret, 1)
            nm = {xs: "x", ys: "y", o_t: "o"}
            for k, t in enumerate(r.ret[3]):
                ua = unproj_args(e, t)
                if ua is None: got_v[k] = None; continue
                px, py = to_poly(ua[0], nm), to_poly(ua[1], nm)
                got_v[k] = (px, py, ua[2])
    # vertex_lonlat(center_x, center_y, &dir)
    fn2 = L + "vertex_lonlat"
    b2 = ctx.anchor(crate, fn2, clause)
    got_l = {}
    idx = {}
    if b2 is not None:
        for vi, dn in enumerate(crate.variant_names(CARD)):
            e = Engine(crate, opaque={"unproj", "ensures_x_is_positive"})
            st = State(); st.heap[('tmp', 'dir')] = ('agg', 'adt:' + CARD, vi, ())
            body = crate.body(fn2)
            # parameters by type, whatever their grouping: floats / a tuple of floats = the centre,
            # a (reference to a) Cardinal = the direction
            args = [param("self")]; fl = ["cx", "cy"]
            for li in range(2, body.arg_count + 1):
                t = body.local_ty(li)
                if t["k"] == "float": args.append(param(fl.pop(0)))
                elif t["k"] == "tuple" and all(x["k"] == "float" for x in t["elems"]): args.append(('agg', 'tuple', 0, tuple(param(fl.pop(0)) for _ in t["elems"])))
                elif t["k"] == "ref" and t["to"].get("path") == CARD: args.append(('ref_t', ('tmp', 'dir')))
                elif t.get("path") == CARD: args.append(('agg', 'adt:' + CARD, vi, ()))
                else: args.append(param("arg%d" % li))
            r = e.run_body(body, args, st, fk=((fn2, -1),), stack=(fn2,))
            ctx.functions |= e.visited_fns
            nm = {param("cx"): "x", param("cy"): "y", o_t: "o"}
            ua = unproj_args(e, r.ret) if r.returns else None
            got_l[dn] = (to_poly(ua[0], nm), to_poly(ua[1], nm), ua[2]) if ua else None
            e2 = Engine(crate); st2 = State(); st2.heap[('tmp', 'dir')] = ('agg', 'adt:' + CARD, vi, ())
            r2 = e2.run_body(crate.body(CARD + "::index"), [('ref_t', ('tmp', 'dir'))], st2, fk=((CARD + "::index", -1),), stack=(CARD + "::index",))
            idx[dn] = r2.ret[2] if r2.returns and r2.ret[0] == 'c' else None
    X, Y, O = Poly.var("x"), Poly.var("y"), Poly.var("o")
    for dn, (a, bb) in WANT.items():
        wx, wy = X + O * Poly.const(a), Y + O * Poly.const(bb)
        k = idx.get(dn)
        v = got_v.get(k) if k is not None else None
        l = got_l.get(dn)
        okv = v is not None and v[0] == wx and v[1] == wy and (v[2] or a != -1)
        okl = l is not None and l[0] == wx and l[1] == wy and (l[2] or a != -1)
        ctx.report(clause, "vertex:%s" % dn, okv and okl,
                   "vertices()[%s] and vertex_lonlat(.., %s) both = unproj(x %+d·o, y %+d·o)%s" % (k, dn, a, bb, " with x wrapped into [0, 8)" if a == -1 else "") if okv and okl else
                   "vertices()[%s] = %s ; vertex_lonlat(%s) = %s ; expected (x%+d·o, y%+d·o)" % (k, v and (v[0], v[1], v[2]), dn, l and (l[0], l[1], l[2]), a, bb),
                   at=b.span if b else None, sample={"direction": dn, "array_index": k, "offset": [a, bb]})
    # vertex() and vertices_map() go through vertex_lonlat with the centre of the same hash
    for fn3 in (L + "vertex", L + "vertices_map"):
        b3 = ctx.anchor(crate, fn3, clause)
        if b3 is None: continue
        e = Engine(crate, opaque={cpc, fn2}); e.run(fn3); ctx.functions |= e.visited_fns
        cen = [ev for ev in e.events.values() if ev.callee == cpc]; vl = [ev for ev in e.events.values() if ev.callee == fn2]
        ok = len(cen) == 1 and len(vl) == 1 and cen[0].args[1] == param("hash")
        if ok:
            flat = []
            for a in vl[0].args[1:]:
                if a[0] == 'agg' and a[1] == 'tuple': flat += list(a[3])
                else: flat.append(a)
            ok = (flat[:2] == [('fld', cen[0].ret, 0), ('fld', cen[0].ret, 1)]) or (flat[:1] == [cen[0].ret])
        ctx.report(clause, fn3.split("::")[-1] + ":via-vertex_lonlat(centre)", ok, "%s(hash, ..) = vertex_lonlat(center_of_projected_cell(hash), dir)" % fn3.split("::")[-1], at=b3.span)
    hash_with_dxdy_wrap(ctx, crate)
    offset_map_siblings(ctx, crate)
    # base-cell centre offsets table vs model
    fnc = "nested::compute_base_cell_center_offsets_in_8x3_grid"
    cand = [p for p in crate.bodies if p.endswith("compute_base_cell_center_offsets_in_8x3_grid")]
    if cand:
        fnc = cand[0]
        bc = ctx.anchor(crate, fnc, "base-cell-centres")
        bad = []
        for base in range(12):
            e = Engine(crate); r = e.run(fnc, [C('u8', base)]); ctx.functions |= e.visited_fns
            got = None
            if r.returns and r.ret[0] == 'agg' and all(x[0] == 'c' for x in r.ret[3]): got = tuple(x[2] for x in r.ret[3])
            cx, cy = base_centre(base)
            want = (int(cx), int(cy))
            if got != want: bad.append((base, got, want))
        ctx.report("base-cell-centres", fnc.split("::")[-1], not bad, "the 12 base-cell centre offsets equal the model's (x, y) = (2b+1, 1), (2(b-4), 0), (2(b-8)+1, -1)" if not bad else "differ: %s" % bad[:3], at=bc.span if bc else None, kind="N")


def hash_with_dxdy_wrap(ctx, crate, clause="hash_with_dxdy-wrap"):
    """N: hash_with_dxdy feeds the projected x, wrapped into [0, 8), to the cell decomposition.
    proj() returns x with the sign of the longitude (x in [-8, 8]); shift_rotate_scale computes
    8 - x and casts sums to unsigned integers, so a negative x (any negative longitude beyond a
    fraction of a base cell) gives a wrong cell / negative offsets."""
    fn = L + "hash_with_dxdy"
    b = ctx.anchor(crate, fn, clause)
    if b is None: return
    srs = L + "shift_rotate_scale"
    e = Engine(crate, opaque={"proj", "ensures_x_is_positive", srs, "nested::discretize", L + "depth0_bits", L + "base_cell_coos", L + "to_coos_in_base_cell", L + "build_hash"})
    e.run(fn); ctx.functions |= e.visited_fns
    evs = [ev for ev in e.events.values() if len(ev.site) == 2]
    pj = [ev for ev in evs if ev.callee == "proj"]; en = [ev for ev in evs if ev.callee == "ensures_x_is_positive"]; sr = [ev for ev in evs if ev.callee == srs]
    ok = len(pj) == 1 and len(sr) == 1 and pj[0].args == [param("lon"), param("lat")]
    detail = "proj: %d call(s), shift_rotate_scale: %d" % (len(pj), len(sr))
    if ok:
        xy = sr[0].argvals[1] if sr[0].argvals else None
        x = xy[3][0] if xy is not None and xy[0] == 'agg' else None
        wrapped = [w for w in en if w.ret == x and w.args[0] == ('fld', pj[0].ret, 0)]
        ok = bool(wrapped) and xy[3][1] == ('fld', pj[0].ret, 1)
        detail = "shift_rotate_scale receives (ensures_x_is_positive(proj(lon, lat).0), proj(lon, lat).1)" if ok else "the x handed to shift_rotate_scale is %s: not the projected x wrapped into [0, 8)" % (show(x)[:80] if x else None)
    ctx.report(clause, fn + ":x-wrapped-before-decomposition", ok, detail, at=b.span, kind="N")


def offset_map_siblings(ctx, crate, clause="offset-map-siblings"):
    """N: sph_coo(h, dx, dy) and grid(h, n) place the point of in-cell offsets (dx, dy) at the same
    projection-plane position: centre + ((dx - dy) o, (dx + dy - 1) o).  The two accessors are
    written independently (sibling agreement); the grid abscissae i/n, j/n are kept as atoms."""
    cpc = L + "center_of_projected_cell"
    o_t = ('fld', ('deref', param("self")), crate.field_index("nested::Layer", "one_over_nside"))
    X, Y, O, DX, DY = (Poly.var(v) for v in ("x", "y", "o", "dx", "dy"))
    want = (X + (DX - DY) * O, Y + (DX + DY - Poly.const(1)) * O)
    res = {}
    # sph_coo
    fn = L + "sph_coo"
    b = ctx.anchor(crate, fn, clause)
    if b is not None:
        e = Engine(crate, opaque={cpc, "unproj", "ensures_x_is_positive"}); e.run(fn); ctx.functions |= e.visited_fns
        cen = [ev for ev in e.events.values() if ev.callee == cpc]; un = [ev for ev in e.events.values() if ev.callee == "unproj"]
        if len(cen) == 1 and len(un) == 1:
            nm = {('fld', cen[0].ret, 0): "x", ('fld', cen[0].ret, 1): "y", o_t: "o", param("dx"): "dx", param("dy"): "dy"}
            ua = unproj_args(e, un[0].ret)
            res["sph_coo"] = (to_poly(ua[0], nm), to_poly(ua[1], nm)) if ua else None
    # grid
    fn2 = L + "grid"
    b2 = ctx.anchor(crate, fn2, clause)
    if b2 is not None:
        e = Engine(crate, opaque={cpc, "unproj", "ensures_x_is_positive"}); e.run(fn2); ctx.functions |= e.visited_fns
        cen = [ev for ev in e.events.values() if ev.callee == cpc]; un = [ev for ev in e.events.values() if ev.callee == "unproj"]
        if len(cen) == 1 and len(un) == 1:
            ua = unproj_args(e, un[0].ret)
            divs = []
            for t in (ua[0], ua[1]):
                for x in walk(t):
                    if x[0] == 'op' and x[1] == 'div' and x not in divs: divs.append(x)
            # the abscissa along the S->E axis appears with +1 in the x coordinate's (dx - dy): identify by sign
            if len(divs) == 2:
                for perm in ((divs[0], divs[1]), (divs[1], divs[0])):
                    nm = {('fld', cen[0].ret, 0): "x", ('fld', cen[0].ret, 1): "y", o_t: "o", perm[0]: "dx", perm[1]: "dy"}
                    p = (to_poly(ua[0], nm), to_poly(ua[1], nm))
                    if p[0] == want[0]: res["grid"] = p; break
                else: res["grid"] = (to_poly(ua[0], {('fld', cen[0].ret, 0): "x", o_t: "o", divs[0]: "dx", divs[1]: "dy"}), None)
    ok = res.get("sph_coo") == want and res.get("grid") == want
    ctx.report(clause, "sph_coo==grid:offset-map", ok, "both: centre + ((dx - dy)·o, (dx + dy - 1)·o)" if ok else "sph_coo: %s ; grid: %s ; expected %s" % (res.get("sph_coo"), res.get("grid"), want), at=b.span if b else None, kind="N")


def decomposition_chain(ctx, crate, which=("hash_v1", "hash_with_dxdy"), clause="decomposition-chain"):
    """N: the routes that compute a cell number through the rotated frame (`hash_v1`, `hash_with_dxdy`)
    hand each step the value the previous one produced, in the right slot:
      proj(lon, lat) -> x wrapped into [0, 8) -> shift_rotate_scale -> discretize -> base_cell_coos
      -> depth0_bits(i, j, &mut ij, xy) -> to_coos_in_base_cell(&mut ij) -> build_hash(bits, ij.0, ij.1)
    (helpers opaque; values written through `&mut` arguments are the callee's, identified by site).
    Two same-typed arguments exchanged, or a step fed with the value of before the previous step, is
    a wrong cell on part of the sphere only (i = j on the diagonal of every base cell)."""
    srs = L + "shift_rotate_scale"; DISC = "nested::discretize"; BCC = L + "base_cell_coos"; D0B = L + "depth0_bits"
    TCO = L + "to_coos_in_base_cell"; BH = L + "build_hash"; XGT = L + "x_in_d0c_gt_y_in_d0c"
    n = 0
    for short in which:
        fn = L + short
        b = ctx.anchor(crate, fn, clause)
        if b is None: continue
        e = Engine(crate, opaque={"proj", "ensures_x_is_positive", srs, DISC, D0B, BCC, TCO, BH, XGT})
        r = e.run(fn); ctx.functions |= e.visited_fns
        evs = [ev for ev in e.events.values() if len(ev.site) == 2]
        def one(name):
            xs = [ev for ev in evs if ev.callee == name]
            return xs[0] if len(xs) == 1 else None
        pj, en, sr, dc, bc, d0, tc, bh = (one(x) for x in ("proj", "ensures_x_is_positive", srs, DISC, BCC, D0B, TCO, BH))
        why = None
        def val(ev, i):
            """value of argument i: the pointee at call time for references"""
            if ev.argvals and ev.argvals[i] is not None: return ev.argvals[i]
            return ev.args[i]
        def havoc_of(t, ev):
            return t[0] == 'sym' and t[1][0] == 'havoc' and t[1][1] == ev.site
        if any(x is None for x in (pj, en, sr, dc, bc, d0, tc, bh)):
            why = "expected exactly one call of each step, found %s" % {k: len([ev for ev in evs if ev.callee == k]) for k in ("proj", "ensures_x_is_positive", srs, DISC, BCC, D0B, TCO, BH)}
        else:
            R = bc.ret
            xy0 = val(sr, 1)
            H = dc.args[0]
            J = None
            if pj.args != [param("lon"), param("lat")]: why = "proj is not given (lon, lat)"
            elif not (xy0[0] == 'agg' and xy0[3][0] == en.ret and en.args[0] == ('fld', pj.ret, 0) and xy0[3][1] == ('fld', pj.ret, 1)):
                why = "shift_rotate_scale receives %s, not (ensures_x_is_positive(proj.0), proj.1)" % show(xy0)[:80]
            elif not havoc_of(H, sr): why = "discretize receives %s, not the position left by shift_rotate_scale" % show(H)[:60]
            elif val(bc, 1) != dc.ret: why = "base_cell_coos receives %s, not the result of discretize" % show(val(bc, 1))[:60]
            elif d0.args[1:3] != [('fld', R, 0), ('fld', R, 1)]: why = "depth0_bits receives (%s, %s) as base-cell coordinates, not (i, j) of base_cell_coos in that order" % (show(d0.args[1])[:40], show(d0.args[2])[:40])
            elif val(d0, 3) != dc.ret or d0.args[4] != H: why = "depth0_bits receives (%s, %s) as cell coordinates / position" % (show(val(d0, 3))[:40], show(d0.args[4])[:40])
            elif not havoc_of(val(tc, 1), d0): why = "to_coos_in_base_cell works on %s, not on the coordinates left by depth0_bits" % show(val(tc, 1))[:60]
            else:
                a2, a3 = bh.args[2], bh.args[3]
                def coord(a, k):
                    return a[0] == 'cast' and a[3][0] == 'fld' and a[3][2] == k and havoc_of(a[3][1], tc)
                if bh.args[1] != d0.ret: why = "build_hash receives %s as base-cell bits, not the result of depth0_bits" % show(bh.args[1])[:60]
                elif not (coord(a2, 0) and coord(a3, 1)): why = "build_hash receives (%s, %s), not (ij.0, ij.1) left by to_coos_in_base_cell" % (show(a2)[:40], show(a3)[:40])
                else:
                    ret = r.ret if r.returns else None
                    if not (ret == bh.ret or (ret is not None and ret[0] == 'agg' and ret[3] and ret[3][0] == bh.ret)): why = "the cell number returned is %s, not the result of build_hash" % (show(ret)[:60] if ret else None)
            if why is None and short == "hash_with_dxdy" and r.returns and r.ret[0] == 'agg' and len(r.ret[3]) == 3:
                # the offsets are taken from the cell coordinates AFTER depth0_bits (which may move the
                # position to the neighbouring cell), not from the ones discretize returned
                seen_ = set(); syms = set()
                def leaves_(t, depth=0):
                    if t in seen_ or depth > 12 or not isinstance(t, tuple): return
                    seen_.add(t)
                    if t[0] == 'sym': syms.add(t); return
                    if t[0] == 'phi':
                        for o in (e.phi_gate.get(t) or e.phi_ops.get(t, ())): leaves_(o, depth + 1)
                        return
                    for x in t:
                        if isinstance(x, tuple): leaves_(x, depth + 1)
                leaves_(r.ret[3][1]); leaves_(r.ret[3][2])
                if dc.ret in syms: why = "the offsets (dx, dy) are computed from the cell coordinates returned by discretize, before depth0_bits may move the position to the neighbouring cell"
                elif not any(havoc_of(x, d0) for x in syms): why = "the offsets (dx, dy) do not read the cell coordinates left by depth0_bits"
            if why is None:
                for xg in [ev for ev in evs if ev.callee == XGT]:
                    if xg.args[1:4] != [('fld', R, 0), ('fld', R, 1), H]:
                        why = "x_in_d0c_gt_y_in_d0c receives (%s, %s, %s), not (i, j, position)" % tuple(show(a)[:30] for a in xg.args[1:4]); break
        n += 1
        ctx.report(clause, fn + ":each-step-fed-by-the-previous-one", why is None,
                   "proj -> wrap -> rotate/scale -> discretize -> base_cell_coos -> depth0_bits(i, j, ij, xy) -> to_coos_in_base_cell -> build_hash(bits, ij.0, ij.1)" if why is None else why,
                   at=b.span, kind="N")
    return n


def path_points(ctx, crate, clause="path-points"):
    """N: `path_along_cell_side_internal` per (from, to) pair of cardinal vertices (12 finite keys), the
    loop counter kept as a leaf: the point handed to `unproj` is
        centre + off(from) + k * (off(to) - off(from)) / n_segments,   off(S, E, N, W) = (0,-1), (1,0), (0,1), (-1,0) / nside
    with x wrapped into [0, 8) — read at sample values of (centre, nside, n_segments, k)."""
    from sym import State
    from rules.common import feval
    fn = L + "path_along_cell_side_internal"
    b = ctx.anchor(crate, fn, clause)
    if b is None: return
    names = crate.variant_names("compass_point::Cardinal")
    OFF = {"S": (0, -1), "E": (1, 0), "N": (0, 1), "W": (-1, 0)}
    if sorted(names) != sorted(OFF):
        ctx.undecided(clause, fn + ":keys", "Cardinal variants %s" % names, at=b.span); return
    oon = ('fld', ('deref', param("self")), crate.field_index("nested::Layer", "one_over_nside"))
    pn = b.param_names()
    bad = []; n = 0
    for fi, fnm in enumerate(names):
        for ti, tnm in enumerate(names):
            if fi == ti: continue
            st = State()
            st.heap[('tmp', 'from')] = ('agg', 'adt:compass_point::Cardinal', fi, ()); st.heap[('tmp', 'to')] = ('agg', 'adt:compass_point::Cardinal', ti, ())
            e = Engine(crate, opaque={"unproj", "ensures_x_is_positive"})
            args = [param(x) for x in pn]
            args[pn.index("from_vertex")] = ('ref_t', ('tmp', 'from')); args[pn.index("to_vertex")] = ('ref_t', ('tmp', 'to'))
            e.run_body(b, args, st, fk=((fn, -1),), stack=(fn,)); ctx.functions |= e.visited_fns
            un = [ev for ev in e.events.values() if ev.callee == "unproj"]        # in the loop body, or in the closure of an iterator adaptor
            ens = {ev.ret: ev for ev in e.events.values() if ev.callee == "ensures_x_is_positive"}
            if len(un) != 1 or un[0].args[0] not in ens:
                bad.append((fnm, tnm, "expected one unproj(ensures_x_is_positive(x), y)")); continue
            X, Y = ens[un[0].args[0]].args[0], un[0].args[1]
            # the loop counter: the int -> float cast whose operand is not n_segments
            ks = {t for t in walk(X) if t[0] == 'cast' and t[1] == 'int_to_float' and not any(y == param("n_segments") for y in walk(t))} | \
                 {t for t in walk(Y) if t[0] == 'cast' and t[1] == 'int_to_float' and not any(y == param("n_segments") for y in walk(t))}
            if len(ks) != 1:
                bad.append((fnm, tnm, "loop counter not identified")); continue
            K = next(iter(ks))
            for cx, cy, ns, seg, k in ((1.0, 0.5, 4, 3, 0.0), (1.0, 0.5, 4, 3, 2.0), (6.5, -1.25, 1, 5, 5.0), (0.03125, 0.0, 32, 2, 1.0)):
                o = 1.0 / ns
                env = {('fld', param("proj_center"), 0): cx, ('fld', param("proj_center"), 1): cy, oon: o, param("n_segments"): seg, K: k}
                gx, gy = feval(X, env, e), feval(Y, env, e)
                fx, fy = OFF[fnm]; tx, ty = OFF[tnm]
                wx = cx + fx * o + k * (tx - fx) * o / seg; wy = cy + fy * o + k * (ty - fy) * o / seg
                n += 1
                if gx is None or gy is None or abs(gx - wx) > 1e-13 or abs(gy - wy) > 1e-13:
                    bad.append((fnm, tnm, "centre (%s, %s), nside %s, %s segments, k = %s: (%s, %s), expected (%s, %s)" % (cx, cy, ns, seg, k, gx, gy, wx, wy))); break
    ctx.report(clause, fn + ":points-on-the-segment-from-to", not bad and n >= 48,
               "12 (from, to) pairs x 4 sample points: centre + off(from) + k (off(to) - off(from)) / n_segments, x wrapped" if not bad else
               "from %s to %s: %s" % bad[0], at=b.span, kind="N")


def cardinal_set(ctx, crate, clause="vertex-set"):
    """N: `CardinalSet`, the argument of `vertices_map`: bit i of its byte stands for the direction of
    index i — `get_from_index` reads bit `index`, `set` sets / clears bit `key.index()` and nothing else
    (64 + 128 finite cases read off the extracted terms), `all()` is 0b1111, `new()` is 0, and
    `Cardinal::from_index` inverts `Cardinal::index`."""
    from sym import State, C
    from rules.common import feval
    CS = "compass_point::CardinalSet"
    if CS not in crate.adts: return
    S = ('deref', param("self")); BYTE = ('fld', S, crate.field_index(CS, "byte"))
    # get_from_index
    fn = CS + "::get_from_index"
    b = ctx.anchor(crate, fn, clause)
    if b is not None:
        e = Engine(crate); r = e.run(fn); ctx.functions |= e.visited_fns
        bad = [(B, i) for B in range(16) for i in range(4) if not r.returns or feval(r.ret, {BYTE: B, param("index"): i}, e) != bool((B >> i) & 1)]
        ctx.report(clause, fn + ":reads-bit-index", not bad, "64 (byte, index) cases" if not bad else "byte %s, index %s: wrong answer" % bad[0], at=b.span, kind="N")
    # set
    fn = CS + "::set"; IDX = "compass_point::Cardinal::index"
    b = ctx.anchor(crate, fn, clause)
    if b is not None:
        e = Engine(crate, opaque={IDX}); r = e.run(fn); ctx.functions |= e.visited_fns
        ix = [ev.ret for ev in e.events.values() if ev.callee == IDX]
        fin = r.state.heap.get(BYTE) if r.returns else None
        bad = []
        if fin is None or len(ix) != 1: bad = [("shape",)]
        else:
            for B in range(16):
                for i in range(4):
                    for v in (False, True):
                        got = feval(fin, {BYTE: B, ix[0]: i, param("value"): v}, e)
                        want = (B | (1 << i)) if v else (B & ~(1 << i) & 0xff)
                        if got != want: bad.append((B, i, v, got, want))
        ctx.report(clause, fn + ":sets-or-clears-bit-index", not bad, "128 (byte, index, value) cases" if not bad else "%s" % (bad[0],), at=b.span, kind="N")
    # constructors
    for name, want in (("all", 15), ("new", 0)):
        fn = CS + "::" + name
        b = crate.body(fn)
        if b is None: continue
        e = Engine(crate); r = e.run(fn); ctx.functions |= e.visited_fns
        ok = r.returns and r.ret[0] == 'agg' and r.ret[3] and r.ret[3][0] == C('u8', want)
        ctx.report(clause, fn + ":byte==%d" % want, ok, "CardinalSet::%s() has byte %s" % (name, show(r.ret[3][0]) if r.returns and r.ret[0] == 'agg' else "?"), at=b.span, kind="N")
    # from_index inverts index
    names = crate.variant_names("compass_point::Cardinal")
    fi = "compass_point::Cardinal::from_index"; bi = crate.body(IDX); bf = crate.body(fi)
    if bi is not None and bf is not None:
        bad = []
        for vi, nm in enumerate(names):
            v = ('agg', 'adt:compass_point::Cardinal', vi, ())
            e = Engine(crate); st = State(); st.heap[('tmp', 'dir')] = v
            arg = ('ref_t', ('tmp', 'dir')) if bi.local_ty(1)["k"] == "ref" else v
            r = e.run_body(bi, [arg], st, fk=((IDX, -1),), stack=(IDX,))
            k = r.ret if r.returns else None
            e2 = Engine(crate); r2 = e2.run(fi, [k]) if k is not None and k[0] == 'c' else None
            back = r2.ret if r2 is not None and r2.returns else None
            if back != v: bad.append((nm, show(k) if k else None, show(back)[:40] if back else None))
        ctx.report(clause, fi + ":inverts-index", not bad, "from_index(index(d)) = d for the 4 directions" if not bad else "direction %s -> index %s -> %s" % bad[0], at=bf.span, kind="N")


def cardinal_set_iterator(ctx, crate, clause="vertex-set"):
    """N: iterating over a `CardinalSet` (what `vertices_map` does with its argument) yields exactly the
    directions whose bit is set, each once, and then stops: for each of the 16 sets, the iterator state
    returned by `into_iter` is driven through `next` (loops executed iteration by iteration on the
    concrete state) until it answers `None`; the directions are read back through `Cardinal::index`."""
    CS = "compass_point::CardinalSet"; CSI = "compass_point::CardinalSetIterator"
    nx = "<%s as std::iter::Iterator>::next" % CSI; ii = "<%s as std::iter::IntoIterator>::into_iter" % CS
    IDX = "compass_point::Cardinal::index"
    if CSI not in crate.adts and crate.body(nx) is None: return
    b = ctx.anchor(crate, nx, clause); bi = crate.body(ii); bx = crate.body(IDX)
    if b is None: return
    if bi is None or bx is None:
        ctx.not_decided("CardinalSet iteration: no `into_iter` / `Cardinal::index` body to drive it with"); return
    from sym import State, C
    def index_of(v):
        e = Engine(crate); st = State(); st.heap[('tmp', 'dir')] = v
        arg = ('ref_t', ('tmp', 'dir')) if bx.local_ty(1)["k"] == "ref" else v
        r = e.run_body(bx, [arg], st, fk=((IDX, -1),), stack=(IDX,))
        return r.ret[2] if r.returns and r.ret[0] == 'c' else None
    bad = []; unread = []; n = 0
    for B in range(16):
        e = Engine(crate); r = e.run(ii, [('agg', 'adt:' + CS, 0, (C('u8', B),))]); ctx.functions |= e.visited_fns
        if not r.returns or r.ret[0] != 'agg': unread.append((B, "into_iter does not fold")); continue
        state = r.ret; got = []; done = False
        for _ in range(6):
            e = Engine(crate, unroll=16); st = State(); st.heap[('tmp', 'it')] = state
            r = e.run_body(b, [('ref_t', ('tmp', 'it'))], st, fk=((nx, -1),), stack=(nx,)); ctx.functions |= e.visited_fns
            if not r.returns or r.ret[0] != 'agg' or not str(r.ret[1]).endswith("Option"): unread.append((B, "next does not fold after %s" % got)); done = None; break
            n += 1
            if r.ret[2] == 0: done = True; break
            got.append(index_of(r.ret[3][0])); state = r.state.heap.get(('tmp', 'it'))
            if state is None: bad.append((B, "iterator state lost")); done = None; break
        if done is None: continue
        want = [i for i in range(4) if (B >> i) & 1]
        if not done: bad.append((B, "still yielding after 6 calls: %s" % got))
        elif sorted(x if x is not None else -1 for x in got) != want: bad.append((B, "yields directions of index %s, the set holds %s" % (got, want)))
    if unread and not bad:
        # written with iterator adaptors / closures the engine does not execute on a concrete state: nothing is said
        ctx.not_decided("CardinalSet iteration: %s (byte %s)" % (unread[0][1], unread[0][0])); return
    ctx.report(clause, nx + ":yields-exactly-the-set", not bad and n >= 48, "16 sets driven from into_iter to None (%d calls of next)" % n if not bad else "byte %s: %s" % bad[0], at=b.span, kind="N")


def grid_ranges(ctx, crate, clause="grid-points"):
    """N: `grid(hash, n)` walks offsets i/n, j/n for i, j = 0..=n: its two loops run over 0..n+1 (the
    abscissae then stay in [0, 1], the offsets `sph_coo` accepts); one more round gives points outside
    the cell, one less leaves the N-E and N-W sides out.  (The map from (i/n, j/n) to the point is the
    offset-map sibling rule.)"""
    fn = L + "grid"
    b = ctx.anchor(crate, fn, clause)
    if b is None: return
    e = Engine(crate, opaque={L + "center_of_projected_cell", "unproj"}); e.run(fn); ctx.functions |= e.visited_fns
    rng = [ev.args[0][3] for ev in e.events.values() if len(ev.site) == 2 and ev.callee and "into_iter" in ev.callee and ev.args and ev.args[0][0] == 'agg' and ev.args[0][1] == 'adt:std::ops::Range']
    if len(rng) != 2:
        ctx.not_decided("grid: the ranges of its two loops (not written as two `a..b` loops)"); return
    n = param("n_segments_by_side")
    def is_n_plus_1(t):
        return t[0] == 'op' and t[1] == 'add' and t[4][0] == 'c' and t[4][2] == 1 and t[3][0] == 'cast' and t[3][3] == n
    ok = all(r_[0][0] == 'c' and r_[0][2] == 0 and is_n_plus_1(r_[1]) for r_ in rng)
    ctx.report(clause, fn + ":loops-0..=n", ok, "both loops run over 0..(n_segments_by_side + 1)" if ok else "loop ranges %s" % [(show(a)[:30], show(c_)[:40]) for a, c_ in rng], at=b.span, kind="N")
