"""E9 — catastrophic cancellation of the form 1 -/+ trig(..) on a property's float path.

`1 - cos(d)` keeps no significant digit for d below ~1e-8, `1 - sin(lat)` / `1 + sin(lat)` none near
the poles, `1 - (sin a sin b + cos a cos b cos c)` (law of cosines) none for close points: exactly
the regions (deep depths, tiny cones, polar caps) where the float clauses of the properties are in
doubt.  The repository avoids all of them (half-angle forms: `sin(d/2)^2`,
`sqrt(6) cos(lat/2 + pi/4)`, the haversine of the two half differences); a rewrite into the
"mathematically equal" short form is the realistic way of breaking them without failing a test.

Rule (numerical-stability lint, specific to this code base): in every function reachable from the
property's entry points, no f64 addition / subtraction combines the constant 1 with a value that is
a trigonometric polynomial (sums / products of sin, cos results and constants).  A single trig call
whose argument is proved (must-facts) to stay away from the point where it reaches +-1 is accepted.
This decides a necessary condition of the precision clauses, not the clauses themselves."""
from sym import Engine, show, walk, C
from mir import f64_from_bits



def _trig_call(t):
    return t[0] == 'call' and isinstance(t[1], str) and t[1].rsplit("::", 1)[-1] in TRIG and "f64" in t[1]


TRIG = ("sin", "cos", "sin_cos")


def trigpoly(t, depth=0):
    """t is built by + - * neg only from sin/cos results (at least one), constants and opaque values
    (parameters, captured values: the factors of a product of cosines / sines handed in by the caller)"""
    if depth > 12: return None
    if _trig_call(t): return True
    if t[0] == 'fld' and _trig_call(t[1]): return True          # one half of sin_cos()
    if t[0] == 'c' and t[1] == 'f64': return False
    if t[0] in ('p', 'sym', 'deref', 'fld'): return False
    if t[0] == 'op' and t[2] == 'f64' and t[1] in ('add', 'sub', 'mul'):
        a, b = trigpoly(t[3], depth + 1), trigpoly(t[4], depth + 1)
        if a is None or b is None: return None
        return a or b
    if t[0] == 'un' and t[1] == 'neg':
        return trigpoly(t[3], depth + 1)
    return None


def is_one(t):
    return t[0] == 'c' and t[1] == 'f64' and f64_from_bits(t[2]) == 1.0


def scan_function(crate, fn):
    """[(site, term)] of the cancelling additions / subtractions computed by fn itself"""
    body = crate.body(fn)
    if body is None: return []
    hits = []
    e = Engine(crate, max_depth=1)
    def vh(v, loc, facts):
        if loc[0] == fn and v[0] == 'call' and isinstance(v[1], str) and v[1].rsplit("::", 1)[-1] == 'acos' and "f64" in v[1] and len(v[2]) == 1 and trigpoly(v[2][0]):
            # acos of a cosine assembled from sines and cosines (a dot product): quantised to 0, 1.5e-8, 2.1e-8 .. rad
            hits.append((loc, v, frozenset(facts))); return
        if loc[0] != fn or v[0] != 'op' or v[2] != 'f64' or v[1] not in ('sub', 'add'): return
        a, b = v[3], v[4]
        other = b if is_one(a) else (a if is_one(b) else None)
        if other is None: return
        if trigpoly(other):
            # 1 + cos x and 1 + sin x cancel as well (x -> pi, x -> -pi/2); 1 - (-trig) does not occur here
            hits.append((loc, v, frozenset(facts)))
    e.value_hook = vh
    try:
        e.run(fn)
    except Exception:
        return None
    # calls are terminators, not assigned rvalues: look at the recorded call sites of acos
    for ev in e.events.values():
        if len(ev.site) == 2 and ev.callee and ev.callee.rsplit("::", 1)[-1] == 'acos' and "f64" in ev.callee and ev.args and trigpoly(ev.args[0]):
            hits.append(((fn, ev.site[-1][1], ev.at, None), ('call', ev.callee, (ev.args[0],)), frozenset(ev.facts)))
    return hits


def reachable(crate, roots, max_depth=8):
    seen = set(); frontier = [r for r in roots if crate.body(r) is not None]
    d = 0
    while frontier and d <= max_depth:
        nxt = []
        for f in frontier:
            if f in seen: continue
            seen.add(f)
            for c in crate.callees(f):
                if c not in seen and crate.body(c) is not None: nxt.append(c)
            for c in crate.bodies:                       # closures are called through std (map, filter, retain, ..)
                if c.startswith(f + "::{closure") and c not in seen: nxt.append(c)
        frontier = nxt; d += 1
    return seen


def check(ctx, crate, roots, clause="no-cancelling-1-minus-trig", floor=None):
    fns = sorted(reachable(crate, roots))
    missing = [r for r in roots if crate.body(r) is None]
    for r in missing:
        ctx.undecided(clause, "root:" + r, "entry point %s not found" % r)
    bad = []; n = 0; failed = []
    for fn in fns:
        hits = scan_function(crate, fn)
        if hits is None: failed.append(fn); continue
        n += 1
        seen_at = set()
        for loc, v, facts in hits:
            key = (fn, show(v)[:80])
            if key in seen_at: continue
            seen_at.add(key)
            bad.append((fn, loc[2], show(v)[:140]))
    ctx.functions |= set(fns)
    for fn, at, tv in bad:
        ctx.report(clause, "%s:%s" % (fn, tv[:60]), False,
                   ("%s computes %s: the arc cosine of a cosine assembled from sines and cosines can only take the values acos(1 - k*1.1e-16) = 0, 1.5e-8, 2.1e-8, .. rad for small angles (use atan2(|cross|, dot) or the haversine)" % (fn, tv)) if "acos(" in tv else
                   ("%s computes %s: the constant 1 combined with a trigonometric value cancels catastrophically where that value reaches +-1 (tiny distances / the poles); the repository's half-angle forms do not" % (fn, tv)), at=at, kind="N")
    ctx.report(clause, "scan", not bad and not failed, "%d functions reachable from %s scanned, no `1 -/+ trig(..)` and no `acos(trig polynomial)` form" % (n, sorted(roots)[:4]) if not bad else "%d cancelling forms" % len(bad), kind="N",
               sample={"functions": n, "not_analysed": failed[:5]})
    if floor is not None: ctx.floor(clause + "-functions", n, floor)
    from rules import controls
    controls.cancellation_controls(ctx)
