"""C13 — elliptical cone.  D semi-major axis >= pi/2 rejected on every entry point (E1)."""
import math
from sym import Engine, show
from rules.common import run_fn, float_interval, failed_cmps, param

HALF_PI = math.pi / 2
ENTRIES = ["nested::Layer::elliptical_cone_coverage", "nested::Layer::elliptical_cone_coverage_custom",
           "nested::Layer::elliptical_cone_coverage_internal", "nested::elliptical_cone_coverage",
           "nested::elliptical_cone_coverage_custom"]


def rejects_ge(facts, term, c):
    lo, los, hi, his = float_interval(facts, term)
    if hi < c or (hi == c and his): return True
    for op, k in failed_cmps(facts, term):
        if op == "ge" and k <= c: return True
        if op == "gt" and k < c: return True
    return False


def guard(ctx, crate, tag=""):
    n = 0
    for fn in ENTRIES:
        b = ctx.anchor(crate, fn, "axis-guard")
        if b is None: continue
        # recursion and the geometry helpers are irrelevant to the guard: do not inline them
        small = lambda n: crate.body(n) is not None and len(crate.body(n).blocks) <= 25
        e, r = run_fn(crate, fn, opaque={"nested::Layer::elliptical_cone_coverage_recur", "sph_geom::elliptical_cone::EllipticalCone::new"},
                      inline=lambda n, d: "elliptical_cone_coverage" in n or n == "nested::get_or_create" or small(n))
        ctx.functions |= e.visited_fns
        n += 1
        key = "%s:a%s" % (fn, tag)
        if not r.returns:
            ctx.holds("axis-guard", key, "never returns normally", at=b.span); continue
        ok = rejects_ge(r.facts, param("a"), HALF_PI)
        ctx.report("axis-guard", key, ok,
                   "at every normal return the comparison `a >= pi/2` is known to have failed" if ok else
                   "a path reaches a normal return of %s without `a >= pi/2` having been tested and rejected (a debug-only or missing guard)" % fn,
                   at=b.span, sample={"fn": fn, "failed_comparisons_on_a": failed_cmps(r.facts, param("a")), "config": getattr(crate, "config", "")})
        # the ellipse is only constructed under the guard
        for ev in e.events.values():
            if ev.callee == "sph_geom::elliptical_cone::EllipticalCone::new":
                okc = rejects_ge(ev.facts, param("a"), HALF_PI) or any(rejects_ge(ev.facts, a, HALF_PI) for a in ev.args[2:3])
                ctx.report("axis-guard", "%s:EllipticalCone::new-under-guard%s" % (fn, tag), okc, "EllipticalCone::new is reached only after the guard", at=ev.at)
    return n


def hemisphere(ctx, crate):
    """N: the two containment tests of the elliptical cone (`contains`, `contains_cone`: the ones that
    make a cell FULL) hand a projected point to the ellipse test only when the point is on the
    hemisphere of the cone centre: the orthographic projection maps the far hemisphere onto the same
    disc, so a forced projection flags cells near the antipode as fully inside."""
    from sym import Engine, show, walk
    from rules.common import derives
    clause = "hemisphere"
    EC = "sph_geom::elliptical_cone::EllipticalCone::"
    opq = {p for p in crate.bodies if "sph_geom::proj" in p or "Ellipse::" in p}
    for name in ("contains", "contains_cone"):
        fn = EC + name
        b = ctx.anchor(crate, fn, clause)
        if b is None: continue
        e = Engine(crate, opaque=opq); r = e.run(fn); ctx.functions |= e.visited_fns
        tests = [ev for ev in e.events.values() if ev.callee and ev.callee.endswith("Ellipse::contains")]
        projs = [ev for ev in e.events.values() if ev.callee and "sph_geom::proj" in ev.callee and ev.ret is not None]
        ok = bool(tests); why = "%d ellipse tests" % len(tests)
        for t in tests:
            src = [p for p in projs if any(derives(e, a, p.ret, 2) for a in t.args[1:])]
            if len(src) != 1:
                ok = False; why = "the tested point does not come from one projection call"; break
            p = src[0]
            some = any(f[0] == 'eqc' and f[1] == ('discr', p.ret) and f[2] == 1 and f[3] for f in t.facts)          # Option: Some
            flag = any(f[0] == 'b' and f[2] is True and f[1][0] == 'fld' and f[1][1] == p.ret for f in t.facts)      # (xy, dist, same_hemisphere): flag tested
            if not (some or flag):
                ok = False; why = "%s is reached with the result of %s without the fact that the point is on the near hemisphere" % (t.callee.split("::")[-2] + "::contains", p.callee.split("::")[-1]); break
            why = "ellipse test only under `%s(..)` = Some / near-hemisphere flag" % p.callee.split("::")[-1].rstrip(">")
        ctx.report(clause, fn + ":near-hemisphere-only", ok, why, at=b.span, kind="N")


def projsin_formulae(ctx, crate):
    """N: the orthographic projection the ellipse tests work in (`ProjSIN`), read at sample positions
    with the centre's (lon0, sin b0, cos b0) as the fields of the receiver:
      proj(l, b) = Some(cos b sin(l - l0), cos b0 sin b - sin b0 cos b cos(l - l0))  iff  the point is in the
      centre's hemisphere (sin b0 sin b + cos b0 cos b cos(l - l0) > 0), None otherwise;
      forced_proj_and_distance gives the same (x, y) whatever the hemisphere, and the angular distance."""
    import math
    from sym import Engine, show
    from rules.common import feval, param
    clause = "projection-formulae"
    P = "sph_geom::proj::ProjSIN"
    fns = {"proj": [p_ for p_ in crate.bodies if p_.startswith("<" + P + " as ") and p_.endswith(">::proj")], "forced": [p_ for p_ in crate.bodies if p_ == P + "::forced_proj_and_distance"]}
    if P not in crate.adts or not fns["proj"] or not fns["forced"]:
        ctx.undecided(clause, "ProjSIN", "type or methods not found"); return
    fl = [f["name"] for f in crate.adts[P]["variants"][0]["fields"]]
    S = ('deref', param('self'))
    pts = [((1.0, 0.3), (1.2, 0.5)), ((1.0, 0.3), (4.0, -0.2)), ((0.1, -1.2), (6.0, -1.0)), ((3.0, 1.4), (0.5, 1.3)), ((5.5, 0.0), (5.5, 0.0)), ((2.0, 0.7), (2.0 + math.pi, -0.7 + 0.05)),
           ((2.0, 1.2), (2.0, -0.5)), ((0.5, -1.3), (0.5, 0.4)), ((4.0, 1.0), (4.3, -0.7)), ((1.0, -0.9), (1.0, 0.55))]     # just beyond the visible hemisphere of a high-latitude centre
    for kind, names in fns.items():
        fn = names[0]
        b = ctx.anchor(crate, fn, clause)
        if b is None: continue
        e = Engine(crate); r = e.run(fn); ctx.functions |= e.visited_fns
        bad = []
        for (l0, b0), (l, bb) in pts:
            env = {param('lon'): l, param('lat'): bb}
            for i_, f_ in enumerate(fl):
                env[('fld', S, i_)] = {"center_lon": l0, "center_lat": b0, "cos_center_lat": math.cos(b0), "sin_center_lat": math.sin(b0)}.get(f_)
            dot = math.sin(b0) * math.sin(bb) + math.cos(b0) * math.cos(bb) * math.cos(l - l0)
            wx = math.cos(bb) * math.sin(l - l0); wy = math.cos(b0) * math.sin(bb) - math.sin(b0) * math.cos(bb) * math.cos(l - l0)
            ret = r.ret if r.returns else None
            if kind == "proj":
                g = e.phi_gate.get(ret) if ret is not None and ret[0] == 'phi' else None
                if g is None: bad.append(("shape", show(ret)[:60] if ret else None)); break
                c_ = feval(g[0], env, e)
                some = g[1] if g[1][0] == 'agg' and g[1][2] == 1 else g[2]
                pol = some is g[1]
                if c_ is None or not (some[0] == 'agg' and some[3] and some[3][0][0] == 'agg'): bad.append(("shape", show(ret)[:60])); break
                vis = bool(c_) == pol
                gx, gy = (feval(t_, env, e) for t_ in some[3][0][3])
                if vis != (dot > 0) or gx is None or abs(gx - wx) > 1e-13 or abs(gy - wy) > 1e-13: bad.append(((l0, b0, l, bb), (vis, gx, gy), (dot > 0, wx, wy)))
            else:
                if ret is None or ret[0] != 'agg' or len(ret[3]) < 2 or ret[3][0][0] != 'agg': bad.append(("shape", show(ret)[:60] if ret else None)); break
                gx, gy = (feval(t_, env, e) for t_ in ret[3][0][3]); gd = feval(ret[3][1], env, e)
                gh = feval(ret[3][2], env, e) if len(ret[3]) > 2 else (dot > 0)
                wd = math.atan2(math.hypot(wx, wy), dot)
                if gx is None or gd is None or gh is None or abs(gx - wx) > 1e-13 or abs(gy - wy) > 1e-13 or abs(gd - wd) > 1e-12 or bool(gh) != (dot > 0): bad.append(((l0, b0, l, bb), (gx, gy, gd, gh), (wx, wy, wd, dot > 0)))
        ctx.report(clause, fn + ":orthographic", not bad, "read at %d (centre, position) pairs incl. the far hemisphere: (x, y) = (cos b sin dl, cos b0 sin b - sin b0 cos b cos dl)%s" % (len(pts), ", visible iff the dot product is positive" if kind == "proj" else ", distance = atan2(|(x, y)|, dot)") if not bad else
                   "at (centre lon, lat, position lon, lat) = %s the code gives %s, the projection is %s" % bad[0] if bad[0][0] != "shape" else "unexpected shape %s" % (bad[0][1],), at=b.span, kind="N")


def cone_in_ellipse(ctx, crate):
    """N: a cell (its bounding cone of radius r) is declared inside the elliptical cone only if its
    centre is inside the ellipse SHRUNK by r: `contains_cone` builds the test ellipse from
    sin(a - r), sin(b - r) and the ellipse's own orientation.  (Growing instead of shrinking flags as
    full cells that stick out by up to 2 r.)"""
    from sym import Engine, show
    clause = "full-only-if-inside"
    fns = [p_ for p_ in crate.bodies if p_.endswith("EllipticalCone::contains_cone")]
    if len(fns) != 1:
        ctx.undecided(clause, "contains_cone", "found %s" % fns); return
    b = ctx.anchor(crate, fns[0], clause)
    if b is None: return
    opq = {p_ for p_ in crate.bodies if p_.endswith("Ellipse::from_oriented") or p_.endswith("Ellipse::contains") or (p_.endswith(">::proj") and "ProjSIN" in p_)}
    e = Engine(crate, opaque=opq); e.run(fns[0]); ctx.functions |= e.visited_fns
    fo = [ev for ev in e.events.values() if ev.callee and ev.callee.endswith("Ellipse::from_oriented")]
    S = ('deref', ('p', 'self'))
    fa = ('fld', S, crate.field_index("sph_geom::elliptical_cone::EllipticalCone", "a")); fb = ('fld', S, crate.field_index("sph_geom::elliptical_cone::EllipticalCone", "b"))
    r_ = ('p', 'radius')
    def shrunk(t, axis):
        return t[0] == 'call' and t[1].endswith("::sin") and t[2][0] == ('op', 'sub', 'f64', axis, r_)
    ok = len(fo) == 1 and shrunk(fo[0].args[0], fa) and shrunk(fo[0].args[1], fb)
    # and nothing but the outcome of that test makes the answer `true` (far hemisphere, cell larger than the ellipse: false)
    r0 = Engine(crate, opaque=opq); rr = r0.run(fns[0])
    consts = set(); seen = set()
    def leaves(t, depth=0):
        if t in seen or depth > 10: return
        seen.add(t)
        if t[0] == 'phi':
            for o in r0.phi_ops.get(t, ()): leaves(o, depth + 1)
        elif t[0] == 'c': consts.add(t[2])
    if rr.returns: leaves(rr.ret)
    ctx.report(clause, "contains_cone:true-only-from-the-ellipse-test", rr.returns and 1 not in consts, "the constant answers of contains_cone are all `false` (%s)" % sorted(consts) if 1 not in consts else
               "contains_cone answers the constant `true` on some path (far hemisphere or oversized cell declared inside)", at=b.span, kind="N")
    ctx.report(clause, "contains_cone:ellipse-shrunk-by-the-radius", ok, "the test ellipse has semi-axes sin(a - r), sin(b - r)" if ok else
               "the test ellipse is built from %s" % ([show(a)[:40] for a in fo[0].args[:2]] if fo else "?"), at=b.span, kind="N")


def centre_normalisation(ctx, crate):
    """N: `normalize_lonlat` (applied to the centre of the projection, i.e. of the ellipse) brings a
    longitude outside [0, 2pi) back into it and leaves a position on the sphere where it is: read at
    8 positions (negative, beyond 2pi, in range; several latitudes), one leaf per way through its tests."""
    import math
    from rules.common import explore_leaves, feval
    clause = "projection-formulae"
    fns = [p_ for p_ in crate.bodies if p_.endswith("::normalize_lonlat")]
    if len(fns) != 1: return
    fn = fns[0]
    b = ctx.anchor(crate, fn, clause)
    if b is None: return
    pn = b.param_names()
    if len(pn) != 2:
        ctx.not_decided("normalize_lonlat: unexpected signature"); return
    L0, B0 = ('deref', ('p', pn[0])), ('deref', ('p', pn[1]))
    leaves = explore_leaves(crate, fn, max_tests=8)
    if leaves is None:
        ctx.undecided(clause, fn + ":positions", "cannot enumerate the ways through the tests", at=b.span); return
    bad = []
    for lon, lat in ((-1.0, 0.5), (-0.3, -1.2), (7.0, 0.9), (2 * math.pi, 0.0), (13.0, -0.4), (1.0, 0.5), (6.2, 1.5), (-4.0, 1.0)):
        env = {L0: lon, B0: lat}
        got = None
        for forced, el, rl in leaves:
            if not rl.returns: continue
            ok = True
            for t, c in forced.items():
                v = feval(t, env, el)
                if v is None or bool(v) != bool(c[2]): ok = False; break
            if ok:
                gl = feval(rl.state.heap.get(L0, L0), env, el); gb = feval(rl.state.heap.get(B0, B0), env, el)
                got = (gl, gb); break
        wl = lon % (2 * math.pi); wb = lat
        cyc = lambda a_, b_: min(abs(a_ - b_), 2 * math.pi - abs(a_ - b_))
        if got is None or got[0] is None or got[1] is None or cyc(got[0], wl) > 1e-12 or not (-1e-12 <= got[0] <= 2 * math.pi + 1e-12) or abs(got[1] - wb) > 1e-12: bad.append(((lon, lat), got, (wl, wb)))
    ctx.report(clause, fn + ":same-position-lon-in-[0,2pi)", not bad, "8 positions: longitude brought into [0, 2pi), latitude unchanged" if not bad else
               "normalize_lonlat%s gives %s, the same position is %s — the ellipse is centred somewhere else for every longitude given outside [0, 2pi)" % bad[0], at=b.span, kind="N")


def run(ctx):
    crate = ctx.crate("rel")
    hemisphere(ctx, crate)
    projsin_formulae(ctx, crate)
    cone_in_ellipse(ctx, crate)
    centre_normalisation(ctx, crate)
    n = guard(ctx, crate)
    ctx.floor("guarded-entry-points", n, 5)
    if ctx.tier == "thorough":
        guard(ctx, ctx.crate("dbg"), "[dbg]")
    try:
        from rules import c13_shape
        c13_shape.run(ctx, crate)
    except ImportError:
        pass
    ctx.not_decided("centre kept, circular case sound, tightness (float geometry of the ellipse/cell overlap test)")
    from rules import cancellation
    cancellation.check(ctx, ctx.crate("rel"), ['nested::elliptical_cone_coverage', 'nested::elliptical_cone_coverage_custom', 'nested::Layer::elliptical_cone_coverage', 'nested::Layer::elliptical_cone_coverage_custom'], floor=68)
    from rules import controls
    controls.guard_controls(ctx)
