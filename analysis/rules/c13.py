"""C13 — elliptical cone.  D semi-major axis >= pi/2 rejected on every entry point (E1)."""
import math
from sym import Engine, show
from rules.common import run_fn, float_interval, failed_cmps, param

HALF_PI = math.pi / 2
ENTRIES = ["nested::Layer::elliptical_cone_coverage", "nested::Layer::elliptical_cone_coverage_custom",
           "nested::Layer::elliptical_cone_coverage_internal", "nested::elliptical_cone_coverage",
           "nested::elliptical_cone_coverage_custom"]


def rejects_ge(facts, term, c):
    lo, los, hi, his = float_interval(facts, term)
    if hi < c or (hi == c and his): return True
    for op, k in failed_cmps(facts, term):
        if op == "ge" and k <= c: return True
        if op == "gt" and k < c: return True
    return False


def guard(ctx, crate, tag=""):
    n = 0
    for fn in ENTRIES:
        b = ctx.anchor(crate, fn, "axis-guard")
        if b is None: continue
        # recursion and the geometry helpers are irrelevant to the guard: do not inline them
        small = lambda n: crate.body(n) is not None and len(crate.body(n).blocks) <= 25
        e, r = run_fn(crate, fn, opaque={"nested::Layer::elliptical_cone_coverage_recur", "sph_geom::elliptical_cone::EllipticalCone::new"},
                      inline=lambda n, d: "elliptical_cone_coverage" in n or n == "nested::get_or_create" or small(n))
        ctx.functions |= e.visited_fns
        n += 1
        key = "%s:a%s" % (fn, tag)
        if not r.returns:
            ctx.holds("axis-guard", key, "never returns normally", at=b.span); continue
        ok = rejects_ge(r.facts, param("a"), HALF_PI)
        ctx.report("axis-guard", key, ok,
                   "at every normal return the comparison `a >= pi/2` is known to have failed" if ok else
                   "a path reaches a normal return of %s without `a >= pi/2` having been tested and rejected (a debug-only or missing guard)" % fn,
                   at=b.span, sample={"fn": fn, "failed_comparisons_on_a": failed_cmps(r.facts, param("a")), "config": getattr(crate, "config", "")})
        # the ellipse is only constructed under the guard
        for ev in e.events.values():
            if ev.callee == "sph_geom::elliptical_cone::EllipticalCone::new":
                okc = rejects_ge(ev.facts, param("a"), HALF_PI) or any(rejects_ge(ev.facts, a, HALF_PI) for a in ev.args[2:3])
                ctx.report("axis-guard", "%s:EllipticalCone::new-under-guard%s" % (fn, tag), okc, "EllipticalCone::new is reached only after the guard", at=ev.at)
    return n


def run(ctx):
    crate = ctx.crate("rel")
    n = guard(ctx, crate)
    ctx.floor("guarded-entry-points", n, 5)
    if ctx.tier == "thorough":
        guard(ctx, ctx.crate("dbg"), "[dbg]")
    try:
        from rules import c13_shape
        c13_shape.run(ctx, crate)
    except ImportError:
        pass
    ctx.not_decided("centre kept, circular case sound, tightness (float geometry of the ellipse/cell overlap test)")
    from rules import cancellation
    cancellation.check(ctx, ctx.crate("rel"), ['nested::elliptical_cone_coverage', 'nested::elliptical_cone_coverage_custom', 'nested::Layer::elliptical_cone_coverage', 'nested::Layer::elliptical_cone_coverage_custom'], floor=68)
    from rules import controls
    controls.guard_controls(ctx)
