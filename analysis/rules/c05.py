"""C05 — cone coverage never misses a touched cell: NECESSARY conditions decided on the code.
 N a cell is discarded only when its centre is beyond the OUTER threshold f(radius + cell bound);
 N the outer threshold is f(radius + distance), the same radius for every depth;
 N all four children are visited and the per-depth bound is indexed in step with the depth;
 N the drivers start the recursion at (depth_start | 0, recur index 0) with bounds computed from
   the same start depth, to depth+1, with the same cone;
 N every distance fed to the thresholds is the haversine of the right pair of points
   (sibling agreement of the call sites of squared_half_segment);
 N small-cone branch: neighbours filtered with f(radius + bound), kept cells pushed;
 N custom variant goes through the same internal routine and lowers the depth keeping every
   coarse cell that had a deeper entry."""
from sym import Engine, show, C, walk
from rules.common import strip_generics, cmp_facts, param, run_fn, argv, is_view_of
from rules import haversine
from rules.cone import Recur, Internal, discard_only_beyond_max, minmax_provenance, PUSH, TSHS, L


def recursion(ctx, crate, rec):
    clause = "recursion"
    body = rec.body
    names = body.param_names()
    di, hi, ri = names.index("depth"), names.index("hash"), names.index("recur_depth")
    sc = rec.selfcalls
    ok = len(sc) == 4 and all(ev.args[ri] == ('op', 'add', 'u8', param("recur_depth"), C('u8', 1)) and ev.args[di] == ('op', 'add', 'u8', param("depth"), C('u8', 1)) for ev in sc)
    ctx.report(clause, "recur:four-children-depth-and-bound-index-in-step", ok, "%d self-calls, each with depth+1 and recur_depth+1" % len(sc), at=body.span, kind="N",
               sample={"self_calls": [(show(ev.args[di]), show(ev.args[hi]), show(ev.args[ri])) for ev in sc]})
    # same shs computer, same threshold array, same builder passed down
    same = all(ev.args[names.index("shs_computer")] == param("shs_computer") and ev.args[names.index("shs_minmax")] == param("shs_minmax") for ev in sc)
    ctx.report(clause, "recur:same-cone-and-bounds-passed-down", same, "the closure computing the distance to the cone centre and the threshold array are passed unchanged to the children", at=body.span, kind="N")
    # thresholds are the fields of shs_minmax[recur_depth]
    base = rec.threshold_base()
    okb = base is not None and base[0] == 'idx' and any(x == param("recur_depth") for x in walk(base[2])) and any(x == param("shs_minmax") for x in walk(base[1]))
    ctx.report(clause, "recur:bound-of-own-depth", okb, "thresholds are read from %s" % (show(base) if base else None), at=body.span, kind="N")
    # every recursion / partial push happens under shs <= max
    for ev in sc + [p for p in rec.pushes if p.args[3] != C('bool', 1)]:
        th = rec.threshold_of(ev)
        ctx.report(clause, "recur:%s@%s-under-outer-threshold" % ("descent" if ev.callee == rec.path else "partial-push", ev.site[-1][1]), "max" in th,
                   "reached only after `shs <= max` succeeded" if "max" in th else "reached without the outer-threshold test (facts: %s)" % sorted(th), at=ev.at, kind="N")


def drivers(ctx, crate, rec, it):
    clause = "drivers"
    n = it.n
    rc = it.calls(rec.path)
    names = rec.body.param_names()
    di, ri, mi = names.index("depth"), names.index("recur_depth"), names.index("shs_minmax")
    ctx.floor("recursion-entry-sites", len(rc), 2)
    dists = it.calls(n["dist"]); arrs = it.calls(n["arr"])
    R = param("cone_radius")
    for ev in rc:
        start = ev.args[di]
        ok0 = ev.args[ri] == C('u8', 0)
        # the threshold array passed: &minmax_array built from distances(start, self.depth+1, lon, lat, radius)
        arr_ev = [a for a in arrs if any(x == a.ret for x in walk(ev.args[mi])) or a.facts <= ev.facts and a.facts]
        d_ev = [d for d in dists if d.facts <= ev.facts]
        okd = False; det = ""
        for d in d_ev:
            if d.args[0] == start and d.args[4] == R and d.args[2] == param("cone_lon") and d.args[3] == param("cone_lat") \
                    and d.args[1] == ('op', 'add', 'u8', ('fld', ('deref', param("self")), crate.field_index("nested::Layer", "depth")), C('u8', 1)):
                for a in arrs:
                    if a.args[0] == R and is_view_of(argv(a, 1), d.ret): okd = True
                det = "distances(from=%s, to=%s, radius=%s)" % (show(d.args[0]), show(d.args[1]), show(d.args[4]))
        ctx.report(clause, "internal:recursion-entry(start=%s)" % show(start), ok0 and okd,
                   "recursion entered at depth %s with bound index %s; bounds = %s → to_shs_min_max_array(cone_radius, ·)" % (show(start), show(ev.args[ri]), det), at=ev.at, kind="N",
                   sample={"entry_depth": show(start), "bound_index": show(ev.args[ri]), "bounds": det})
    # same radius everywhere
    for nm in ("has", "best"):
        evs = it.calls(n[nm])
        ctx.report(clause, "internal:%s(cone_radius)" % n[nm], bool(evs) and all(ev.args[0] == R for ev in evs), "%s is asked about the cone's own radius" % n[nm], at=it.body.span, kind="N")
    # small-cone branch: shs_max = f(radius + bound(depth_start, lon, lat, radius)); pushes of kept cells
    ts = it.calls(TSHS); d1 = it.calls(n["dist1"])
    oksm = False
    for t in ts:
        a = t.args[0]
        if a[0] == 'op' and a[1] == 'add' and R in (a[3], a[4]):
            other = a[4] if a[3] == R else a[3]
            for d in d1:
                if d.ret == other and d.args[3] == R and d.args[1] == param("cone_lon") and d.args[2] == param("cone_lat"): oksm = True
    ctx.report(clause, "internal:small-cone-threshold=f(radius+bound)", oksm, "small-cone branch filters the neighbours of the centre cell with to_squared_half_segment(cone_radius + largest_center_to_vertex_distance_with_radius(depth_start, lon, lat, radius))", at=it.body.span, kind="N")
    lower = it.calls("nested::shs_lower_than")
    ctx.report(clause, "internal:small-cone-filter-uses-threshold", bool(lower) and bool(ts) and all(l.args[0] in [t.ret for t in ts] for l in lower), "shs_lower_than(shs_max) receives that threshold", at=it.body.span, kind="N")


def term_is_u64(v):
    from sym import term_ty
    try: return term_ty(v) in ('u64', None)
    except Exception: return True


def custom(ctx, crate):
    clause = "custom-variant"
    fn = L + "cone_coverage_approx_custom"
    b = ctx.anchor(crate, fn, clause)
    if b is None: return
    internal = L + "cone_coverage_approx_internal"; plain = L + "cone_coverage_approx"
    low = "nested::bmoc::BMOCBuilderUnsafe::to_lower_depth_bmoc_packing"
    e = Engine(crate, opaque={internal, plain, low, "nested::get_or_create"}); r = e.run(fn); ctx.functions |= e.visited_fns
    evs = list(e.events.values())
    i_ev = [ev for ev in evs if ev.callee == internal]; p_ev = [ev for ev in evs if ev.callee == plain]; l_ev = [ev for ev in evs if ev.callee == low]
    R = param("cone_radius")
    ok = len(i_ev) == 1 and len(p_ev) == 1 and len(l_ev) == 1 and i_ev[0].args[1:] == [param("cone_lon"), param("cone_lat"), R] and p_ev[0].args[1:] == [param("cone_lon"), param("cone_lat"), R]
    if ok:
        # deeper layer = self.depth + delta_depth, lowered back to self.depth
        sd = ('fld', ('deref', param("self")), crate.field_index("nested::Layer", "depth"))
        goc = [ev for ev in evs if ev.callee == "nested::get_or_create"]
        ok = len(goc) == 1 and goc[0].args[0] == ('op', 'add', 'u8', sd, param("delta_depth")) and l_ev[0].args[1] == sd
    ctx.report(clause, fn + ":same-cone-deeper-layer-lowered-to-own-depth", ok, "delta_depth = 0 → plain variant; otherwise internal(lon, lat, radius) on layer depth+delta, lowered to self.depth", at=b.span, kind="N")
    # to_lower_depth: every deep entry either becomes/extends the pending coarse cell; pending cell flushed at the end
    tl = "nested::bmoc::BMOCBuilderUnsafe::to_lower_depth"
    bl = ctx.anchor(crate, tl, clause)
    if bl is not None:
        e2 = Engine(crate); stores = []; somes = set()
        e2.store_hook = lambda t, v, loc, facts: stores.append((t, v, loc, facts)) if loc[0] == tl else None
        def vh2(v, loc, facts):
            # `pending = Some(hash)` written as an assignment
            if loc[0] == tl and v[0] == 'agg' and v[1] == 'adt:std::option::Option' and v[2] == 1 and v[3] and term_is_u64(v[3][0]): somes.add(loc[2])
        e2.value_hook = vh2
        e2.run(tl); ctx.functions |= e2.visited_fns
        # the pending coarse hash is an Option<u64>: it is (re)set at two places at least (first deep entry, change of
        # coarse cell) and looked at at two places at least (inside the loop, and after it for the final flush) —
        # through replace / `= Some(..)`, and is_some / take / `if let`, whichever way it is written
        name = lambda ev: strip_generics(ev.callee).rsplit("::", 1)[-1] if ev.callee else ""
        is_some = [ev for ev in e2.events.values() if ev.callee and "Option" in strip_generics(ev.callee) and name(ev) in ("is_some", "is_none", "take")]
        replace = [ev for ev in e2.events.values() if ev.callee and "Option" in strip_generics(ev.callee) and name(ev) == "replace"]
        discr = {loc[2] for d_, loc in e2.branches if loc[0] == tl and d_[0] == 'discr'}
        n_set = len(replace) + len(somes); n_look = len({ev.at for ev in is_some}) + len(discr)
        ctx.report(clause, tl + ":pending-coarse-cell-tracked-and-flushed", n_look >= 2 and n_set >= 2,
                   "pending coarse hash: set at %d site(s), looked at at %d (inside the loop and after it)" % (n_set, n_look), at=bl.span, kind="N")


def run(ctx):
    crate = ctx.crate("rel")
    rec = Recur(ctx, crate)
    if not rec.ok:
        ctx.undecided("recursion", "recur:summary", "cannot summarise cone_coverage_approx_recur (shs closure call not identified)"); return
    discard_only_beyond_max(ctx, crate, rec, "discard")
    minmax_provenance(ctx, crate, "thresholds", "thresholds")
    recursion(ctx, crate, rec)
    it = Internal(ctx, crate, rec)
    if it.ok: drivers(ctx, crate, rec, it)
    custom(ctx, crate)
    from rules.c16 import depth0_bound
    depth0_bound(ctx, crate, clause="bounds")
    n = haversine.check_all(ctx, crate)
    ctx.floor("haversine-call-sites", n, 3)      # 4 on the tree it was armed on; two of them may share one closure
    ctx.not_decided("the no-miss claim itself: that the start cells cover the cone, that the per-depth distance bounds are upper bounds, haversine rounding (float geometry)")
    from rules import cancellation
    cancellation.check(ctx, ctx.crate("rel"), ['nested::cone_coverage_approx', 'nested::cone_coverage_approx_custom', 'nested::cone_coverage_approx_flat', 'nested::Layer::cone_coverage_approx', 'nested::Layer::cone_coverage_approx_custom'], floor=69)
    from rules import controls
    controls.haversine_controls(ctx)
    from rules.cone import lowering_shifts
    lowering_shifts(ctx, ctx.crate("rel"))
