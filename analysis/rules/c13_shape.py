"""C13 — shape rules of the elliptical-cone recursion and its driver (necessary conditions).
 N 'full' is pushed only under contains_cone(...) or, at the deepest level, as the conjunction of
   contains() over the vertices of the cell; a cell is discarded only when contains_cone,
   contains and overlap_cone all failed; children visited in z-order with the bound index in step;
 N driver: recursion entered at (depth_start | 0, bound index 0) with bounds from the same start
   depth and the semi-major axis; roots sorted; public variants return through pack."""
from sym import Engine, show, C, walk
from rules.common import strip_generics, param, derives, cmp_facts
from rules.cone import find, PUSH, L

RECUR = L + "elliptical_cone_coverage_recur"
EC = "sph_geom::elliptical_cone::EllipticalCone::"


def run(ctx, crate):
    clause = "ellipse-recursion"
    b = ctx.anchor(crate, RECUR, clause)
    if b is None: return
    opq = {PUSH, EC + "contains_cone", EC + "contains", EC + "overlap_cone", L + "center", L + "vertices", "nested::get_or_create"}
    def emitted(eng, st, args, site):
        st.facts = st.facts | {('emitted',)}; return None
    e = Engine(crate, opaque=opq, models={PUSH: emitted, RECUR: emitted}); r = e.run(RECUR); ctx.functions |= e.visited_fns
    evs = list(e.events.values())
    cc = [ev for ev in evs if ev.callee == EC + "contains_cone"]; ct = [ev for ev in evs if ev.callee == EC + "contains"]; ov = [ev for ev in evs if ev.callee == EC + "overlap_cone"]
    pushes = [ev for ev in evs if ev.callee == PUSH]
    sc = [ev for ev in evs if ev.callee == RECUR]
    full = [p for p in pushes if p.args[3] == C('bool', 1)]
    okf = len(cc) == 1 and len(full) == 1 and ('b', cc[0].ret, True) in full[0].facts
    ctx.report(clause, "recur:full-only-under-contains_cone", okf, "push(depth, hash, true) only after ellipse.contains_cone(centre, bound) returned true", at=b.span, kind="N")
    # the deepest-level flag: conjunction of contains() over the cell's vertices
    comp = [p for p in pushes if p.args[3] != C('bool', 1)]
    okc = len(comp) == 1
    detail = "%d other push sites" % len(comp)
    if okc:
        fl = comp[0].args[3]
        ops = set(); todo = [fl]; seen = set()
        while todo:
            x = todo.pop()
            if x in seen: continue
            seen.add(x)
            if x[0] == 'phi': todo.extend(e.phi_ops.get(x, ()))
            else: ops.add(x)
        inner_contains = {ev.ret for ev in ct}
        def conj_ok(x):
            if x == C('bool', 1): return True
            if x[0] == 'op' and x[1] == 'bitand': return all((y in inner_contains) or y[0] == 'phi' or conj_ok(y) for y in (x[3], x[4]))
            return False
        okc = bool(ops) and all(conj_ok(x) for x in ops) and any(x != C('bool', 1) for x in ops)
        vt = [ev for ev in evs if ev.callee == L + "vertices"]
        okc = okc and len(vt) == 1 and vt[0].args[1] == param("hash")
        sd = ('fld', ('deref', param("self")), crate.field_index("nested::Layer", "depth"))
        okc = okc and any(op == "eq" and pos and a == param("depth") and c == sd for op, a, c, pos in cmp_facts(comp[0].facts))
        detail = "at depth == self.depth the flag is true ∧ contains(v) for the vertices v of self.vertices(hash): %s" % [show(x)[:60] for x in ops]
    ctx.report(clause, "recur:deepest-level-flag=all-vertices-inside", okc, detail, at=b.span, kind="N")
    # discard only if all three tests failed
    rets = [x.ret for x in cc + ov] + [ev.ret for ev in ct if ('b', cc[0].ret, False) in ev.facts and not any(f[0] == 'eqc' for f in ev.facts)] if cc else []
    def assume_any(t):
        return None
    # run once per test assumed true: the cell must be emitted / subdivided
    for name, evl in (("contains_cone", cc), ("contains(centre)", [ev for ev in ct if ev.args[1:] and ev.args[1][0] == 'fld']), ("overlap_cone", ov)):
        if len(evl) < 1:
            ctx.undecided(clause, "recur:kept-if-%s" % name, "call not found"); continue
        tgt = evl[0].ret
        e2 = Engine(crate, opaque=opq, models={PUSH: emitted, RECUR: emitted}, assume=lambda t, tgt=tgt: True if t == tgt else None)
        r2 = e2.run(RECUR)
        ok = r2.returns and ('emitted',) in r2.facts
        ctx.report(clause, "recur:kept-if-%s" % name, ok, "when %s is true every path pushes the cell or visits its four children" % name if ok else "a cell for which %s holds can be dropped" % name, at=b.span, kind="N")
    names = b.param_names()
    ri, di = names.index("recur_depth"), names.index("depth")
    oks = len(sc) == 4 and all(ev.args[ri] == ('op', 'add', 'u8', param("recur_depth"), C('u8', 1)) and ev.args[di] == ('op', 'add', 'u8', param("depth"), C('u8', 1)) and ev.args[names.index("ellipse")] == param("ellipse") and ev.args[names.index("distances")] == param("distances") for ev in sc)
    ctx.report(clause, "recur:children-with-depth-and-bound-index-in-step", oks, "%d self-calls with depth+1, recur_depth+1, same ellipse and bounds" % len(sc), at=b.span, kind="N")
    from rules.c09 import recursion_shape
    recursion_shape(ctx, crate, RECUR, clause=clause)
    # driver
    clause = "ellipse-driver"
    fn = L + "elliptical_cone_coverage_internal"
    bd = ctx.anchor(crate, fn, clause)
    if bd is not None:
        dist = "largest_center_to_vertex_distances_with_radius"
        opq2 = {RECUR, PUSH, dist, "largest_center_to_vertex_distance_with_radius", "has_best_starting_depth", "best_starting_depth", "nested::get_or_create", L + "hash", L + "neighbours",
                L + "n_moc_cell_in_cone_upper_bound", EC + "new", L + "allsky_bmoc_builder", "nested::bmoc::BMOCBuilderUnsafe::new", L + "center", EC + "contains", EC + "overlap_cone"}
        e = Engine(crate, opaque=opq2); e.run(fn); ctx.functions |= e.visited_fns
        evs = [ev for ev in e.events.values() if len(ev.site) == 2]
        rc = [ev for ev in evs if ev.callee == RECUR]; ds = [ev for ev in evs if ev.callee == dist]
        A = param("a")
        sd = ('fld', ('deref', param("self")), crate.field_index("nested::Layer", "depth"))
        n_ok = 0
        for ev in rc:
            start = ev.args[1]
            okd = any(d.args[0] == start and d.args[1] == ('op', 'add', 'u8', sd, C('u8', 1)) and d.args[2:] == [param("lon"), param("lat"), A] and derives(e, ev.args[4], d.ret) for d in ds)
            ok = okd and ev.args[5] == C('u8', 0)
            if ok: n_ok += 1
            ctx.report(clause, "internal:recursion-entry(start=%s)" % show(start), ok, "entered at depth %s, bound index %s, bounds(from=start, to=depth+1, lon, lat, a)" % (show(start), show(ev.args[5])), at=ev.at, kind="N")
        ctx.floor("ellipse-recursion-entries", len(rc), 2)
        for nm in ("has_best_starting_depth", "best_starting_depth"):
            x = [ev for ev in evs if ev.callee == nm]
            ctx.report(clause, "internal:%s(a)" % nm, bool(x) and all(ev.args[0] == A for ev in x), "%s is asked about the semi-major axis" % nm, at=bd.span, kind="N")
        # small-ellipse branch: sorted + dedup before pushing, all pushes partial
        ps = [ev for ev in evs if ev.callee == PUSH]
        sorts = [ev for ev in evs if ev.callee and "sort_unstable" in ev.callee]; dedups = [ev for ev in evs if ev.callee and strip_generics(ev.callee).endswith("Vec::dedup")]
        rpo = bd.rpo()
        pos = lambda ev: rpo.get(ev.site[-1][1], 1 << 30)
        oksm = len(ps) == 1 and ps[0].args[3] == C('bool', 0) and len(sorts) == 1 and len(dedups) == 1 and pos(sorts[0]) < pos(dedups[0]) < pos(ps[0])
        ctx.report(clause, "internal:small-ellipse-branch-sorted-dedup-partial", oksm, "neighbour cells are sorted, then de-duplicated, then pushed with flag false", at=bd.span, kind="N")
        # the filter closure of the small-ellipse branch: a neighbour whose centre is inside the
        # ellipse is kept whatever overlap_cone says (overlap_cone has a special case returning
        # false when the projected point is exactly the origin)
        clos = [p for p in crate.bodies if p.startswith(fn + "::{closure") and EC + "contains" in crate.callees(p)]
        okk = False; nclo = 0
        for cp in clos:
            cb = crate.body(cp)
            ce0 = Engine(crate, opaque={EC + "contains", EC + "overlap_cone", L + "center"})
            from sym import State
            envv = ('sym', ('env',))
            st0 = State(); st0.heap[('tmp', 'env')] = envv
            args0 = [('ref_t', ('tmp', 'env')) if cb.local_ty(1)["k"] == "ref" else envv] + [('p', 'a%d' % i) for i in range(1, cb.arg_count)]
            ce0.run_body(cb, args0, st0, fk=((cp, -1),), stack=(cp,))
            cts = [ev for ev in ce0.events.values() if ev.callee == EC + "contains"]
            if len(cts) != 1: continue
            nclo += 1
            tgt = cts[0].ret
            ce = Engine(crate, opaque={EC + "contains", EC + "overlap_cone", L + "center"}, assume=lambda t, tgt=tgt: True if t == tgt else None)
            st1 = State(); st1.heap[('tmp', 'env')] = envv
            r1 = ce.run_body(cb, args0, st1, fk=((cp, -1),), stack=(cp,))
            if r1.returns and r1.ret == C('bool', 1): okk = True
        ctx.report(clause, "internal:small-ellipse-filter-keeps-centre-inside", okk and nclo == 1,
                   "the neighbour filter returns true whenever ellipse.contains(centre of the cell) holds" if okk else
                   "the neighbour filter of the small-ellipse branch can reject a cell whose centre is inside the ellipse (%d candidate closures)" % nclo, at=bd.span, kind="N")
        sv = [ev for ev in evs if ev.callee and strip_generics(ev.callee).endswith("MainWindMap::sorted_values")]
        ctx.report(clause, "internal:roots-sorted", len(sv) == 1, "recursion roots come from neighbours(..).sorted_values()", at=bd.span, kind="N")
    for fn, want in ((L + "elliptical_cone_coverage", "to_bmoc_packing"), (L + "elliptical_cone_coverage_custom", None)):
        bp = ctx.anchor(crate, fn, clause)
        if bp is None: continue
        fins = {"nested::bmoc::BMOCBuilderUnsafe::to_bmoc_packing", "nested::bmoc::BMOCBuilderUnsafe::to_lower_depth_bmoc_packing", "nested::bmoc::BMOCBuilderUnsafe::to_bmoc",
                "nested::bmoc::BMOCBuilderUnsafe::to_lower_depth_bmoc", L + "elliptical_cone_coverage"}
        e = Engine(crate, opaque=fins | {L + "elliptical_cone_coverage_internal", "nested::get_or_create"}); r = e.run(fn); ctx.functions |= e.visited_fns
        prod = {ev.ret: ev.callee for ev in e.events.values() if ev.callee in fins}
        rets = e.phi_ops.get(r.ret, {r.ret}) if r.returns else set()
        ok = bool(rets) and all(prod.get(x, "").endswith(("to_bmoc_packing", "to_lower_depth_bmoc_packing", "elliptical_cone_coverage")) for x in rets)
        ctx.report(clause, fn.split("::")[-1] + ":result-from-packing-finaliser", ok, "returned value(s) produced by %s" % sorted({str(prod.get(x)) for x in rets}), at=bp.span, kind="N")
