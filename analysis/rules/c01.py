"""C01 — NESTED hash: total, in range, containing.  Decided here (see DESIGN §5 C01):
 D latitude outside [-pi/2, pi/2] (and NaN) is rejected by a panic (E1), both build profiles;
 D the base-cell part of the result is <= 11 for every float input (E8 intervals);
 N multi-turn longitude reduction keeps the in-quarter offset in [-1, 1] (E8 floor-linear forms);
 N the cell number is assembled from (base cell, i, j) through the z-order curve of the layer."""
import math
from sym import Engine, show, walk
from intervals import Intervals
from floorlin import FloorLinear
from rules.common import check_float_domain_guard, events_calling, cval

HALF_PI = math.pi / 2


def find_x(term):
    xs = {t[3] for t in walk(term) if t[0] == 'cast' and t[1] == 'float_to_int' and t[2] == 'u8'}
    return xs


def quarter_is_int_field(e, f, depth=0):
    """f is an integer function of float->int casts: no float arithmetic above the casts"""
    if depth > 24 or not isinstance(f, tuple): return False
    k = f[0]
    if k == 'c': return f[1] != 'f64'
    if k == 'cast': return f[1] == 'float_to_int' or (f[1] == 'int_to_int' and quarter_is_int_field(e, f[3], depth + 1))
    if k == 'op': return f[2] != 'f64' and quarter_is_int_field(e, f[3], depth + 1) and quarter_is_int_field(e, f[4], depth + 1)
    if k == 'un': return quarter_is_int_field(e, f[3], depth + 1)
    if k == 'phi': return all(quarter_is_int_field(e, o, depth + 1) for o in e.phi_ops.get(f, ()) if o != f)
    if k == 'fld' and f[1][0] == 'agg': return quarter_is_int_field(e, f[1][3][f[2]], depth + 1)
    return False


def reduction(ctx, crate, fn, clause, xmax=64.0):
    """offset in [-1,1] and quarter in [0,3] for |lon|*4/pi up to xmax (8 turns = 64)"""
    b = ctx.anchor(crate, fn, clause)
    if b is None: return
    e = Engine(crate); r = e.run(fn)
    ctx.functions |= e.visited_fns
    ret = r.ret
    if ret[0] != 'agg' or len(ret[3]) != 2:
        ctx.undecided(clause, fn + ":shape", "unexpected return shape %s" % show(ret), at=b.span); return
    xs = set()
    for f in ret[3]: xs |= find_x(f)
    for p, ops in e.phi_ops.items():
        for o in ops: xs |= find_x(o)
    if len(xs) != 1:
        ctx.undecided(clause, fn + ":x", "cannot identify the reduced variable (float->u8 casts of %s)" % [show(x) for x in xs], at=b.span); return
    x = xs.pop()
    fl = FloorLinear(x, xmax, e.phi_ops)
    # which field is the float offset, which the integer quarter
    for idx, f in enumerate(ret[3]):
        v = fl.ev(f)
        role = None
        if v is None:
            # the integer field (the quarter) is decided exactly by quarter_table below
            if quarter_is_int_field(e, f): continue
            ctx.undecided(clause, "%s:field%d" % (fn, idx), "cannot evaluate %s as a floor-linear form of %s" % (show(f), show(x)), at=b.span); continue
        lo, hi = fl.conc(v)
        if v.is_int:
            ok = lo >= 0 and hi <= 3
            ctx.report(clause, fn + ":quarter-in-0..3", ok, "quarter = %r concretises to [%s, %s] for x=|lon|*4/pi in [0, %s]" % (v, lo, hi, xmax), at=b.span, kind="N",
                       sample={"fn": fn, "quarter_form": repr(v), "range": [lo, hi]})
        else:
            ok = lo >= -1 and hi <= 1
            d = "in-quarter offset = %r concretises to [%s, %s] for x=|lon|*4/pi in [0, %s]" % (v, lo, hi, xmax)
            if not ok: d += " — the subtracted integer is not the (unmasked) odd floor of x: for lon >= 2*pi the offset leaves [-1, 1] and the cell number is wrong / out of range"
            ctx.report(clause, fn + ":offset-in-pm1", ok, d, at=b.span, kind="N",
                       sample={"fn": fn, "offset_form": repr(v), "range": [lo, hi], "x": show(x)})


def quarter_table(ctx, crate, cfg, fn="nested::Layer::xpm1_and_q", clause="longitude-reduction", kmax=64):
    """D: the quarter returned for every value of floor(|lon|*4/pi) in 0..=kmax and either sign of
    lon is the model's — floor(x/2) mod 4 counted from lon = 0, mirrored (3 - .) for lon < 0 — and
    no case ends in a panic (in the dev profile an integer overflow is one).  A finite case split:
    the float->u8 cast and the sign word are the only inputs of the integer result; each case is
    folded to a constant by the interpreter."""
    from sym import C
    b = ctx.anchor(crate, fn, clause)
    if b is None: return
    e0 = Engine(crate); r0 = e0.run(fn); ctx.functions |= e0.visited_fns
    if not r0.returns or r0.ret[0] != 'agg' or len(r0.ret[3]) != 2:
        ctx.undecided(clause, "%s:quarter-table[%s]" % (fn, cfg), "unexpected return shape", at=b.span); return
    casts = {t for f in r0.ret[3] for t in walk(f) if t[0] == 'cast' and t[1] == 'float_to_int' and t[2] == 'u8'}
    for p, ops in e0.phi_ops.items():
        for o in ops: casts |= {t for t in walk(o) if t[0] == 'cast' and t[1] == 'float_to_int' and t[2] == 'u8'}
    for t, loc in e0.branches: casts |= {y for y in walk(t) if y[0] == 'cast' and y[1] == 'float_to_int' and y[2] == 'u8'}
    def mentions_sign_word(t):
        return any(y[0] == 'op' and y[1] == 'bitand' and C('u64', 1 << 63) in (y[3], y[4]) for y in walk(t)) or \
            (t[0] == 'op' and t[1] in ('lt', 'ge', 'gt', 'le') and ('p', 'lon') in (t[3], t[4]) and (C('f64', 0) in (t[3], t[4]) or C('f64', 1 << 63) in (t[3], t[4])))
    signs = [t for t, loc in e0.branches if loc[0] == fn and any(y == ('p', 'lon') for y in walk(t)) and mentions_sign_word(t)]
    if len(casts) != 1 or len(signs) != 1:
        ctx.undecided(clause, "%s:quarter-table[%s]" % (fn, cfg), "expected one float->u8 cast and one test of the sign of lon, found %d / %d" % (len(casts), len(signs)), at=b.span); return
    cast = casts.pop(); sign = signs[0]
    # the sign test: the masked sign word itself (switch on an integer), its comparison with 0, or lon < 0.0
    SIGN = C('u64', 1 << 63); bits = ('call', 'core::f64::<impl f64>::to_bits', (('p', 'lon'),))
    words = (('op', 'bitand', 'u64', bits, SIGN), ('op', 'bitand', 'u64', SIGN, bits))
    zero_f = C('f64', 0)
    sv = None
    if sign in words: sv = {"+": C('u64', 0), "-": SIGN}
    elif sign[0] == 'op' and sign[1] in ('eq', 'ne') and ((sign[3] in words and sign[4] == C('u64', 0)) or (sign[4] in words and sign[3] == C('u64', 0))):
        sv = {"+": C('bool', 1 if sign[1] == 'eq' else 0), "-": C('bool', 0 if sign[1] == 'eq' else 1)}
    elif sign[0] == 'op' and sign[1] in ('lt', 'ge') and sign[3] == ('p', 'lon') and sign[4] in (zero_f, C('f64', 1 << 63)):
        sv = {"+": C('bool', 0 if sign[1] == 'lt' else 1), "-": C('bool', 1 if sign[1] == 'lt' else 0)}
    elif sign[0] == 'op' and sign[1] in ('gt', 'le') and sign[4] == ('p', 'lon') and sign[3] in (zero_f, C('f64', 1 << 63)):
        sv = {"+": C('bool', 0 if sign[1] == 'gt' else 1), "-": C('bool', 1 if sign[1] == 'gt' else 0)}
    if sv is None:
        ctx.undecided(clause, "%s:quarter-table[%s]" % (fn, cfg), "the test of the sign of lon is not recognised: %s" % show(sign)[:100], at=b.span); return
    bad = []; n = 0
    for sname, sval in sv.items():
        for k in range(kmax + 1):
            e = Engine(crate); e.subst = {cast: C('u8', k), sign: sval}
            r = e.run(fn)
            want = (k >> 1) & 3
            if sname == "-": want = 3 - want
            n += 1
            if not r.returns: bad.append((sname, k, "panics")); continue
            q = [f for f in r.ret[3] if f[0] == 'c' and f[1] in ('u8', 'u32', 'u64', 'usize', 'u16')]
            if len(q) != 1: bad.append((sname, k, "not a constant: %s" % show(r.ret)[:60])); continue
            if q[0][2] != want: bad.append((sname, k, "quarter %d, expected %d" % (q[0][2], want)))
    ctx.report(clause, "%s:quarter-table[%s]" % (fn, cfg), not bad,
               "for floor(|lon|*4/pi) = 0..=%d and both signs the quarter is floor(x/2) mod 4 (mirrored for lon < 0), %d cases, none panics" % (kmax, n) if not bad else
               "%d of %d cases differ from the model: %s" % (len(bad), n, ["lon%s0, floor(x)=%d: %s" % b_ for b_ in bad[:4]]), at=b.span, sample={"cases": n, "profile": cfg})


def base_cell_bound(ctx, crate, clause):
    fn = "nested::Layer::d0h_lh_in_d0c"
    b = ctx.anchor(crate, fn, clause)
    if b is None: return
    e = Engine(crate); r = e.run(fn)
    ctx.functions |= e.visited_fns
    d0h = r.ret[3][0] if r.ret[0] == 'agg' else None
    if d0h is None:
        ctx.undecided(clause, fn + ":d0h", "unexpected return shape", at=b.span); return
    iv = Intervals(e.phi_ops).ival(d0h)
    ok = iv is not None and iv[0] >= 0 and iv[1] <= 11
    ctx.report(clause, fn + ":d0h<=11", ok, "base cell term %s has interval %s for every (lon, lat)" % (show(d0h)[:160], iv), at=b.span,
               sample={"fn": fn, "d0h_interval": list(iv) if iv else None, "branches": [show(o)[:120] for o in e.phi_ops.get(d0h, [])]})


def assembly(ctx, crate, clause):
    fn = "nested::Layer::hash_v2"
    b = ctx.anchor(crate, fn, clause)
    if b is None: return
    e = Engine(crate, opaque={"nested::Layer::build_hash_from_parts", "nested::Layer::d0h_lh_in_d0c"}); r = e.run(fn)
    ctx.functions |= e.visited_fns
    evs = events_calling(e, "nested::Layer::build_hash_from_parts")
    src = events_calling(e, "nested::Layer::d0h_lh_in_d0c")
    if len(evs) != 1 or len(src) != 1:
        ctx.undecided(clause, fn + ":assembly", "expected one call to build_hash_from_parts and one to d0h_lh_in_d0c, found %d/%d" % (len(evs), len(src)), at=b.span); return
    ev = evs[0]; s = src[0].ret
    ok = ev.args[1] == ('fld', s, 0) and r.ret == ev.ret
    ctx.report(clause, fn + ":d0h-provenance", ok, "build_hash_from_parts(self, %s, …) is the returned value; base cell comes from d0h_lh_in_d0c(...).0" % show(ev.args[1]), at=ev.at, kind="N")
    # build_hash_from_parts = (d0h << twice_depth) | zoc.ij2h(i, j)
    e2 = Engine(crate); r2 = e2.run("nested::Layer::build_hash_from_parts")
    ctx.functions |= e2.visited_fns
    zc = [ev for ev in e2.events.values() if ev.callee and ev.callee.endswith("ZOrderCurve::ij2h") or (ev.callee or "").endswith("::i02h") or (ev.callee or "").endswith("::oj2h")]
    t = r2.ret
    shape_ok = t[0] == 'op' and t[1] == 'bitor'
    has_shift = any(x[0] == 'op' and x[1] == 'shl' and x[3] == ('cast', 'int_to_int', 'u64', ('p', 'd0h')) for x in walk(t))
    uses_ij = any(ev.args[1:] and ('p', 'i') in ev.args for ev in zc) and any(('p', 'j') in ev.args for ev in zc)
    ctx.report(clause, "nested::Layer::build_hash_from_parts:shape", shape_ok and has_shift and uses_ij,
               "hash = %s" % show(t)[:200], at=crate.body("nested::Layer::build_hash_from_parts").span, kind="N",
               sample={"hash_term": show(t)[:200]})


def debug_only_on_offset(ctx, clause="longitude-reduction"):
    """N: a comparison that only the dev profile establishes (a `debug_assert!`) on the reduced
    longitude offset must hold on the whole closed range the reduction gives it ([-1, 1], both ends
    reached on the meridians): otherwise legal positions panic in debug builds while release builds
    answer.  Facts at the returns of `d0h_lh_in_d0c` in the dev profile that the release profile does
    not have, whose one side is a floor-linear form of x = |lon| 4/pi and the other a constant."""
    fn = "nested::Layer::d0h_lh_in_d0c"
    facts = {}
    for cfg in ("rel", "dbg"):
        crate = ctx.crate(cfg)
        b = ctx.anchor(crate, fn, clause)
        if b is None: return
        acc = set()
        e = Engine(crate)
        def eh(body, s_, t_, st, fk, acc=acc):
            if t_ != "return" and not (isinstance(t_, int) and body.blocks[t_]["term"]["k"] == "return"): return
            acc.update(f for f in st.facts if f[0] == 'b' and f[1][0] == 'op' and f[1][1] in ('lt', 'le', 'gt', 'ge'))
        e.edge_hook = eh
        e.run(fn); ctx.functions |= e.visited_fns
        facts[cfg] = (acc, e)
    only, e = facts["dbg"][0] - facts["rel"][0], facts["dbg"][1]
    bad = []; n = 0
    for f in only:
        t, truth = f[1], f[2]
        for side, other, flip in ((t[3], t[4], False), (t[4], t[3], True)):
            c = cval(other)
            if c is None: continue
            xs = find_x(side)
            for p_, ops in e.phi_ops.items():
                if any(y == p_ for y in walk(side)):
                    for o in ops: xs |= find_x(o)
            if len(xs) != 1: continue
            fl = FloorLinear(next(iter(xs)), 64.0, e.phi_ops)
            v = fl.ev(side)
            if v is None or v.is_int: continue
            lo, hi = fl.conc(v)
            op = t[1]
            if flip: op = {'lt': 'gt', 'le': 'ge', 'gt': 'lt', 'ge': 'le'}[op]
            if not truth: op = {'lt': 'ge', 'le': 'gt', 'gt': 'le', 'ge': 'lt'}[op]
            n += 1
            holds = (op == 'lt' and hi < c) or (op == 'le' and hi <= c) or (op == 'gt' and lo > c) or (op == 'ge' and lo >= c)
            if not holds: bad.append((show(t)[:80] + (" is %s" % truth), lo, hi, c))
    ctx.report(clause, fn + ":debug-assertions-cover-the-offset-range", not bad,
               "%d comparison(s) established only in the dev profile on the reduced longitude" % n if not bad else
               "the dev profile requires %s, but the reduced offset ranges over [%s, %s] (ends reached on the meridians lon = k pi/2), compared with %s: such positions panic in debug builds" % bad[0], kind="N")


def clamp(ctx, crate, HV2="nested::Layer::hash_v2"):
    clause = "clamp"
    SRC = "nested::Layer::d0h_lh_in_d0c"; BUILD = "nested::Layer::build_hash_from_parts"
    b = ctx.anchor(crate, HV2, clause)
    if b is None: return
    e = Engine(crate, opaque={SRC, BUILD}); e.run(HV2)
    bld = [ev for ev in e.events.values() if ev.callee == BUILD]
    if len(bld) != 1:
        ctx.undecided(clause, HV2 + ":clamp", "expected one call to build_hash_from_parts", at=b.span); return
    self_t = ('p', 'self')
    nside = ('fld', ('deref', self_t), crate.field_index("nested::Layer", "nside"))
    nm1 = ('fld', ('deref', self_t), crate.field_index("nested::Layer", "nside_minus_1"))
    for name, term in (("i", bld[0].args[2]), ("j", bld[0].args[3])):
        g = e.phi_gate.get(term)
        ok = g is not None and g[0][0] == 'op' and g[0][1] == 'eq' and g[0][4] == nside and g[1] == nm1 and g[2] == g[0][3]
        ctx.report(clause, "%s:%s-clamped-to-nside-1" % (HV2, name), ok,
                   "%s' = if %s == nside { nside - 1 } else { %s }" % (name, name, name) if ok else "the coordinate %s passed to build_hash_from_parts is not clamped by its own comparison with nside (gate: %s)" % (name, g and show(g[0])[:80]),
                   at=bld[0].at, kind="N")


def run(ctx):
    cfgs = ["rel"] if ctx.tier == "quick" else ["rel", "dbg"]
    for cfg in cfgs:
        crate = ctx.crate(cfg)
        # every route from a position to a NESTED cell number: the free functions and the Layer methods
        # named hash* / bilinear_interpolation (found in the crate, so a new variant is read too)
        import re as _re
        routes = sorted(p_ for p_ in crate.bodies if _re.match(r"^nested::(Layer::)?(hash\w*|bilinear_interpolation)$", p_)
                        and {"lon", "lat"} <= set(crate.body(p_).param_names()))
        for fn in routes:
            check_float_domain_guard(ctx, crate, fn, "lat", -HALF_PI, HALF_PI, "latitude-guard", key="%s:lat[%s]" % (fn, cfg),
                                     engine_kw={"opaque": {"nested::Layer::neighbours"}} if fn.endswith("bilinear_interpolation") else None)
        ctx.floor("position-to-cell routes[%s]" % cfg, len(routes), 9)
    crate = ctx.crate("rel")
    base_cell_bound(ctx, crate, "base-cell<=11")
    reduction(ctx, crate, "nested::Layer::xpm1_and_q", "longitude-reduction")
    debug_only_on_offset(ctx)
    for cfg in ("rel", "dbg"):
        quarter_table(ctx, ctx.crate(cfg), cfg)
    assembly(ctx, crate, "assembly")
    # the rounding clamp i, j == nside -> nside - 1 (a necessary condition of "below 12*4^depth":
    # h + l can round up to exactly 2.0 on the NE / NW border of a base cell) — shared with C02 P4
    clamp(ctx, crate)
    if crate.body("nested::Layer::hash_dxdy_v2") is not None: clamp(ctx, crate, "nested::Layer::hash_dxdy_v2")     # the sibling route with offsets
    ctx.not_decided("containment of the position in the returned cell; i, j < nside (float rounding of sin/cos/products); behaviour 1-2 ulp around cell borders")
    ctx.assume("C18 (checked separately): ZOrderCurve::ij2h is the bit interleave")
    from rules import cancellation
    cancellation.check(ctx, ctx.crate("rel"), ['nested::hash', 'nested::Layer::hash', 'nested::Layer::hash_v2', 'nested::hash_with_dxdy', 'nested::Layer::hash_with_dxdy'], floor=17)
    from rules import controls
    controls.guard_controls(ctx)
