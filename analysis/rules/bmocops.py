"""Site-level summary of the BMOC merge operators (and / or / xor), shared by C07 and C08.

The operator is analysed once, symbolically (cells, iterators and the builder are opaque); every
emission / cursor event of the main merge loop and of the drain loops is classified by the region
it lies in — the relation between the current left cell L and right cell R established by the
must-facts at the site — and its emitted flag is turned into a truth table over (L.full, R.full).
The table of events per (region, flags) is then compared with the table derived from the
three-valued semantics the operators document."""
from sym import Engine, show, walk, C
from rules.common import strip_generics, cmp_facts

M = "nested::bmoc::"
PUSH = M + "BMOCBuilderUnsafe::push"
NEXT = "<nested::bmoc::BMOCIter as std::iter::Iterator>::next"
INTO = "<& nested::bmoc::BMOC as std::iter::IntoIterator>::into_iter"
CONS = M + "consume_while_overlapped"
CONSP = M + "consume_while_overlapped_and_partial"
DOR = M + "BMOC::not_in_cell_4_or"
DXOR = M + "BMOC::not_in_cell_4_xor"


def plain(n):
    return strip_generics(n).replace("&'a ", "& ") if n else n


def root_local(t):
    """local index of the merge symbol a cell term is rooted at"""
    r = t
    while r[0] in ('fld', 'dc', 'deref', 'idx'): r = r[1]
    if r[0] == 'phi':
        k = r[1]
        try:
            if isinstance(k[1], tuple) and len(k[1]) == 2 and isinstance(k[1][1], int): return k[1][1]
        except Exception: pass
    if r[0] == 'sym' and r[1][0] == 'ret': return ('ret', r)
    return None


class OpSummary:
    def __init__(self, ctx, crate, opname):
        self.ok = False; self.op = opname
        self.path = M + "BMOC::" + opname
        self.body = ctx.anchor(crate, self.path, "anchor")
        if self.body is None: return
        names = {plain(p): p for p in crate.bodies}
        self.names = names
        opq = {names.get(x) for x in (PUSH, NEXT, INTO, CONS, CONSP, DOR, DXOR, M + "BMOCBuilderUnsafe::new", M + "BMOCBuilderUnsafe::to_bmoc", M + "BMOCBuilderUnsafe::to_bmoc_packing")} - {None}
        def adv(eng, st, args, site):
            st.facts = st.facts | {('advanced',)}
            return None
        models = {names[x]: adv for x in (NEXT, CONS, CONSP, DOR, DXOR) if x in names}
        self.e = Engine(crate, opaque=opq, models=models)
        self.back_edges = []
        body = self.body
        rpo = body.rpo()
        def eh(b, s, t, st, fk):
            if b.path == self.path and t != "return" and t in rpo and s in rpo and rpo[t] <= rpo[s]:
                self.back_edges.append((s, t, st.facts))
        self.e.edge_hook = eh
        self.r = self.e.run(self.path)
        ctx.functions |= self.e.visited_fns
        cf = {f["name"]: i for i, f in enumerate(crate.adts["nested::bmoc::Cell"]["variants"][0]["fields"])}
        self.cf = cf
        evs = [ev for ev in self.e.events.values() if len(ev.site) == 2]
        self.evs = evs
        into = [ev for ev in evs if plain(ev.callee) == INTO]
        li = [ev for ev in into if ev.args[0] == ('p', 'self')]; ri = [ev for ev in into if ev.args[0] == ('p', 'other')]
        if len(li) != 1 or len(ri) != 1 or not li[0].dest or not ri[0].dest:
            ctx.undecided("summary", self.path + ":iterators", "cannot identify the two cursors"); return
        self.it_local = {"L": li[0].dest["l"], "R": ri[0].dest["l"]}
        # cell variables: destinations of next() on each iterator
        self.cell_local = {}
        for ev in evs:
            if plain(ev.callee) == NEXT and ev.args[0][0] == 'ref':
                side = "L" if ev.args[0][2] == self.it_local["L"] else ("R" if ev.args[0][2] == self.it_local["R"] else None)
                if side and ev.dest and not ev.dest["p"]: self.cell_local.setdefault(side, set()).add(ev.dest["l"])
        if set(self.cell_local) != {"L", "R"}:
            ctx.undecided("summary", self.path + ":cells", "cannot identify the current-cell variables"); return
        self.ok = True

    # -- term classification -----------------------------------------------------------------------
    def side_of(self, t):
        rl = root_local(t)
        if isinstance(rl, int):
            for s, ls in self.cell_local.items():
                if rl in ls: return s
        if isinstance(rl, tuple):
            # value straight out of the first next() call
            for ev in self.evs:
                if ev.ret == rl[1] and plain(ev.callee) == NEXT and ev.args[0][0] == 'ref':
                    return "L" if ev.args[0][2] == self.it_local["L"] else "R"
        return None

    def field(self, t):
        """('L'|'R', fieldname) if t is a field of a current cell"""
        if t[0] == 'fld' and t[1][0] == 'fld' and t[1][1][0] == 'dc':
            s = self.side_of(t)
            if s:
                for n, i in self.cf.items():
                    if i == t[2]: return (s, n)
        return None

    def iter_side(self, a):
        if a[0] == 'ref':
            for s, l in self.it_local.items():
                if a[2] == l: return s
        return None

    def cell_side(self, a):
        """argument that is a reference to / value of a whole current cell"""
        if a[0] in ('ref_t',):
            return self.side_of(a[1])
        if a[0] == 'ref':
            for s, ls in self.cell_local.items():
                if a[2] in ls: return s
        s = self.side_of(a)
        return s

    def resolve_gated(self, t, env, depth=0):
        """follow gated merges whose condition is decided by env"""
        while t[0] == 'phi' and depth < 8:
            g = self.e.phi_gate.get(t)
            if g is None: break
            c = self.evalflag(g[0], env)
            if c is None: break
            t = g[1] if c else g[2]; depth += 1
        return t

    def cell_origin(self, a, env=None):
        """where a by-value cell argument comes from: ('cur', side) = the current cell of a cursor
        taken out of its Option, ('consumed', side) = the cell returned by the consume helper"""
        src = a
        for _ in range(4):      # look through unwrap / as_ref / as_mut / expect chains
            hop = None
            for ev in self.evs:
                if ev.ret == src and ev.callee and strip_generics(ev.callee).rsplit("::", 1)[-1] in ("unwrap", "as_ref", "as_mut", "expect"):
                    hop = ev.argvals[0] if (ev.argvals and ev.argvals[0] is not None) else ev.args[0]
            if hop is None: break
            src = hop
        if env is not None: src = self.resolve_gated(src, env)
        for ev in self.evs:
            if ev.ret == src and plain(ev.callee) in (CONSP, CONS): return ("consumed", self.iter_side(ev.args[1]))
        s = self.side_of(src)
        if s is None and src[0] == 'phi':
            # the cursor variable itself (an Option<Cell> merge)
            k = src[1]
            try:
                l = k[1][1]
                for sd, ls in self.cell_local.items():
                    if l in ls: s = sd
            except Exception: pass
        return ("cur", s)

    # -- regions -----------------------------------------------------------------------------------
    def region(self, facts):
        """semantic relation between L and R established at a site, or a drain loop, or None"""
        from sym import SWAP, CMP
        raw = [(f[1][1], f[1][3], f[1][4], f[2]) for f in facts if f[0] == 'b' and f[1][0] == 'op' and f[1][1] in CMP]
        drel = {}; hfacts = []
        for op, a, b, pos in raw:
            fa, fb = self.field(a), self.field(b)
            if fa == ("L", "depth") and fb == ("R", "depth"): drel[op] = pos
            elif fa == ("R", "depth") and fb == ("L", "depth"): drel[SWAP[op]] = pos
            else: hfacts.append((op, a, b, pos))
        if not drel and not hfacts: return None, "no relation facts"
        # normalise ge/le into the lt/gt vocabulary used below
        def norm(rel):
            out = dict(rel)
            if "ge" in rel: out["lt"] = not rel["ge"]
            if "le" in rel: out["gt"] = not rel["le"]
            # integers: a succeeded `==` (the Equal arm of `a.cmp(&b)`, or an `if a == b`) excludes both orders
            if rel.get("eq") is True or rel.get("ne") is False: out["lt"] = False; out["gt"] = False
            return out
        drel = norm(drel)
        if drel.get("lt") is True: d = "lt"
        elif drel.get("gt") is True: d = "gt"
        elif drel.get("lt") is False and drel.get("gt") is False: d = "eq"
        else: return None, "depth relation %s" % drel
        lh, rh, ld, rd = ("L", "hash"), ("R", "hash"), ("L", "depth"), ("R", "depth")
        def is_prefix(t, big, small_d, big_d):
            # t == big.hash >> ((big.depth - small.depth) << 1)
            return t[0] == 'op' and t[1] == 'shr' and self.field(t[3]) == big and t[4][0] == 'op' and t[4][1] == 'shl' and t[4][4] == C('i32', 1) \
                and t[4][3][0] == 'op' and t[4][3][1] == 'sub' and self.field(t[4][3][3]) == big_d and self.field(t[4][3][4]) == small_d
        def hmatch(op, a, b):
            if d == "lt" and self.field(a) == lh and is_prefix(b, rh, ld, rd): return op
            if d == "gt" and is_prefix(a, lh, rd, ld) and self.field(b) == rh: return op
            if d == "eq" and self.field(a) == lh and self.field(b) == rh: return op
            return None
        hrel = {}
        for op, a, b, pos in hfacts:
            m = hmatch(op, a, b)
            if m is None:
                m2 = hmatch(SWAP[op], b, a)
                if m2 is not None: m = m2
            if m is not None: hrel[m] = pos
            elif self.field(a) in (lh, rh) or self.field(b) in (lh, rh) or (a[0] == 'op' and a[1] == 'shr') or (b[0] == 'op' and b[1] == 'shr'):
                return None, "unrecognised hash comparison %s %s %s" % (show(a)[:60], op, show(b)[:60])
        hrel = norm(hrel)
        if hrel.get("lt") is True: h = "lt"
        elif hrel.get("gt") is True: h = "gt"
        elif hrel.get("lt") is False and hrel.get("gt") is False: h = "eq"
        else: return ("depth-" + d, None), None      # before the hash comparison
        if h == "lt": return ("L_before", d), None
        if h == "gt": return ("R_before", d), None
        return ({"lt": "L_contains_R", "gt": "R_contains_L", "eq": "equal"}[d], d), None

    # -- flags -------------------------------------------------------------------------------------
    def evalflag(self, t, env, depth=0):
        """boolean value of a flag term under env {('L','is_full'): b, ('R','is_full'): b, 'ov': b}"""
        if depth > 12: return None
        if t[0] == 'c' and t[1] == 'bool': return bool(t[2])
        f = self.field(t)
        if f is not None and f in env: return env[f]
        if t[0] == 'un' and t[1] == 'not':
            v = self.evalflag(t[3], env, depth + 1); return None if v is None else (not v)
        if t[0] == 'phi':
            g = self.e.phi_gate.get(t)
            if g is not None:
                c = self.evalflag(g[0], env, depth + 1)
                if c is None: return None
                return self.evalflag(g[1] if c else g[2], env, depth + 1)
            vals = {self.evalflag(o, env, depth + 1) for o in self.e.phi_ops.get(t, ())}
            if len(vals) == 1: return vals.pop()
            return None
        if t[0] == 'op' and t[2] == 'bool' and t[1] in ('bitand', 'bitor'):
            a, b = self.evalflag(t[3], env, depth + 1), self.evalflag(t[4], env, depth + 1)
            if a is None or b is None: return None
            return (a and b) if t[1] == 'bitand' else (a or b)
        if 'ov' in env and t[0] == 'sym' and t[1] and t[1][0] == 'havoc': return env['ov']
        return None

    def feasible(self, facts, env):
        """are the boolean must-facts of a site consistent with env?"""
        for f in facts:
            if f[0] != 'b' or (f[1][0] == 'op' and f[1][1] in ('lt', 'le', 'gt', 'ge', 'eq', 'ne')): continue
            v = self.evalflag(f[1], env)
            if v is None: continue
            if v != f[2]: return False
        return True

    # -- events --------------------------------------------------------------------------------------
    def describe(self, ev, env):
        n = plain(ev.callee)
        if n == PUSH:
            d, h, fl = ev.args[1], ev.args[2], ev.args[3]
            fd, fh = self.field(d), self.field(h)
            if fd and fh and fd[0] == fh[0] and fd[1] == "depth" and fh[1] == "hash":
                v = self.evalflag(fl, env)
                return ("push", fd[0], v)
            return ("push", "?", show(d)[:40] + "," + show(h)[:40])
        if n == NEXT: return ("adv", self.iter_side(ev.args[0]))
        if n == CONS: return ("consume", self.cell_side(ev.args[0]), self.iter_side(ev.args[1]))
        if n == CONSP: return ("consume_partial", self.cell_side(ev.args[0]), self.iter_side(ev.args[1]))
        if n == DOR:
            c = ev.args[2]
            if ev.argvals and ev.argvals[2] is not None: c = ev.argvals[2]          # passed by reference
            return ("delegate_or", self.cell_side(ev.args[1]), self.cell_origin(c, env), self.iter_side(ev.args[3]))
        if n == DXOR: return ("delegate_xor", self.cell_side(ev.args[1]), self.cell_side(ev.args[2]), self.iter_side(ev.args[3]))
        return None

    def table(self):
        """{(region, lf, rf, ov): sorted list of event descriptors}; plus diagnostics"""
        tab = {}; problems = []
        relevant = [ev for ev in self.evs if plain(ev.callee) in (PUSH, NEXT, CONS, CONSP, DOR, DXOR)]
        for ev in relevant:
            reg, why = self.region(ev.facts)
            if reg is None:
                # initial next() calls and drain loops: classify drains by the cell pushed / cursor advanced
                kind = "outside"
                reg = ("outside", None)
            for lf in (0, 1):
                for rf in (0, 1):
                    for ov in (0, 1):
                        env = {("L", "is_full"): bool(lf), ("R", "is_full"): bool(rf), 'ov': bool(ov)}
                        if not self.feasible(ev.facts, env): continue
                        d = self.describe(ev, env)
                        if d is None: continue
                        tab.setdefault((reg[0], reg[1], lf, rf, ov), []).append(d)
        for k in tab: tab[k] = sorted(tab[k], key=str)
        return tab


def expected(op, region, lf, rf, ov):
    """events the three-valued semantics require in a region (absent < partial < full)"""
    lf, rf, ov = bool(lf), bool(rf), bool(ov)
    E = []
    if region == "L_before":
        if op != "and": E.append(("push", "L", lf))
        E.append(("adv", "L"))
    elif region == "R_before":
        if op != "and": E.append(("push", "R", rf))
        E.append(("adv", "R"))
    elif region == "equal":
        if op == "and": E.append(("push", "L", lf and rf))
        elif op == "or": E.append(("push", "L", lf or rf))
        elif op == "xor":
            if not (lf and rf): E.append(("push", "L", False))
        E += [("adv", "L"), ("adv", "R")]
    elif region in ("L_contains_R", "R_contains_L"):
        big, small = ("L", "R") if region == "L_contains_R" else ("R", "L")
        bf = lf if big == "L" else rf
        if op == "and":
            E += [("push", small, lf and rf), ("adv", small)]
        elif op == "or":
            sf = rf if big == "L" else lf        # flag of the current CONTAINED cell
            if bf: E += [("push", big, True), ("consume", big, small), ("adv", big)]
            elif sf:
                # max(partial, full) = full on the contained cell: it must be re-emitted full inside
                # the partial container (delegation starting at the current contained cell)
                E += [("delegate_or", big, ("cur", small), small), ("adv", big)]
            else:
                E += [("consume_partial", big, small), ("adv", big)]
                E.append(("delegate_or", big, ("consumed", small), small) if ov else ("push", big, False))
        elif op == "xor":
            if bf: E += [("delegate_xor", big, small, small), ("adv", big)]
            else: E += [("push", big, False), ("consume", big, small), ("adv", big)]
    return sorted(E, key=str)
