"""C12 — polygon coverage: NECESSARY conditions decided on the code.
 N a cell found in the vertex-cell list is never discarded (pushed, or all four children visited);
 N the list holds the cell of every polygon vertex (and special point in exact mode), is sorted
   and de-duplicated before it is boxed, and is the list searched (binary search) in every call;
 N 'full' is pushed only when the four cell vertices are inside (n == 4, n = sum of four
   contains() on the four distinct corners returned by vertices(depth, hash));
 N recursion emits in z-order (see C09), roots are sorted, result built by to_bmoc."""
from sym import Engine, show, C, walk
from rules.common import strip_generics, cmp_facts, param, derives
from rules.cone import find, PUSH, L

RECUR = L + "polygon_coverage_recur"
INLIST = "nested::is_in_list"
NVIP = "nested::n_vertices_in_poly"


def recur_rules(ctx, crate):
    clause = "recursion"
    b = ctx.anchor(crate, RECUR, clause)
    if b is None: return
    def emitted(eng, st, args, site):
        st.facts = st.facts | {('emitted',)}; return None
    opaque = {PUSH, INLIST, NVIP, "nested::has_intersection"}
    e = Engine(crate, opaque=opaque, models={PUSH: emitted, RECUR: emitted}); r = e.run(RECUR); ctx.functions |= e.visited_fns
    evs = list(e.events.values())
    inl = [ev for ev in evs if ev.callee == INLIST]
    if len(inl) != 1:
        ctx.undecided(clause, RECUR + ":is_in_list", "expected one call to is_in_list, found %d" % len(inl), at=b.span); return
    listed = inl[0].ret
    names = b.param_names()
    # the searched list is the function's own list parameter, at its own (depth, hash) and the layer depth
    sd = ('fld', ('deref', param("self")), crate.field_index("nested::Layer", "depth"))
    okargs = inl[0].args[0] == param("depth") and inl[0].args[1] == param("hash") and inl[0].args[2] == sd and inl[0].args[3] == param("sorted_poly_vertices_hash")
    ctx.report(clause, RECUR + ":searches-own-cell-in-own-list", okargs, "is_in_list(%s)" % ", ".join(show(a) for a in inl[0].args), at=inl[0].at, kind="N")
    # vertex cells never discarded
    e2 = Engine(crate, opaque=opaque, models={PUSH: emitted, RECUR: emitted}, assume=lambda t: True if t == listed else None)
    r2 = e2.run(RECUR)
    ok = r2.returns and ('emitted',) in r2.facts
    ctx.report(clause, RECUR + ":vertex-cell-never-discarded", ok, "when is_in_list(..) is true every path pushes the cell or visits its four children" if ok else "a cell containing a polygon vertex can be dropped", at=b.span, kind="N")
    # list passed unchanged to the children
    sc = [ev for ev in evs if ev.callee == RECUR]
    li = names.index("sorted_poly_vertices_hash"); pi = names.index("poly")
    same = len(sc) == 8 and all(ev.args[li] == param("sorted_poly_vertices_hash") and ev.args[pi] == param("poly") for ev in sc)
    ctx.report(clause, RECUR + ":same-list-and-polygon-passed-down", same, "%d self-calls pass the same list and polygon" % len(sc), at=b.span, kind="N")
    # full only if n == 4
    nv = [ev for ev in evs if ev.callee == NVIP]
    pushes = [ev for ev in evs if ev.callee == PUSH]
    full = [p for p in pushes if p.args[3] == C('bool', 1)]
    okf = len(nv) == 1 and len(full) == 1
    if okf:
        n = ('fld', nv[0].ret, 0)
        okf = any(op == "eq" and pos and ((a == n and c == C('u8', 4)) or (c == n and a == C('u8', 4))) for op, a, c, pos in cmp_facts(full[0].facts))
        okf = okf and nv[0].args[0] == param("depth") and nv[0].args[1] == param("hash") and nv[0].args[2] == param("poly")
    ctx.report(clause, RECUR + ":full-only-if-4-vertices-inside", okf, "push(depth, hash, true) only under n_vertices_in_poly(depth, hash, poly).0 == 4", at=b.span, kind="N",
               sample={"full_push_facts": [(op, show(a)[:40], show(c)[:20], pos) for op, a, c, pos in cmp_facts(full[0].facts)] if full else None})
    other = [p for p in pushes if p.args[3] != C('bool', 1)]
    ctx.report(clause, RECUR + ":other-pushes-partial", all(p.args[3] == C('bool', 0) for p in other) and len(other) == 2, "%d further push sites, all with flag false" % len(other), at=b.span, kind="N")


def counting_loop(crate, e, r, cev, fs):
    """n is a counter that starts at 0, is incremented by one exactly under `contains(..) == true`, in a
    loop that visits every element of the array of the four corners and is left only when the
    slice iterator is exhausted"""
    n = r.ret[3][0]
    if n[0] != 'phi': return False, "count is not a loop-carried value: %s" % show(n)[:60]
    ops = e.phi_ops.get(n, set())
    def is_step(o): return o[0] == 'op' and o[1] == 'add' and ((o[3] == n and o[4] == C('u8', 1)) or (o[4] == n and o[3] == C('u8', 1)))
    rest = [o for o in ops if not is_step(o) and o != n]
    # constant-folded first rounds {0, 1} are the same counter
    if not any(is_step(o) for o in ops) or not rest or not all(o[0] == 'c' and o[1] == 'u8' for o in rest) or sorted(o[2] for o in rest) != list(range(len(rest))):
        return False, "count merges %s (expected 0 and count + 1)" % sorted(show(o)[:30] for o in ops)
    # every increment happens under contains == true (hook facts at the addition)
    bad = [loc for v, loc, facts in e._c12_steps if not (('b', cev.ret, True) in facts or ('eqc', cev.ret, 1, True) in facts)]
    if not e._c12_steps or bad: return False, "%d increments, %d not guarded by the contains() result" % (len(e._c12_steps), len(bad))
    # the tested point is the element handed out by the slice iterator over the whole corner array
    v = cev.args[1]
    nxt = [ev for ev in e.events.values() if ev.callee and "slice::Iter<" in ev.callee and ev.callee.endswith("as std::iter::Iterator>::next") and ev.ret is not None and any(x == ev.ret for x in walk(v))]
    if len(nxt) != 1 or not nxt[0].argvals or nxt[0].argvals[0] is None: return False, "contains() is not applied to the element of a slice iterator: %s" % show(v)[:60]
    its = [ev for ev in e.events.values() if ev.callee and ev.callee.endswith("slice::<impl [T]>::iter") and ev.argvals and ev.argvals[0] is not None and derives(e, nxt[0].argvals[0], ev.ret)]
    if len(its) != 1: return False, "iterator does not come from one .iter() call"
    arr = its[0].argvals[0]
    if arr[0] != 'agg' or list(arr[3]) != [f.ret for f in fs]: return False, "iterated array is not the array of the four corners"
    # no adaptor between iter() and next(): every call on the way is iter/into_iter/next
    adapt = [ev.callee for ev in e.events.values() if ev.callee and ev.ret is not None and ev is not its[0] and ev is not nxt[0] and derives(e, nxt[0].argvals[0], ev.ret) and derives(e, ev.ret, its[0].ret) and "into_iter" not in ev.callee]
    if adapt: return False, "iterator adaptor %s between iter() and next()" % adapt[0]
    # left only on None
    none = any(f[0] == 'eqc' and f[1] == ('discr', nxt[0].ret) and f[2] == 0 and f[3] for f in r.facts)
    if not none: return False, "the loop can be left before the iterator is exhausted"
    return True, "n = #{v in corners : poly.contains(v)}"


def lon_range_table(ctx, crate):
    """N: the longitude-range test used to count edge crossings is the cyclic HALF-OPEN arc
    [west, east) of the shorter way round between the two vertices — read at every triple of a grid
    of dyadic longitudes, ties included.  Crossing parity (point in polygon) needs every meridian
    through a vertex to be counted for exactly one of the two edges meeting there: a closed or
    doubly open end makes `contains` wrong for every point on the meridian of a vertex, which is
    where HEALPix cell corners sit."""
    import math
    from rules.common import feval
    clause = "lon-range"
    fn = find(crate, "sph_geom::is_in_lon_range")
    b = ctx.anchor(crate, fn, clause) if fn else None
    if b is None:
        if not fn: ctx.undecided(clause, "is_in_lon_range", "function not found")
        return
    e = Engine(crate); r = e.run(fn); ctx.functions |= e.visited_fns
    if not r.returns:
        ctx.undecided(clause, fn + ":shape", "no value", at=b.span); return
    names = b.param_names()
    if len(names) != 3:
        ctx.undecided(clause, fn + ":shape", "expected (point, vertex, vertex)", at=b.span); return
    # the float leaves of the formula, one per parameter: the three longitudes
    leaves = {}
    seen = set()
    def scan(t, depth=0):
        if t in seen or depth > 30: return
        seen.add(t)
        if t[0] == 'phi':
            g = e.phi_gate.get(t)
            for o in (g if g else e.phi_ops.get(t, ())): scan(o, depth + 1)
            return
        if t[0] in ('fld', 'deref', 'call', 'p') and t[0] != 'p':
            ps = [n for n in names if any(y == ('p', n) for y in walk(t))]
            if len(ps) == 1 and not any(y[0] == 'op' for y in walk(t)):
                leaves.setdefault(ps[0], set()).add(t); return
        if t[0] in ('op', 'un', 'cast'):
            for x in t[3:]:
                if isinstance(x, tuple): scan(x, depth + 1)
    scan(r.ret)
    if set(leaves) != set(names) or any(len(v) != 1 for v in leaves.values()):
        ctx.undecided(clause, fn + ":leaves", "cannot identify one longitude per argument: %s" % {k: [show(x) for x in v] for k, v in leaves.items()}, at=b.span); return
    L, A, B = (next(iter(leaves[n])) for n in names)
    grid = [0.0, 0.5, 1.0, 2.5, 3.0, 5.5, 6.0, 6.25]
    bad = []; bad2 = []; n = 0; ties = 0
    for a in grid:
        for b_ in grid:
            if a == b_ or abs(abs(b_ - a) - math.pi) < 1e-9: continue
            lo, hi = min(a, b_), max(a, b_)
            crossing = (hi - lo) > math.pi
            for l in grid:
                want = (l >= hi or l < lo) if crossing else (lo <= l < hi)
                got = feval(r.ret, {L: l, A: a, B: b_}, e)
                if got is None:
                    ctx.undecided(clause, fn + ":eval", "cannot read the formula at (%s; %s, %s)" % (l, a, b_), at=b.span); return
                n += 1
                if l in (a, b_): ties += 1
                if bool(got) != want: bad.append((l, a, b_, bool(got), want, l in (a, b_)))
                # the mirrored convention (west, east] is as good, provided it is used for every edge
                want2 = (l > hi or l <= lo) if crossing else (lo < l <= hi)
                if bool(got) != want2: bad2.append((l, a, b_, bool(got), want2, l in (a, b_)))
    if not bad2: bad = []
    ctx.report(clause, fn + ":half-open-cyclic-arc", not bad and n >= 300,
               "%d triples (point; vertex, vertex) of dyadic longitudes, %d of them ties: the test is `lon in [west, east)` of the shorter arc (or (west, east] throughout)" % (n, ties) if not bad else
               "%d of %d triples wrong, e.g. lon = %s with vertices at %s and %s: code says %s, the half-open arc says %s%s" % (len(bad), n, bad[0][0], bad[0][1], bad[0][2], bad[0][3], bad[0][4], " (a tie: the meridian of a vertex)" if bad[0][5] else ""),
               at=b.span, kind="N", sample={"triples": n, "ties": ties, "mismatches": [list(map(str, x)) for x in bad[:4]]})


def coo3d_invariant(ctx, crate):
    """N: the longitude kept in a `Coo3D` lies in [0, 2pi] (and the latitude in [-pi/2, pi/2]) whatever
    way is taken through its constructors — the fields are private, so the functions of the module
    that build one are all there is.  The crossing-parity test (`is_in_lon_range`, read above on
    longitudes of [0, 2pi)) and the south-pole heuristic compare these longitudes as numbers: a
    vertex or a point kept with a negative longitude is on the wrong side of every edge it is
    compared with.  Each constructor is specialised on the outcomes of its two-way tests (one leaf per
    way through them, so a guard written as one `||` chain, as nested ifs or through a boolean local
    reads the same); on each leaf the range of the stored term under the outcomes of that leaf (E8,
    gated merges of inlined helpers followed) must lie in the interval."""
    import math
    from rules.common import frange_facts, param, explore_leaves
    from sym import CMP
    clause = "coo3d-range"
    ADT = "sph_geom::coo3d::Coo3D"
    if ADT not in crate.adts:
        ctx.undecided(clause, ADT, "type not found"); return
    fields = [f["name"] for f in crate.adts[ADT]["variants"][0]["fields"]]
    if "lon" not in fields or "lat" not in fields:
        ctx.undecided(clause, ADT, "fields %s" % fields); return
    il, ib = fields.index("lon"), fields.index("lat")
    INF = float("inf")
    n = 0; building = set()
    for path in sorted(pp for pp in crate.bodies if pp.startswith("sph_geom::coo3d::") or "sph_geom::coo3d::Coo3D" in pp):
        if "::tests::" in path or "{" in path: continue
        b = crate.body(path)
        # does this function build one itself?
        e = Engine(crate); got = []
        def vh(v, loc, facts, _p=path, _g=got):
            if v[0] == 'agg' and v[1] == 'adt:' + ADT and loc[0] == _p: _g.append(loc)
        e.value_hook = vh
        e.run(path); ctx.functions |= e.visited_fns
        if not got: continue
        building.add(path)
        leaves = explore_leaves(crate, path, max_tests=8)
        key = "%s:lon-in-[0,2pi]" % path
        if leaves is None:
            ctx.undecided(clause, key, "cannot enumerate the ways through the tests of this constructor", at=b.span); continue
        bad = None; nl = 0
        for forced, el, rl_ in leaves:
            if not rl_.returns: continue
            v = rl_.ret
            if not (v[0] == 'agg' and v[1] == 'adt:' + ADT):
                bad = ("?", "the value returned on this way is not a Coo3D literal: %s" % show(v)[:60]); break
            facts = {('b', t, bool(c[2])) for t, c in forced.items() if t[0] == 'op' and t[1] in CMP}
            env = {param(x): (-INF, INF) for x in b.param_names()}
            rl = frange_facts(v[3][il], env, facts, eng=el)
            rb = frange_facts(v[3][ib], env, facts, eng=el)
            eps = 1e-12
            nl += 1
            if not (rl is not None and rb is not None and rl[0] >= 0.0 and rl[1] <= 2 * math.pi + eps and rb[0] >= -math.pi / 2 - eps and rb[1] <= math.pi / 2 + eps):
                bad = (sorted((show(t)[:40], bool(c[2])) for t, c in forced.items() if t[0] == 'op'), "lon = %s ranges over %s, lat = %s over %s" % (show(v[3][il])[:60], rl, show(v[3][ib])[:40], rb)); break
        n += 1
        ctx.report(clause, key, bad is None and nl >= 1,
                   "%d way(s) through the constructor: the stored longitude lies in [0, 2pi], the latitude in [-pi/2, pi/2]" % nl if bad is None else
                   "with the tests %s: %s — outside [0, 2pi] x [-pi/2, pi/2]; the polygon predicate compares these values as numbers of [0, 2pi)" % bad,
                   at=b.span, kind="N")
    ctx.floor("coo3d-constructors", n, 2)


def winding_step(ctx, crate):
    """N: the default south-pole heuristic sums, along the polygon, the longitude differences of
    consecutive vertices taken the SHORT way round, and says `contains` when the total is a full
    turn.  The loop's carried value is extracted (init 0, one gated update per vertex); the update is
    read on a grid of pairs of longitudes of [0, 2pi) and must be the difference wrapped to
    (-pi, pi) (either orientation, the same one throughout); the final test must separate a total
    of 0 from a total of +-2pi."""
    import math
    from rules.common import feval
    clause = "south-pole-heuristic"
    fns = [pp for pp in crate.bodies if pp.endswith("::contains_south_pole") and "Basic" in pp]
    if len(fns) != 1:
        ctx.undecided(clause, "Basic::contains_south_pole", "found %s" % fns); return
    fn = fns[0]
    b = ctx.anchor(crate, fn, clause)
    if b is None: return
    e = Engine(crate); r = e.run(fn); ctx.functions |= e.visited_fns
    key = "Basic::contains_south_pole:sum-of-wrapped-differences"
    # the float value the result depends on through a loop: a merge with a constant initial value
    S = None
    seen = set()
    def find_sum(t, depth=0):
        nonlocal S
        if S is not None or t in seen or depth > 12 or not isinstance(t, tuple): return
        seen.add(t)
        if t[0] == 'phi':
            ops = e.phi_ops.get(t, ())
            if t not in e.phi_gate and len(ops) == 2 and any(o[0] == 'c' and o[1] == 'f64' for o in ops):
                S = t; return
            for o in (e.phi_gate.get(t) or ops): find_sum(o, depth + 1)
            return
        for x in t:
            if isinstance(x, tuple): find_sum(x, depth + 1)
    find_sum(r.ret) if r.returns else None
    if S is None:
        ctx.undecided(clause, key, "no carried float sum found in %s" % (show(r.ret)[:80] if r.returns else "?"), at=b.span); return
    ops = e.phi_ops[S]
    init = [o for o in ops if o[0] == 'c'][0]; body = [o for o in ops if o[0] != 'c'][0]
    leaves = []
    seen2 = set()
    def scan(t, depth=0):
        if t in seen2 or depth > 30 or not isinstance(t, tuple): return
        seen2.add(t)
        if t == S or t[0] == 'c': return
        if t[0] == 'phi':
            for o in (e.phi_gate.get(t) or ()): scan(o, depth + 1)
            return
        if t[0] in ('op', 'un', 'cast'):
            for x in t[3:]: scan(x, depth + 1)
            return
        if t[0] == 'call':
            for x in t[2]: scan(x, depth + 1)
            return
        leaves.append(t)
    scan(body)
    if len(leaves) != 2:
        ctx.undecided(clause, key, "expected two longitudes in the update, found %s" % [show(x)[:60] for x in leaves], at=b.span); return
    A, B = leaves
    # the two longitudes are those of consecutive vertices: one index is the loop counter, the other the
    # value that counter had one round before (a merge of `len - 1`, for the first round, and the counter)
    from rules.common import loop_var_range
    def index_of(t):
        for x in walk(t):
            if x[0] == 'idx': return x[2]
        return None
    ia, ib = index_of(A), index_of(B)
    def is_prev_of(p_, cur):
        if p_ is None or cur is None or p_[0] != 'phi': return False
        ops_ = e.phi_ops.get(p_, ())
        return len(ops_) == 2 and cur in ops_ and any(o[0] == 'op' and o[1] == 'sub' and o[4] == ('c', 'usize', 1) for o in ops_ if o != cur)
    consecutive = is_prev_of(ib, ia) or is_prev_of(ia, ib)
    from mir import f64_from_bits
    grid = [0.0, 0.3, 1.0, 2.0, 3.0, 3.5, 4.5, 5.9, 6.25]
    res = {+1: [], -1: []}; n = 0
    for a in grid:
        for c in grid:
            d = a - c
            if abs(abs(d) - math.pi) < 1e-6: continue
            w = d if abs(d) < math.pi else (d - 2 * math.pi if d > 0 else d + 2 * math.pi)
            got = feval(body, {S: 0.0, A: a, B: c}, e)
            if got is None:
                ctx.undecided(clause, key, "cannot read the update at (%s, %s)" % (a, c), at=b.span); return
            n += 1
            for o in (+1, -1):
                if abs(got - o * w) > 1e-12: res[o].append((a, c, got, o * w))
    bad = min(res.values(), key=len)
    ok_init = f64_from_bits(init[2]) == 0.0
    # the other half of the heuristic: "more vertices in the south than in the north" — a counter from 0,
    # one more per vertex of negative latitude, compared as 2 n > len (read at small values)
    cnt = None
    seen3 = set()
    def is_counter(t):
        ops_ = e.phi_ops.get(t, ())
        steps = [o for o in ops_ if o == ('op', 'add', 'usize', t, ('c', 'usize', 1))]
        rest = [o for o in ops_ if o not in steps]
        return t not in e.phi_gate and len(steps) == 1 and rest and all(o[0] == 'c' and o[1] == 'usize' for o in rest) and min(o[2] for o in rest) == 0
    def find_cnt(t, depth=0):
        nonlocal cnt
        if cnt is not None or t in seen3 or depth > 14 or not isinstance(t, tuple): return
        seen3.add(t)
        if t[0] == 'phi':
            if is_counter(t): cnt = t; return
            for o in (e.phi_gate.get(t) or e.phi_ops.get(t, ())): find_cnt(o, depth + 1)
            return
        for x in t:
            if isinstance(x, tuple): find_cnt(x, depth + 1)
    find_cnt(r.ret)
    okc = False; whyc = "no vertex counter found in the result"
    if cnt is not None:
        # where the counter is incremented: under a succeeded `lat < 0.0` (or `0.0 > lat`) on a field of a vertex
        e4 = Engine(crate); incs = []
        def vh4(v, loc, facts):
            if loc[0] == fn and v[0] == 'op' and v[1] == 'add' and v[2] == 'usize' and v[4] == ('c', 'usize', 1) and v[3][0] in ('phi', 'c'):
                incs.append(set(facts))
        e4.value_hook = vh4
        e4.run(fn)
        zero = lambda t_: t_[0] == 'c' and t_[1] == 'f64' and f64_from_bits(t_[2]) == 0.0
        def neg_lat(facts):
            for f in facts:
                if f[0] == 'b' and f[2] and f[1][0] == 'op' and ((f[1][1] == 'lt' and zero(f[1][4]) and f[1][3][0] == 'fld') or (f[1][1] == 'gt' and zero(f[1][3]) and f[1][4][0] == 'fld')): return True
            return False
        lat_test = bool(incs) and all(neg_lat(fs) for fs in incs)
        gr = e.phi_gate.get(r.ret) if r.ret[0] == 'phi' else None
        final = None
        for cand in ([gr[1], gr[2]] if gr else [r.ret]):
            if any(x == cnt for x in walk(cand)): final = cand
        LEN = [x for x in walk(final) if x != cnt and x[0] in ('sym', 'call') and not any(y == cnt for y in walk(x))] if final is not None else []
        okf = False
        if final is not None and len(LEN) >= 1:
            okf = True
            for nn, ll in ((0, 3), (1, 3), (2, 3), (2, 4), (3, 4), (3, 5), (2, 5)):
                v = feval(final, {cnt: nn, LEN[0]: ll}, e)
                if v is None or bool(v) != (2 * nn > ll): okf = False
        okc = bool(lat_test) and okf
        whyc = "the counter adds one per vertex of negative latitude; the result requires 2 n > number of vertices" if okc else "vertex counter: %d increment site(s), all under `lat < 0`: %s; final test %s reads as 2 n > len: %s" % (len(incs), lat_test, show(final)[:60] if final else None, okf)
    ctx.report(clause, "Basic::contains_south_pole:more-vertices-south-than-north", okc, whyc, at=b.span, kind="N")
    # the final test: false on a total of 0, true on a total of +-2pi (the vertex count being favourable)
    ctx.report(clause, key, not bad and ok_init and n >= 70 and consecutive,
               "%d pairs of longitudes: the update adds the difference wrapped to (-pi, pi) of consecutive vertices (last-to-first included); the sum starts at 0" % n if not bad and ok_init and consecutive else
               ("the two longitudes are not those of consecutive vertices (indices %s and %s)" % (show(ia)[:40] if ia else None, show(ib)[:40] if ib else None) if not bad and ok_init else
                "the sum starts at %r" % f64_from_bits(init[2]) if not ok_init else
                "%d of %d pairs wrong, e.g. longitudes %s and %s add %r to the sum, the short way round is %r — a polygon that crosses lon = 0 gets a total of +-2pi and is turned inside out" % (len(bad), n, bad[0][0], bad[0][1], bad[0][2], bad[0][3])),
               at=b.span, kind="N", sample={"pairs": n, "mismatches": [list(map(str, x)) for x in bad[:3]]})


def cell_edges(ctx, crate):
    """N: `has_intersection` (a cell with no vertex in the polygon, or four, is decided by whether
    one of its edges crosses the polygon) tests the four edges of the cell: with the vertices in the
    order S, E, N, W of `vertices`, the pairs handed to `intersect_great_circle_arc` are the four
    cyclic neighbours {S,E}, {E,N}, {N,W}, {W,S}, in any order and orientation.  A repeated or a
    diagonal pair leaves one edge untested: a polygon crossing only that edge flags the cell wrongly."""
    clause = "cell-edges"
    fns = [p_ for p_ in crate.bodies if p_ == "nested::has_intersection"]
    iga = {p_ for p_ in crate.bodies if p_.endswith("Polygon::intersect_great_circle_arc")}
    if not fns or not iga:
        ctx.undecided(clause, "has_intersection", "function not found"); return
    b = ctx.anchor(crate, fns[0], clause)
    if b is None: return
    e = Engine(crate, opaque=iga); e.run(fns[0]); ctx.functions |= e.visited_fns
    pairs = []
    for ev in e.events.values():
        if ev.callee in iga and len(ev.args) == 3:
            idx = []
            for a in ev.args[1:]:
                if a[0] == 'ref' and len(a[3]) == 1 and a[3][0][0] == 'i': idx.append((a[2], a[3][0][1]))
                else: idx.append(None)
            pairs.append(idx)
    if len(pairs) != 4 or any(p_[0] is None or p_[1] is None for p_ in pairs):
        ctx.not_decided("has_intersection: which pairs of vertices are tested (calls not in the form f(&v[a], &v[b]))"); return
    ok = all(p_[0][0] == p_[1][0] for p_ in pairs)
    got = sorted(tuple(sorted((p_[0][1], p_[1][1]))) for p_ in pairs) if ok else None
    ok = ok and got == [(0, 1), (0, 3), (1, 2), (2, 3)]
    if ok:
        # and the answer is their disjunction: read on the 16 combinations of outcomes
        from rules.common import feval, explore_leaves
        calls = [ev.ret for ev in e.events.values() if ev.callee in iga]
        lv = explore_leaves(crate, fns[0], opaque=iga, max_tests=6)
        from rules.common import feval_leaves
        okor = lv is not None
        if okor:
            for m in range(16):
                env = {c_: bool((m >> k_) & 1) for k_, c_ in enumerate(calls)}
                # a leaf forces the outcomes it tested; the others are not evaluated on that path (short circuit)
                got = None
                for forced, el, rl in lv:
                    if all(bool(env.get(t_, None)) == bool(cv[2]) for t_, cv in forced.items() if t_ in env) and all(t_ in env for t_ in forced):
                        got = feval(rl.ret, env, el) if rl.returns else None; break
                if got is None or bool(got) != (m != 0): okor = False; break
        ctx.report(clause, "has_intersection:any-of-the-four", okor, "true iff at least one of the four edge tests is (16 combinations)" if okor else "the four edge tests are not combined by `or`", at=b.span, kind="N")
    ctx.report(clause, "has_intersection:four-edges", ok, "edges tested: {S,E}, {E,N}, {N,W}, {W,S}" if ok else "pairs of vertices tested: %s — not the four edges of the cell" % (got if got is not None else pairs), at=b.span, kind="N")


def bounding_centre(ctx, crate):
    """N: the centre of `bounding_cone` is the normalised sum of the points: the three components
    handed to `UnitVect3::new` are (X, Y, Z) / sqrt(X^2 + Y^2 + Z^2) of one and the same triple (read at
    (1, 2, 2), whose norm is 3).  A centre that is not a unit vector makes every distance to it wrong,
    and the cone no longer contains the polygon."""
    from rules.common import feval
    clause = "bounding-cone"
    fns = [p_ for p_ in crate.bodies if p_.endswith("Cone::bounding_cone")]
    if len(fns) != 1: return
    b = ctx.anchor(crate, fns[0], clause)
    if b is None: return
    e = Engine(crate); e.run(fns[0]); ctx.functions |= e.visited_fns
    nw = [ev for ev in e.events.values() if len(ev.site) == 2 and ev.callee and "UnitVect3" in ev.callee and ev.callee.endswith("::new") and len(ev.args) == 3]
    if len(nw) != 1:
        ctx.not_decided("bounding_cone: how the centre is normalised (no single UnitVect3::new call)"); return
    args = nw[0].args
    nums = [a[3] if a[0] == 'op' and a[1] == 'div' else None for a in args]
    dens = [a[4] if a[0] == 'op' and a[1] == 'div' else None for a in args]
    ok = all(n_ is not None for n_ in nums) and dens[0] == dens[1] == dens[2] and len(set(nums)) == 3
    val = None
    if ok:
        val = feval(dens[0], {nums[0]: 1.0, nums[1]: 2.0, nums[2]: 2.0}, e)
        ok = val is not None and abs(val - 3.0) < 1e-15
    ctx.report(clause, "bounding_cone:centre-normalised", ok, "centre = (X, Y, Z) / sqrt(X^2 + Y^2 + Z^2)" if ok else "the centre is %s; its divisor read at (1, 2, 2) is %s, not 3" % ([show(a)[:50] for a in args], val), at=b.span, kind="N")


def arc_test(ctx, crate):
    """N: `intersect_great_circle_arc` (behind `has_intersection`): the comparisons that order two points
    read the same component of both (longitude against longitude), and the function can answer both
    `true` (an edge is crossed) and `false`."""
    clause = "cell-edges"
    fns = [p_ for p_ in crate.bodies if p_.endswith("Polygon::intersect_great_circle_arc")]
    if len(fns) != 1: return
    fn = fns[0]
    b = ctx.anchor(crate, fn, clause)
    if b is None: return
    e = Engine(crate); r = e.run(fn); ctx.functions |= e.visited_fns
    ADT = "sph_geom::coo3d::Coo3D"
    nf = len(crate.adts[ADT]["variants"][0]["fields"]) if ADT in crate.adts else 0
    def comp(t):
        # a field of a Coo3D reached through a reference / an element of the vertex slice
        if t[0] == 'fld' and isinstance(t[2], int) and t[2] < nf and t[1][0] in ('deref', 'idx', 'phi', 'fld', 'dc'): return t[2]
        return None
    mixed = []; same = 0
    for d, loc in e.branches:
        if loc[0] != fn or d[0] != 'op' or d[1] not in ('lt', 'le', 'gt', 'ge'): continue
        ca, cb = comp(d[3]), comp(d[4])
        if ca is None or cb is None: continue
        if ca != cb: mixed.append(show(d)[:80])
        else: same += 1
    consts = set(); seen = set()
    def leaves(t, depth=0):
        if t in seen or depth > 10: return
        seen.add(t)
        if t[0] == 'phi':
            for o in e.phi_ops.get(t, ()): leaves(o, depth + 1)
        elif t[0] == 'c' and t[1] == 'bool': consts.add(t[2])
    if r.returns: leaves(r.ret)
    ok = not mixed and {0, 1} <= consts
    ctx.report(clause, "intersect_great_circle_arc:same-component-and-both-answers", ok,
               "%d ordering test(s) compare the same component of the two points; the function can answer true and false (constants %s)" % (same, sorted(consts)) if ok else
               ("an ordering test compares different components: %s" % mixed if mixed else "the function cannot answer both true and false (constant answers %s)" % sorted(consts)), at=b.span, kind="N")


def count_rule(ctx, crate):
    clause = "vertex-count"
    b = ctx.anchor(crate, NVIP, clause)
    if b is None: return
    contains = find(crate, "sph_geom::Polygon::contains")
    e = Engine(crate, opaque={contains, "nested::vertices", "sph_geom::coo3d::Coo3D::from_sph_coo"})
    e._c12_steps = []
    def vh(v, loc, facts):
        if v[0] == 'op' and v[1] == 'add' and v[2] == 'u8' and loc[0] == NVIP: e._c12_steps.append((v, loc, set(facts)))
    e.value_hook = vh
    r = e.run(NVIP); ctx.functions |= e.visited_fns
    evs = list(e.events.values())
    cs = [ev for ev in evs if ev.callee == contains]
    vt = [ev for ev in evs if ev.callee == "nested::vertices"]
    fs = [ev for ev in evs if ev.callee == "sph_geom::coo3d::Coo3D::from_sph_coo"]
    ok = len(cs) == 4 and len(vt) == 1 and len(fs) == 4 and r.returns and r.ret[0] == 'agg'
    detail = "%d contains, %d vertices(), %d from_sph_coo" % (len(cs), len(vt), len(fs))
    if len(cs) == 1 and len(vt) == 1 and len(fs) == 4 and r.returns and r.ret[0] == 'agg':
        # the other idiom: a counting loop   n = 0; for v in corners.iter() { if poly.contains(v) { n += 1 } }
        okl, why = counting_loop(crate, e, r, cs[0], fs)
        corner_src = {show(f.args[0]) for f in fs}
        okl = okl and len(corner_src) == 4 and vt[0].args == [param("depth"), param("hash")] and r.ret[3][1][0] == 'agg' and list(r.ret[3][1][3]) == [f.ret for f in fs]
        ctx.report(clause, NVIP + ":sum-of-contains-on-4-distinct-corners", okl, detail + "; counting loop: " + why, at=b.span, kind="N")
        return
    if ok:
        # n = sum of the four contains results (cast to u8)
        n = r.ret[3][0]
        leaves = [x for x in walk(n) if x in [c.ret for c in cs]]
        ok = sorted(map(str, set(leaves))) == sorted(map(str, {c.ret for c in cs})) and all(x[0] in ('op', 'cast', 'sym') for x in walk(n) if x[0] != 'c') \
            and all(x[1] == 'add' for x in walk(n) if x[0] == 'op')
        # each contains() looks at a distinct element of the array of the four corners
        arr = r.ret[3][1]
        corner_src = set()
        for f in fs:
            # from_sph_coo(l, b) with (l, b) = vertices(depth, hash)[k]
            a0 = f.args[0]
            ks = [x for x in walk(a0) if x[0] == 'idx' or (x[0] == 'fld' and x[1] == vt[0].ret)]
            corner_src.add(show(a0))
        ok = ok and len(corner_src) == 4 and vt[0].args == [param("depth"), param("hash")]
        detail = "n = %s over corners %s of vertices(depth, hash)" % (show(n)[:120], sorted(corner_src))
    ctx.report(clause, NVIP + ":sum-of-contains-on-4-distinct-corners", ok, detail, at=b.span, kind="N")


def driver(ctx, crate):
    clause = "driver"
    fn = L + "polygon_coverage"
    b = ctx.anchor(crate, fn, clause)
    if b is None: return
    hv = find(crate, L + "hashs_vec")
    opaque = {RECUR, hv, "nested::get_or_create", L + "hash", L + "neighbours", "has_best_starting_depth", "best_starting_depth",
              "special_points_finder::arc_special_points", "nested::bmoc::BMOCBuilderUnsafe::new", "nested::bmoc::BMOCBuilderUnsafe::to_bmoc"}
    opaque |= {p for p in crate.bodies if p.startswith("sph_geom::")}
    e = Engine(crate, opaque=opaque); r = e.run(fn); ctx.functions |= e.visited_fns
    evs = list(e.events.values())
    rpo = b.rpo()
    def pos(ev): return rpo.get(ev.site[1][1], 1 << 30) if len(ev.site) >= 2 else 1 << 30
    hvs = [ev for ev in evs if ev.callee == hv and len(ev.site) == 2]
    appends = [ev for ev in evs if ev.callee and strip_generics(ev.callee).endswith("Vec::append") and len(ev.site) == 2]
    sorts = [ev for ev in evs if ev.callee and "sort_unstable" in ev.callee and len(ev.site) == 2]
    dedups = [ev for ev in evs if ev.callee and strip_generics(ev.callee).endswith("Vec::dedup") and len(ev.site) == 2]
    boxed = [ev for ev in evs if ev.callee and strip_generics(ev.callee).endswith("Vec::into_boxed_slice") and len(ev.site) == 2]
    rc = [ev for ev in evs if ev.callee == RECUR and len(ev.site) == 2]
    verts = [ev for ev in evs if ev.callee and strip_generics(ev.callee) == "sph_geom::Polygon::vertices"]
    ok = len(rc) == 1 and len(hvs) >= 2 and len(appends) == 1
    detail = "%d recursion entry, %d hashs_vec, %d append, %d sort_unstable, %d dedup, %d into_boxed_slice" % (len(rc), len(hvs), len(appends), len(sorts), len(dedups), len(boxed))
    if ok:
        names = crate.body(RECUR).param_names()
        lst = rc[0].args[names.index("sorted_poly_vertices_hash")]
        # the list argument derives from the boxed slice of the vertex-hash vector
        main_hv = min(hvs, key=pos)
        from_all_vertices = any(v.ret is not None and derives(e, main_hv.args[1], v.ret) for v in verts)
        # the LAST sort over that vector precedes the boxing and follows the append
        vec_sorts = [s for s in sorts if pos(s) > max(pos(a) for a in appends)]
        box = [bx for bx in boxed if derives(e, lst, bx.ret)]
        ok = bool(box) and bool(vec_sorts) and from_all_vertices and all(pos(s) < pos(box[0]) for s in vec_sorts) and any(pos(d) > pos(vec_sorts[0]) and pos(d) < pos(box[0]) for d in dedups) \
            and all(b.dominates(s.site[1][1], box[0].site[1][1]) for s in vec_sorts)
        detail += "; list = boxed(sorted+dedup(hashs_vec(poly.vertices()) ++ special points))"
    ctx.report(clause, fn + ":vertex-list-complete-sorted-before-search", ok, detail, at=b.span, kind="N", sample={"driver": detail})
    # roots: (0..12).collect() or values_vec + sort_unstable, iterated in order
    root_sorts = [s for s in sorts if appends and pos(s) < min(pos(a) for a in appends)]
    collects = [ev for ev in evs if ev.callee and "Iterator::collect" in strip_generics(ev.callee) and len(ev.site) == 2]
    okr = len(root_sorts) == 1 and len(collects) >= 1
    if okr:
        rng = [ev for ev in collects if ev.args and ev.args[0][0] == 'agg' and ev.args[0][1] == 'adt:std::ops::Range' and ev.args[0][3] == (C('u64', 0), C('u64', 12))]
        okr = len(rng) == 1
    ctx.report(clause, fn + ":roots-sorted", okr, "roots are (0..12).collect() or neighbours(..).values_vec() followed by sort_unstable", at=b.span, kind="N")
    # every vertex hashed with the layer's own hash
    bh = ctx.anchor(crate, hv, clause)
    if bh is not None:
        clo = [p for p in crate.bodies if p.startswith(hv.split("::<")[0]) and "{closure" in p and "hashs_vec" in p]
        okh = False
        for cp in clo:
            if L + "hash" in crate.callees(cp): okh = True
        ctx.report(clause, "hashs_vec:maps-every-element-through-Layer::hash", okh, "closure of hashs_vec calls Layer::hash (closures: %s)" % clo, at=bh.span, kind="N")
    # is_in_list binary-searches the list (needs sortedness)
    bi = ctx.anchor(crate, INLIST, clause)
    if bi is not None:
        e3 = Engine(crate); e3.run(INLIST); ctx.functions |= e3.visited_fns
        bs = [ev for ev in e3.events.values() if ev.callee and "binary_search" in ev.callee]
        ctx.report(clause, INLIST + ":binary-search-on-the-list", len(bs) == 1 and bs[0].args[0] == param("sorted_hashs"), "is_in_list binary-searches its list parameter", at=bi.span, kind="N")
    tb = [ev for ev in evs if ev.callee == "nested::bmoc::BMOCBuilderUnsafe::to_bmoc"]
    ctx.report(clause, fn + ":returns-builder.to_bmoc", len(tb) == 1 and r.returns and r.ret == tb[0].ret, "the result is bmoc_builder.to_bmoc()", at=b.span, kind="N")


def bounding_cone_coverage(ctx, crate):
    """N: the radius of the bounding cone is the maximum over ALL given points (the start cells are
    chosen from it; a vertex left out of the maximum can fall outside every start cell).
    Decided for the recognised iteration idioms (index loop over a..len with the first indices
    handled apart, iteration over the slice itself, windows(w) with a constant element); other
    idioms are recorded as not decided."""
    clause = "bounding-cone"
    fn = "sph_geom::cone::Cone::bounding_cone"
    b = ctx.anchor(crate, fn, clause)
    if b is None: return
    e = Engine(crate); e.run(fn); ctx.functions |= e.visited_fns
    P = param("points")
    evs = [ev for ev in e.events.values() if len(ev.site) == 2]
    dist = [ev for ev in evs if ev.callee and ev.callee.endswith("squared_euclidean_dist")]
    lens = {ev.ret for ev in evs if ev.callee and strip_generics(ev.callee).endswith("::len") and ev.args and ev.args[0] == P}
    ranges = {}     # iterator symbol -> start constant, for Range{a, len(points)}
    for ev in evs:
        if ev.callee and "IntoIterator>::into_iter" in strip_generics(ev.callee) and ev.args and ev.args[0][0] == 'agg' and ev.args[0][1] == 'adt:std::ops::Range':
            a, bnd = ev.args[0][3]
            if a[0] == 'c' and bnd in lens: ranges[ev.ret] = a[2]
    nexts = {}      # next() result -> iterator value it was called on
    for ev in evs:
        if ev.callee and ev.callee.endswith("::next") and ev.argvals and ev.argvals[0] is not None:
            nexts[ev.ret] = ev.argvals[0]
    consts = set(); from_a = None; whole = False; unknown = []
    for ev in dist:
        a = ev.args[1]
        t = a[1] if a[0] == 'ref_t' else a
        # &*points[idx]
        idxs = [x for x in walk(t) if x[0] == 'idx' and any(y == P for y in walk(x[1]))]
        if len(idxs) == 1:
            i = idxs[0][2]
            if i[0] == 'c': consts.add(i[2]); continue
            src = [x for x in walk(i) if x in nexts]
            if src:
                it = nexts[src[0]]
                # the iterator value may have been havocked by earlier next() calls: follow to its origin
                from rules.common import derives
                for rsym, a0 in ranges.items():
                    if derives(e, it, rsym): from_a = a0 if from_a is None else min(from_a, a0)
                continue
        unknown.append(show(a)[:60])
    # iteration over the slice itself with the distance in the loop body
    for ev in evs:
        if ev.callee and "into_iter" in ev.callee and ev.args and ev.args[0] == P:
            its = ev.ret
            for d in dist:
                if any(x in nexts and derives_from(e, nexts[x], its) for x in walk(d.args[1])): whole = True
    wins = [ev for ev in evs if ev.callee and strip_generics(ev.callee).endswith("::windows") and ev.args and ev.args[0] == P]
    if not dist and wins:
        ctx.report(clause, fn + ":all-points-in-the-maximum", False,
                   "the maximum distance is taken over windows(%s) of the points: the last %s point(s) can only enter through a constant element of each window and the trailing ones never do" % (show(wins[0].args[1]), "w-1"), at=b.span, kind="N"); return
    if not dist or unknown:
        ctx.not_decided("bounding_cone's maximum is not written with a recognised iteration idiom: coverage of all points not decided"); return
    full = whole or (from_a is not None and all(k in consts for k in range(from_a)))
    ctx.report(clause, fn + ":all-points-in-the-maximum", full,
               "distance taken at indices %s and over %s: every point enters the maximum" % (sorted(consts), "the whole slice" if whole else "%s..len" % from_a) if full else
               "indices covered: constants %s, range %s..len: some points never enter the maximum" % (sorted(consts), from_a), at=b.span, kind="N")


def derives_from(e, x, src):
    from rules.common import derives
    return derives(e, x, src)


def small_circle_on_arc(ctx, crate):
    """N (exact mode): `intersect_small_circle` has two candidate points per case (the great circle meets the
    parallel twice) and keeps the one lying ON the arc p1-p2: a candidate v is accepted only after BOTH
    `p1.v >= p1.p2` and `p2.v >= p1.p2` (each end at most one arc length away).  Read on the ordering
    comparisons of the function, of its closures and of the private helpers of the module it calls, as
    polynomials in the components read through the `Vec3` accessors (every other operand is an atom): a
    comparison is an *end test* when it has the shape  R.v - T >= 0  with R one receiver of accessors and v
    another receiver or three atoms; every end test must be paired with one on the same v, the same T and the
    OTHER receiver, and there must be at least one pair.  A weaker test (one end only, the sum of the two
    products against 2 p1.p2) accepts the mirror root beyond an end of the arc, whose cell is pushed
    unconditionally."""
    from poly import Poly
    from mir import f64_from_bits
    from fractions import Fraction
    clause = "special-points"
    fns = [p_ for p_ in crate.bodies if p_.endswith("special_points_finder::intersect_small_circle")]
    if len(fns) != 1: return
    fn = fns[0]
    b = ctx.anchor(crate, fn, clause)
    if b is None: return
    from mir import callee_name
    VEC = ("dot_product", "cross_product", "new_unsafe", "normalized", "opposite")
    bodies = [fn] + sorted(p_ for p_ in crate.bodies if p_.startswith(fn + "::{closure"))
    for _, t in b.calls():
        c = callee_name(t["func"])
        if c and c.startswith("special_points_finder::") and c != fn and c in crate.bodies and c.split("::")[-1] not in VEC and c not in bodies: bodies.append(c)
    tests = []          # (body, receiver A, candidate key, T poly, text)
    for body in bodies:
        e = Engine(crate); r = e.run(body); ctx.functions |= e.visited_fns
        recv = {}; acc = {}
        for ev in e.events.values():
            if ev.callee and ev.callee.split("::")[-1] in ("x", "y", "z") and "Vec3" in ev.callee and ev.args and ev.ret is not None:
                k = recv.setdefault(ev.args[0], len(recv))
                acc[ev.ret] = ("R%d" % k, ev.callee.split("::")[-1])
        atoms = {}
        # the coordinates a candidate is built from are operands in their own right, however they were computed
        for ev in e.events.values():
            if ev.callee and ev.callee.endswith("UnitVect3::new_unsafe") and len(ev.args) == 3:
                for a_ in ev.args:
                    if a_ not in atoms and a_ not in acc and a_[0] != 'c': atoms[a_] = "a%d" % len(atoms)
        def P(t):
            if t in acc: return Poly.var("%s_%s" % acc[t])
            if t in atoms: return Poly.var(atoms[t])
            if t[0] == 'c' and t[1] == 'f64': return Poly.const(Fraction(f64_from_bits(t[2])))
            if t[0] == 'op' and t[1] in ('add', 'sub', 'mul'):
                a_, b_ = P(t[3]), P(t[4])
                return a_ + b_ if t[1] == 'add' else (a_ - b_ if t[1] == 'sub' else a_ * b_)
            if t[0] == 'un' and t[1] == 'neg': return -P(t[3])
            if t not in atoms: atoms[t] = "a%d" % len(atoms)
            return Poly.var(atoms[t])
        cmps = set()
        srcs = [d for d, loc in e.branches] + ([r.ret] if r.returns and r.ret is not None else [])
        for d in srcs:
            for x in walk(d):
                if x[0] == 'op' and x[1] in ('ge', 'gt', 'le', 'lt') and x[2] == 'bool': cmps.add(x)
                elif x[0] == 'phi':
                    for o in e.phi_ops.get(x, ()):
                        for y in walk(o):
                            if y[0] == 'op' and y[1] in ('ge', 'gt', 'le', 'lt'): cmps.add(y)
        for x in cmps:
            try: D = P(x[3]) - P(x[4]) if x[1] in ('ge', 'gt') else P(x[4]) - P(x[3])
            except RecursionError: continue
            for sign in (1, -1):            # the comparison may be the negated form (a failed `<`)
                DD = D if sign == 1 else -D
                for A in {n.split("_")[0] for mono in DD.d for n, _ in mono if n.startswith("R")}:
                    parts = {}
                    for mono, cf in DD.d.items():
                        if len(mono) == 2 and all(pw == 1 for _, pw in mono):
                            (n1, _), (n2, _) = mono
                            for u, v in ((n1, n2), (n2, n1)):
                                if u.startswith(A + "_") and not v.startswith(A + "_"):
                                    cls = v.split("_")[0] if v.startswith("R") else "atoms"
                                    parts.setdefault(cls, {}).setdefault(u.split("_")[1], []).append((v, cf))
                    for cls, part in parts.items():
                        if set(part) != {"x", "y", "z"} or any(len(l) != 1 or l[0][1] != 1 for l in part.values()): continue
                        vs = tuple(part[k][0][0] for k in ("x", "y", "z"))
                        if cls != "atoms" and [v.split("_")[1] for v in vs] != ["x", "y", "z"]: continue
                        dot = Poly()
                        for k in ("x", "y", "z"): dot = dot + Poly.var("%s_%s" % (A, k)) * Poly.var(part[k][0][0])
                        tests.append((body, A, vs, dot - DD, sign, show(x)[:90]))
    # pairing: same body, same candidate, same T, same reading (sign), different receiver
    unpaired = []; pairs = 0
    for t1 in tests:
        mates = [t2 for t2 in tests if t2[0] == t1[0] and t2[2] == t1[2] and t2[3] == t1[3] and t2[4] == t1[4] and t2[1] != t1[1]]
        if mates: pairs += 1
        else:
            # a reading that is the mirror of a paired one (candidate and end swapped, or the negated reading) is not a test of its own
            if any(t2[5] == t1[5] and [m for m in tests if m[0] == t2[0] and m[2] == t2[2] and m[3] == t2[3] and m[4] == t2[4] and m[1] != t2[1]] for t2 in tests if t2 is not t1): continue
            unpaired.append(t1)
    ok = pairs >= 2 and not unpaired
    ctx.report(clause, "intersect_small_circle:candidate-within-both-ends", ok, "%d end tests in %d bodies, each paired with the test of the other end on the same candidate and the same bound" % (len(tests), len(bodies)) if ok else
               ("no pair of tests `p1.v >= T` / `p2.v >= T` on one candidate in %s" % [x.split("::")[-1] for x in bodies] if not unpaired else
                "the test %s (in %s) has no counterpart for the other end of the arc on the same candidate and bound" % (unpaired[0][5], unpaired[0][0].split("::")[-1])) +
               ("" if ok else ": a root beyond an end of the arc can be returned as the special point"), at=b.span, kind="N")


def quarter_pieces(ctx, crate):
    """N (exact mode, sibling agreement): `arc_special_point_in_pc` cuts an edge that spans several quarters
    (lon div pi/2) into pieces and searches each with `arc_special_point_in_pc_same_quarter(west, east)`.  A
    piece is (vertex, intersection with a meridian plane) or (intersection, vertex): when the intersection is
    the WEST end it lies on the LOWER bound q pi/2 of the vertex's quarter — plane normal (q&1, (q&1)^1, 0);
    when it is the EAST end, on the UPPER bound — normal ((q&1)^1, q&1, 0).  Read for q = 0..3 on the
    normal handed to `intersect_point_pc`, at every call site, in the branch that crosses lon = 0 and in the
    one that does not (F28: the crossing branch searched the prolongation of the edge beyond p1)."""
    from rules.common import feval
    clause = "special-points"
    fns = [p_ for p_ in crate.bodies if p_.endswith("special_points_finder::arc_special_point_in_pc")]
    if len(fns) != 1: return
    fn = fns[0]; SQ = fn + "_same_quarter"; IP = "special_points_finder::intersect_point_pc"
    b = ctx.anchor(crate, fn, clause)
    if b is None: return
    if crate.body(SQ) is None or crate.body(IP) is None:
        ctx.not_decided("arc_special_point_in_pc: pieces not searched through arc_special_point_in_pc_same_quarter / intersect_point_pc"); return
    e = Engine(crate, opaque={SQ, IP}); e.run(fn); ctx.functions |= e.visited_fns
    rpo = b.rpo()
    ips = sorted([ev for ev in e.events.values() if ev.callee == IP and len(ev.site) == 2], key=lambda ev: rpo.get(ev.site[-1][1], 0))
    sqs = [ev for ev in e.events.values() if ev.callee == SQ and len(ev.site) == 2]
    bad = []; quiet = []; n = 0
    for ev in sqs:
        vals = ev.argvals or [None] * len(ev.args)
        inter = [k for k in (0, 1) if k < len(vals) and vals[k] is not None and vals[k][0] == 'agg']
        if not inter: continue                       # (vertex, vertex): the whole edge in one quarter
        if len(inter) == 2: quiet.append("%s: both ends are intersections" % ev.at); continue
        pos = inter[0]
        before = [ip for ip in ips if rpo.get(ip.site[-1][1], 0) < rpo.get(ev.site[-1][1], 0)]
        nv = (before[-1].argvals or [None] * 4)[3] if before else None
        if nv is None or nv[0] != 'agg' or len(nv[3]) < 2: quiet.append("%s: normal of the meridian plane not found" % ev.at); continue
        fa, fb = nv[3][0], nv[3][1]
        qs = {x[3] if x[4][0] == 'c' else x[4] for t in (fa, fb) for x in walk(t) if x[0] == 'op' and x[1] == 'bitand' and (x[4] == C('u8', 1) or x[3] == C('u8', 1))}
        if len(qs) != 1: quiet.append("%s: normal not a function of one quarter index" % ev.at); continue
        Q = next(iter(qs))
        got = [(feval(fa, {Q: q}, e), feval(fb, {Q: q}, e)) for q in range(4)]
        want = [((q & 1), (q & 1) ^ 1) if pos == 0 else ((q & 1) ^ 1, (q & 1)) for q in range(4)]
        n += 1
        # which end of the ARC is the vertex of this piece?  The two vertices are ordered by longitude (lo, hi);
        # the arc runs west -> east from lo to hi, unless hi.lon - lo.lon > pi: then it crosses lon = 0 and runs
        # from hi to lo.  The vertex that is the west end of the arc must be the west end of its piece.
        import math
        from rules.common import cmp_facts, cval
        cross = None; lo = hi = None
        for op, x_, c_, pos_ in cmp_facts(ev.facts):
            if op not in ('gt', 'ge', 'lt', 'le'): continue
            for d_, k_, flip in ((x_, c_, False), (c_, x_, True)):
                if k_[0] == 'c' and k_[1] == 'f64' and abs(cval(k_) - math.pi) < 1e-15 and d_[0] == 'op' and d_[1] == 'sub' and d_[3][0] == 'fld' and d_[4][0] == 'fld' and d_[3][1][0] == 'deref' and d_[4][1][0] == 'deref':
                    greater = (op in ('gt', 'ge')) != flip          # the test reads  (A.lon - B.lon) > pi
                    cross = bool(pos_) == greater; hi, lo = d_[3][1][1], d_[4][1][1]
        vertex = ev.args[1 - pos]
        if cross is not None and vertex in (lo, hi):
            vertex_is_west_of_arc = (vertex == hi) if cross else (vertex == lo)
            if vertex_is_west_of_arc != (pos == 1):
                bad.append("%s: in the branch where the arc %s lon = 0 the vertex %s is the %s end of the arc, but its piece is searched as (%s)" % (
                    ev.at, "crosses" if cross else "does not cross", "of larger longitude" if vertex == hi else "of smaller longitude", "west" if vertex_is_west_of_arc else "east",
                    "vertex, intersection" if pos == 1 else "intersection, vertex") + ": that is the prolongation of the edge beyond the vertex, not a piece of the edge")
                continue
        if [tuple(float(x) if x is not None else None for x in g) for g in got] != [tuple(float(x) for x in w) for w in want]:
            bad.append("%s: the intersection is the %s end of the piece but lies on the %s bound of the quarter (normal for q = 0..3: %s)" % (ev.at, "west" if pos == 0 else "east", "upper" if pos == 0 else "lower", got))
    if not bad and (quiet or n < 4):
        # written in another idiom (pieces searched from a helper, normals from a closure or a table): this rule
        # reads the one the crate uses today and says nothing otherwise
        ctx.not_decided("arc_special_point_in_pc: the pieces between a vertex and its quarter bound (%s)" % (quiet[0] if quiet else "%d pieces visible in the function itself" % n)); return
    ctx.report(clause, "arc_special_point_in_pc:pieces-between-vertex-and-own-quarter-bound", not bad, "%d pieces: west end on the lower bound, east end on the upper bound of the quarter" % n if not bad else bad[0], at=b.span, kind="N")


def run(ctx):
    crate = ctx.crate("rel")
    bounding_cone_coverage(ctx, crate)
    recur_rules(ctx, crate)
    count_rule(ctx, crate)
    lon_range_table(ctx, crate)
    coo3d_invariant(ctx, crate)
    winding_step(ctx, crate)
    cell_edges(ctx, crate)
    arc_test(ctx, crate)
    bounding_centre(ctx, crate)
    driver(ctx, crate)
    small_circle_on_arc(ctx, crate)
    quarter_pieces(ctx, crate)
    from rules.c09 import recursion_shape
    recursion_shape(ctx, crate, RECUR)
    ctx.not_decided("tightness; the point-in-polygon predicate vs. the geometric definition; termination of the descent; that 4 vertices + centre inside implies the whole cell inside (convexity argument)")
    from rules import cancellation
    cancellation.check(ctx, ctx.crate("rel"), ['nested::polygon_coverage', 'nested::Layer::polygon_coverage', 'sph_geom::Polygon::contains'], floor=80)
    from rules import controls as _controls
    _controls.feval_controls(ctx)
