"""C04 — seam tables, direction algebra and glue of the neighbour computation, decided for all
depths and cells by extraction (E4) + comparison with the vertex-sharing topology model.

Everything except finite keys (direction, base cell, the three classes of a shifted coordinate)
stays symbolic: a seam entry is extracted as `(base cell, A, B)` with A, B in {i, j, m, 0} (m is
the load of self.nside_minus_1); the checker composes the extracted pieces exactly as
neighbour_from_parts does and compares the result with the model on EVERY cell of nside 2, 4 (8 in
the thorough tier) and of depth 0.  Since an entry ranges over five symbolic forms, agreement on
all border cells of two nsides pins the form, hence every depth."""
from sym import Engine, show, C, walk, State
from bits import Bits, sym_bits, spread_bits, ZERO, ONE, as_const, fmt
from rules.common import strip_generics, param
from topology import Model, DIRS, border_class

MW = "compass_point::MainWind"
L = "nested::Layer::"
OPT = L + "build_hash_from_parts_opt"


def mw_value(crate, name):
    return ('agg', 'adt:' + MW, crate.variant_index(MW, name), ())


def run_with_ref_self(crate, fn, selfval, args, opaque=()):
    """run a function whose first parameter is `&self` given by value"""
    e = Engine(crate, opaque=set(opaque))
    b = crate.body(fn)
    st = State()
    if b.local_ty(1)["k"] == "ref":
        st.heap[('tmp', 'self')] = selfval; a0 = ('ref_t', ('tmp', 'self'))
    else: a0 = selfval
    r = e.run_body(b, [a0] + list(args), st, fk=((fn, -1),), stack=(fn,))
    return e, r


def direction_algebra(ctx, crate):
    clause = "direction-algebra"
    names = crate.variant_names(MW)
    offs = {}; idx = {}
    for n in names:
        v = mw_value(crate, n)
        vals = {}
        for m in ("offset_se", "offset_sw", "index", "opposite", "is_cardinal", "is_ordinal"):
            e, r = run_with_ref_self(crate, MW + "::" + m, v, [])
            ctx.functions |= e.visited_fns
            vals[m] = r.ret if r.returns else None
        offs[n] = (vals["offset_se"][2] if vals["offset_se"] and vals["offset_se"][0] == 'c' else None,
                   vals["offset_sw"][2] if vals["offset_sw"] and vals["offset_sw"][0] == 'c' else None)
        idx[n] = vals["index"][2] if vals["index"] and vals["index"][0] == 'c' else None
        opp = vals["opposite"]
        oppn = names[opp[2]] if opp and opp[0] == 'agg' else None
        offs[n + ":opp"] = oppn
        offs[n + ":card"] = vals["is_cardinal"][2] if vals["is_cardinal"] and vals["is_cardinal"][0] == 'c' else None
        offs[n + ":ord"] = vals["is_ordinal"][2] if vals["is_ordinal"] and vals["is_ordinal"][0] == 'c' else None
    # model: SE axis = +i, SW axis = +j
    want = {"S": (-1, -1), "SE": (0, -1), "E": (1, -1), "SW": (-1, 0), "C": (0, 0), "NE": (1, 0), "W": (-1, 1), "NW": (0, 1), "N": (1, 1)}
    bad = {n: offs[n] for n in names if offs[n] != want.get(n)}
    ctx.report(clause, "MainWind:offsets", not bad, "offset_se/offset_sw of the 9 directions equal the model's (Δi, Δj)" if not bad else "differ: %s" % bad, sample={"offsets": {n: offs[n] for n in names}})
    # opposite negates both offsets
    bad = [n for n in names if offs.get(offs[n + ":opp"]) != (-offs[n][0], -offs[n][1])] if all(offs[n][0] is not None for n in names) else names
    ctx.report(clause, "MainWind:opposite-negates-offsets", not bad, "opposite() negates both offsets for the 9 directions" if not bad else "wrong for %s" % bad)
    # index / from_index inverse
    bad = []
    for n in names:
        e, r = Engine(crate), None
        r = e.run(MW + "::from_index", [C('u8', idx[n] if idx[n] is not None else 255)])
        if not (r.returns and r.ret == mw_value(crate, n)): bad.append(n)
    ctx.report(clause, "MainWind:from_index∘index=id", not bad and sorted(idx.values()) == list(range(9)), "indices %s; from_index(index(d)) = d" % idx if not bad else "wrong for %s" % bad)
    # from_offsets(offset_se(d), offset_sw(d)) = d
    fo = {}
    bad = []
    for n in names:
        e = Engine(crate); r = e.run(MW + "::from_offsets", [C('i8', offs[n][0] or 0), C('i8', offs[n][1] or 0)])
        ctx.functions |= e.visited_fns
        got = names[r.ret[2]] if r.returns and r.ret[0] == 'agg' else None
        fo[offs[n]] = got
        if got != n: bad.append((n, got))
    ctx.report(clause, "MainWind:from_offsets∘offsets=id", not bad, "from_offsets(offset_se(d), offset_sw(d)) = d for the 9 directions" if not bad else "wrong: %s" % bad)
    card = {n for n in names if offs[n + ":card"] == 1}; ordi = {n for n in names if offs[n + ":ord"] == 1}
    ctx.report(clause, "MainWind:cardinal/ordinal", card == {"S", "E", "N", "W"} and ordi == {"SE", "SW", "NE", "NW"}, "is_cardinal: %s; is_ordinal: %s" % (sorted(card), sorted(ordi)))
    return want if not bad else offs, fo


def form_of(crate, t):
    """symbolic form of a coordinate argument of build_hash_from_parts_opt"""
    m = ('fld', ('tmp', 'self'), crate.field_index("nested::Layer", "nside_minus_1"))
    if t == param("i"): return "i"
    if t == param("j"): return "j"
    if t == m or (t[0] == 'fld' and t[2] == crate.field_index("nested::Layer", "nside_minus_1")): return "m"
    if t == C('u32', 0): return "0"
    return None


def dir_args(crate, body, first, dn, st):
    """argument list for a function taking (.., a MainWind by value or by reference)"""
    args = []
    for li in range(first, body.arg_count + 1):
        t = body.local_ty(li)
        if t.get("path") == MW: args.append(mw_value(crate, dn))
        elif t["k"] == "ref" and t["to"].get("path") == MW:
            st.heap[('tmp', 'dir%d' % li)] = mw_value(crate, dn); args.append(('ref_t', ('tmp', 'dir%d' % li)))
        else: args.append(None)
    return args


def seam_tables_via_parts(ctx, crate, offs):
    """same table, extracted through neighbour_from_parts when the dispatch helper does not exist as
    a separate function: the two -1/0/+1 classes of the shifted coordinates are the finite key"""
    clause = "seam-tables"
    fn = L + "neighbour_from_parts"; nb = L + "neighbour_base_cell_offset"
    b = ctx.anchor(crate, fn, clause)
    if b is None or crate.body(nb) is None:
        if b is not None: ctx.undecided(clause, "anchor:" + nb, "neither neighbour_from_shifted_coos nor neighbour_base_cell_offset found")
        return None
    names = crate.variant_names(MW)
    pn = b.param_names()
    table = {}
    for base in range(12):
        for dn in names:
            if dn == "C": continue
            di, dj = offs[dn]
            def run(subst):
                e = Engine(crate, opaque={OPT, nb}); e.subst = subst
                st = State(); st.heap[('tmp', 'self')] = ('tmp_layer',)
                args = [('ref_t', ('tmp', 'self')), C('u8', base), param("i"), param("j")] + dir_args(crate, b, 5, dn, st)[:1]
                r = e.run_body(b, args, st, fk=((fn, -1),), stack=(fn,))
                return e, r
            e0, r0 = run({})
            nbs = [ev for ev in e0.events.values() if ev.callee == nb]
            if len(nbs) != 2:
                table[(base, dn)] = ("?", "%d calls to neighbour_base_cell_offset" % len(nbs)); continue
            def leaf(t):
                ps = {x for x in walk(t) if x in (param("i"), param("j"))}
                return ps
            ri = [ev.ret for ev in nbs if leaf(ev.args[1]) == {param("i")}]; rj = [ev.ret for ev in nbs if leaf(ev.args[1]) == {param("j")}]
            if len(ri) != 1 or len(rj) != 1:
                table[(base, dn)] = ("?", "cannot tell the i and j class calls apart"); continue
            e, r = run({ri[0]: C('i8', di), rj[0]: C('i8', dj)})
            ctx.functions |= e.visited_fns
            if not r.returns: table[(base, dn)] = "panic"; continue
            ret = r.ret
            if ret[0] == 'agg' and ret[1] == 'adt:std::option::Option' and ret[2] == 0: table[(base, dn)] = None; continue
            evs = [ev for ev in e.events.values() if ev.callee == OPT]
            if len(evs) == 1 and evs[0].ret == ret and evs[0].args[1][0] == 'c':
                def form(t):
                    f = form_of(crate, t)
                    if f: return f
                    ls = leaf(t)
                    if ls == {param("i")}: return "i"
                    if ls == {param("j")}: return "j"
                    return None
                fa, fb = form(evs[0].args[2]), form(evs[0].args[3])
                if fa and fb: table[(base, dn)] = (evs[0].args[1][2], fa, fb); continue
            table[(base, dn)] = ("?", show(ret)[:80])
    return table


def seam_tables(ctx, crate, offs=None):
    """(base cell, direction) -> None | (base', formA, formB), via neighbour_from_shifted_coos"""
    clause = "seam-tables"
    fn = L + "neighbour_from_shifted_coos"
    if crate.body(fn) is None and offs is not None:
        return seam_tables_via_parts(ctx, crate, offs)
    b = ctx.anchor(crate, fn, clause)
    if b is None: return None
    names = crate.variant_names(MW)
    selfv = ('sym', ('layer',))
    table = {}
    for base in range(12):
        for dn in names:
            if dn == "C": continue
            st_x = State(); bx = crate.body(fn)
            e = Engine(crate, opaque={OPT}); st_x.heap[('tmp', 'self')] = ('tmp_layer',)
            r = e.run_body(bx, [('ref_t', ('tmp', 'self')), C('u8', base), param("i"), param("j")] + dir_args(crate, bx, 5, dn, st_x)[:1], st_x, fk=((fn, -1),), stack=(fn,))
            ctx.functions |= e.visited_fns
            if not r.returns:
                table[(base, dn)] = "panic"; continue
            ret = r.ret
            if ret[0] == 'agg' and ret[1] == 'adt:std::option::Option' and ret[2] == 0:
                table[(base, dn)] = None; continue
            evs = [ev for ev in e.events.values() if ev.callee == OPT]
            if len(evs) == 1 and evs[0].ret == ret and evs[0].args[1][0] == 'c':
                fa, fb = form_of(crate, evs[0].args[2]), form_of(crate, evs[0].args[3])
                if fa and fb:
                    table[(base, dn)] = (evs[0].args[1][2], fa, fb); continue
            table[(base, dn)] = ("?", show(ret)[:80])
    return table


def nbco(ctx, crate, depths):
    """neighbour_base_cell_offset: -1 -> -1, [0, nside) -> 0, nside -> 1, per depth"""
    clause = "glue"
    fn = L + "neighbour_base_cell_offset"
    b = ctx.anchor(crate, fn, clause)
    if b is None: return
    fields = [f["name"] for f in crate.adts["nested::Layer"]["variants"][0]["fields"]]
    bad = []
    for d in depths:
        selfv = ('agg', 'adt:nested::Layer', 0, tuple(C('u8', d) if f == "depth" else (C('u32', 1 << d) if f == "nside" else ('sym', ('self', f))) for f in fields))
        for coo, want in ((-1, -1), (1 << d, 1)):
            e = Engine(crate); r = e.run_method(fn, selfv, [C('i32', coo)])
            if not (r.returns and r.ret == C('i8', want)): bad.append((d, coo, show(r.ret) if r.returns else None))
        e = Engine(crate); r = e.run_method(fn, selfv, [param("coo")])
        v = Bits(crate, {param("coo"): sym_bits('c', 32, d)}, e.phi_ops).ev(r.ret) if r.returns else None
        if not (isinstance(v, list) and as_const(v) == 0): bad.append((d, "in-range", fmt(v) if isinstance(v, list) else v))
    ctx.functions.add(fn)
    ctx.report(clause, "neighbour_base_cell_offset:-1/0/+1", not bad, "for depth in %s: coo=-1 ↦ -1, 0<=coo<2^depth ↦ 0 (all coo), coo=2^depth ↦ 1" % ("0..=29" if len(depths) == 30 else depths) if not bad else "wrong: %s" % bad[:3], at=b.span)


def glue(ctx, crate, offs):
    clause = "glue"
    fn = L + "neighbour_from_parts"
    b = ctx.anchor(crate, fn, clause)
    if b is None: return
    ose, osw, fo, nb, shifted = MW + "::offset_se", MW + "::offset_sw", MW + "::from_offsets", L + "neighbour_base_cell_offset", L + "neighbour_from_shifted_coos"
    e = Engine(crate, opaque={ose, osw, fo, nb, shifted}); r = e.run(fn); ctx.functions |= e.visited_fns
    ev = {n: [x for x in e.events.values() if x.callee == n] for n in (ose, osw, fo, nb, shifted)}
    has_helper = crate.body(shifted) is not None
    ok = all(len(ev[n]) == 1 for n in (ose, osw, fo)) and len(ev[nb]) == 2 and (len(ev[shifted]) == 1 or not has_helper)
    detail = "call counts %s" % {n.split("::")[-1]: len(v) for n, v in ev.items()}
    if ok:
        def shifted_coo(p, off_ev):
            return ('op', 'add', 'i32', ('cast', 'int_to_int', 'i32', param(p)), ('cast', 'int_to_int', 'i32', off_ev.ret))
        i2, j2 = shifted_coo("i", ev[ose][0]), shifted_coo("j", ev[osw][0])
        nb_i = [x for x in ev[nb] if x.args[1] == i2]; nb_j = [x for x in ev[nb] if x.args[1] == j2]
        ok = len(nb_i) == 1 and len(nb_j) == 1 and ev[fo][0].args == [nb_i[0].ret, nb_j[0].ret]
        from rules.common import argv
        ok = ok and argv(ev[ose][0], 0) in (param("dir"), ('deref', param("dir"))) and argv(ev[osw][0], 0) in (param("dir"), ('deref', param("dir")))
        if has_helper:
            s = ev[shifted][0]
            ok = ok and s.args[1] == param("d0h") and s.args[2] == ('cast', 'int_to_int', 'u32', i2) and s.args[3] == ('cast', 'int_to_int', 'u32', j2) and argv(s, 4) == ev[fo][0].ret \
                and r.returns and r.ret == s.ret
            detail = "i' = i + offset_se(dir), j' = j + offset_sw(dir); base-cell direction = from_offsets(nbco(i'), nbco(j')); result = neighbour_from_shifted_coos(d0h, i', j', that direction)"
        else:
            detail = "i' = i + offset_se(dir), j' = j + offset_sw(dir); base-cell direction = from_offsets(nbco(i'), nbco(j')); the seam table is matched in place on that direction (table extracted through this function)"
    ctx.report(clause, fn + ":composition", ok, detail, at=b.span, sample={"glue": detail})
    # edge_cell_neighbours: put_opt(D, neighbour_from_parts(d0h, i, j, D)) for the 8 directions
    fn2 = L + "edge_cell_neighbours"
    b2 = ctx.anchor(crate, fn2, clause)
    if b2 is not None:
        putopt = [p for p in crate.bodies if strip_generics(p) == "compass_point::MainWindMap::put_opt"]
        e = Engine(crate, opaque={fn, L + "decode_hash"} | set(putopt)); e.run(fn2); ctx.functions |= e.visited_fns
        from rules.common import argv
        nfp = {x.ret: x for x in e.events.values() if x.callee == fn}
        puts = [x for x in e.events.values() if x.callee in putopt]
        names = crate.variant_names(MW)
        seen = []
        good = len(puts) in (1, 8)
        dec = [x for x in e.events.values() if x.callee == L + "decode_hash"]
        for p in puts:
            src = nfp.get(p.args[2])
            key = argv(p, 1)
            if src is None or argv(src, 4) != key: good = False; continue
            if key[0] == 'agg': seen.append(names[key[2]])
            else:
                # table-driven loop: key = MainWind::from_index(TABLE[k]) with TABLE a constant array
                idxs = None
                for c in e.events.values():
                    if c.ret == key and c.callee == MW + "::from_index":
                        a = c.args[0]
                        arrs = [x for x in walk(a) if x[0] == 'idx' and x[1][0] == 'agg' and x[1][1] == 'array' and all(y[0] == 'c' for y in x[1][3])]
                        if len(arrs) == 1: idxs = [y[2] for y in arrs[0][1][3]]
                if idxs is None: good = False; continue
                for k in idxs:
                    e2 = Engine(crate); r2 = e2.run(MW + "::from_index", [C('u8', k)])
                    if r2.returns and r2.ret[0] == 'agg': seen.append(names[r2.ret[2]])
            if len(dec) != 1 or [a[0] for a in src.args[1:4]] != ['fld'] * 3 or any(a[1] != dec[0].ret for a in src.args[1:4]): good = False
        ctx.report(clause, fn2 + ":same-direction-twice-x8", good and sorted(seen) == sorted(DIRS), "put_opt(D, neighbour_from_parts(d0h, i, j, D)) for D in %s, (d0h, i, j) = decode_hash(hash)" % sorted(seen), at=b2.span)
    # neighbour(h, dir): decode + neighbour_from_parts with the caller's direction
    fn3 = L + "neighbour"
    b3 = ctx.anchor(crate, fn3, clause)
    if b3 is not None:
        e = Engine(crate, opaque={fn, L + "decode_hash", L + "check_hash"}); r = e.run(fn3); ctx.functions |= e.visited_fns
        dec = [x for x in e.events.values() if x.callee == L + "decode_hash"]; nf = [x for x in e.events.values() if x.callee == fn]
        from rules.common import argv
        ok = len(dec) == 1 and len(nf) == 1 and dec[0].args[1] == param("hash") and argv(nf[0], 4) == param("direction") and all(a[0] == 'fld' and a[1] == dec[0].ret for a in nf[0].args[1:4]) and r.ret == nf[0].ret
        ctx.report(clause, fn3 + ":same-path-as-neighbours", ok, "neighbour(hash, dir) = neighbour_from_parts(decode_hash(hash), dir): the border path of neighbours() for every cell", at=b3.span)


def inner_cells(ctx, crate, offs):
    """inner_cell_neighbours: put(D, bits_2_hash(d0h_bits, X, Y)) with X, Y the bits of i+Δi, j+Δj"""
    clause = "inner-cells"
    fn = L + "inner_cell_neighbours"
    b = ctx.anchor(crate, fn, clause)
    if b is None: return
    put = [p for p in crate.bodies if strip_generics(p) == "compass_point::MainWindMap::put"]
    b2h = "nested::bits_2_hash"
    e = Engine(crate, opaque={b2h} | set(put)); e.run(fn); ctx.functions |= e.visited_fns
    names = crate.variant_names(MW)
    xm = ('fld', ('deref', param("self")), crate.field_index("nested::Layer", "x_mask"))
    ym = ('fld', ('deref', param("self")), crate.field_index("nested::Layer", "y_mask"))
    evs = list(e.events.values())
    def zoc(name): return [x for x in evs if x.callee and x.callee.startswith("dyn:") and x.callee.endswith("::" + name)]
    h2ij, ij2i, ij2j, ij2h = zoc("h2ij"), zoc("ij2i"), zoc("ij2j"), zoc("ij2h")
    ok = len(h2ij) == 1 and len(ij2i) == 1 and len(ij2j) == 1 and len(ij2h) == 2
    detail = ""
    if ok:
        ib, jb = param("i_in_d0h_bits"), param("j_in_d0h_bits")
        ok = h2ij[0].args[1] == ('op', 'bitor', 'u64', ib, jb) and ij2i[0].args[1] == h2ij[0].ret and ij2j[0].args[1] == h2ij[0].ret
        I, J = ij2i[0].ret, ij2j[0].ret
        minus = [x for x in ij2h if x.args[1] == ('op', 'sub', 'u32', I, C('u32', 1)) and x.args[2] == ('op', 'sub', 'u32', J, C('u32', 1))]
        plus = [x for x in ij2h if x.args[1] == ('op', 'add', 'u32', I, C('u32', 1)) and x.args[2] == ('op', 'add', 'u32', J, C('u32', 1))]
        ok = ok and len(minus) == 1 and len(plus) == 1
        if ok:
            xform = {ib: 0, ('op', 'bitand', 'u64', minus[0].ret, xm): -1, ('op', 'bitand', 'u64', plus[0].ret, xm): 1}
            yform = {jb: 0, ('op', 'bitand', 'u64', minus[0].ret, ym): -1, ('op', 'bitand', 'u64', plus[0].ret, ym): 1}
            b2 = {x.ret: x for x in evs if x.callee == b2h}
            puts = [x for x in evs if x.callee in put]
            got = {}
            for p in puts:
                src = b2.get(p.args[2])
                if src is None or p.args[1][0] != 'agg' or src.args[0] != param("d0h_bits"): ok = False; continue
                got[names[p.args[1][2]]] = (xform.get(src.args[1]), yform.get(src.args[2]))
            want = {d: offs[d] for d in DIRS}
            ok = ok and got == want
            detail = "put(D, bits_2_hash(d0h_bits, bits(i+Δi), bits(j+Δj))) with (Δi, Δj) = %s" % got
    ctx.report(clause, fn + ":offsets-per-direction", ok, detail or "unexpected structure", at=b.span, sample={"inner": detail[:300]})
    # bits_2_hash = OR of its three arguments
    eb = Engine(crate); rb = eb.run(b2h); ctx.functions.add(b2h)
    names_b = crate.body(b2h).param_names()
    v = Bits(crate, {param(names_b[0]): [ZERO] * 60 + sym_bits('d', 4), param(names_b[1]): spread_bits(sym_bits('i', 30), 64, 0), param(names_b[2]): spread_bits(sym_bits('j', 30), 64, 1)}, eb.phi_ops).ev(rb.ret) if rb.returns else None
    want = [ZERO] * 64
    if isinstance(v, list):
        si, sj = spread_bits(sym_bits('i', 30), 64, 0), spread_bits(sym_bits('j', 30), 64, 1)
        want = [si[k] if si[k] != ZERO else (sj[k] if sj[k] != ZERO else ZERO) for k in range(60)] + sym_bits('d', 4)
    ctx.report(clause, b2h + ":or-of-parts", v == want, "bits_2_hash(d, x, y) = d | x | y on disjoint bit supports", at=crate.body(b2h).span)
    # is_in_base_cell_border <=> i in {0, x_mask} or j in {0, y_mask}
    fnb = L + "is_in_base_cell_border"
    bb = ctx.anchor(crate, fnb, clause)
    if bb is not None:
        eb = Engine(crate); ctx.functions.add(fnb)
        rbb = eb.run(fnb)
        terms = [d for d, loc in eb.branches]
        if rbb.returns:
            todo = [rbb.ret]; seen_t = set()
            while todo:
                x = todo.pop()
                if x in seen_t: continue
                seen_t.add(x); terms.append(x)
                for y in walk(x):
                    if y[0] == 'phi': todo.extend(eb.phi_ops.get(y, ()))
        atoms = {}
        for t in terms:
            for x in walk(t):
                if x[0] == 'op' and x[1] in ('eq', 'ne') and x[2] == 'bool': atoms.setdefault(frozenset((x[3], x[4])), []).append(x)
        ib, jb = param("i_in_base_cell_bits"), param("j_in_base_cell_bits")
        want = {frozenset((C('u64', 0), ib)), frozenset((ib, xm)), frozenset((C('u64', 0), jb)), frozenset((jb, ym))}
        ok = set(atoms) == want
        detail = "atoms compared: %s" % sorted(sorted(show(x) for x in a) for a in atoms)
        if ok:
            # truth table: the function returns true iff at least one of the four equalities holds
            keys = sorted(atoms, key=lambda a: sorted(map(str, a)))
            bad = []
            for m in range(16):
                sub = {}
                for k_i, a in enumerate(keys):
                    val = bool((m >> k_i) & 1)
                    for x in atoms[a]: sub[x] = C('bool', int(val if x[1] == 'eq' else not val))
                e3 = Engine(crate); e3.subst = sub
                r3 = e3.run(fnb)
                got = r3.ret[2] if r3.returns and r3.ret[0] == 'c' else None
                if got != (1 if m else 0): bad.append((m, got))
            ok = not bad
            detail = "border test = OR of the four equalities {i == 0, i == x_mask, j == 0, j == y_mask} (truth table over the 16 outcomes)" if ok else "truth table differs for outcomes %s" % bad[:3]
        ctx.report(clause, fnb + ":four-equalities", ok, detail, at=bb.span)
    # neighbours(): edge path iff border, else inner path; both write the returned map
    fnn = L + "neighbours"
    bn = ctx.anchor(crate, fnn, clause)
    if bn is not None:
        e = Engine(crate, opaque={fnb, L + "edge_cell_neighbours", fn, L + "pull_bits_appart", L + "check_hash"}); e.run(fnn); ctx.functions |= e.visited_fns
        t = [x for x in e.events.values() if x.callee == fnb]
        ed = [x for x in e.events.values() if x.callee == L + "edge_cell_neighbours"]; inn = [x for x in e.events.values() if x.callee == fn]
        ok = len(t) == 1 and len(ed) == 1 and len(inn) == 1 and ('b', t[0].ret, True) in ed[0].facts and ('b', t[0].ret, False) in inn[0].facts and ed[0].args[1] == param("hash")
        ctx.report(clause, fnn + ":border→seam-path,else→inner-path", ok, "edge_cell_neighbours(hash) iff is_in_base_cell_border(bits), inner_cell_neighbours otherwise", at=bn.span)


def compare_with_model(ctx, crate, table, offs, fo, nsides):
    clause = "seam-tables"
    if table is None: return
    unknown = {k: v for k, v in table.items() if isinstance(v, tuple) and v and v[0] == "?"}
    for k, v in unknown.items():
        ctx.undecided(clause, "seam(base=%d,%s)" % k, "cannot extract the entry: %s" % (v,))
    def code_neighbour(b, i, j, d, n):
        di, dj = offs[d]
        i2, j2 = i + di, j + dj
        cls = lambda x: -1 if x == -1 else (1 if x == n else 0)
        D = fo.get((cls(i2), cls(j2)))
        if D is None: return "?"
        if D == "C": return (b, i2, j2)
        ent = table.get((b, D))
        if ent is None: return None
        if ent == "panic" or ent[0] == "?": return "panic"
        m = n - 1
        val = {"i": i2, "j": j2, "m": m, "0": 0}
        return (ent[0], val[ent[1]], val[ent[2]])
    mism = {}
    n_cmp = 0
    for n in nsides:
        model = Model(n)
        for c in model.cells:
            b, i, j = c
            for d in DIRS:
                want = model.neigh[c].get(d)
                got = code_neighbour(b, i, j, d, n)
                n_cmp += 1
                if got != want:
                    di, dj = offs[d]
                    cls = lambda x: -1 if x == -1 else (1 if x == n else 0)
                    D = fo.get((cls(i + di), cls(j + dj)))
                    mism.setdefault((b, D), []).append((n, c, d, got, want))
    names = [d for d in crate.variant_names(MW) if d != "C"]
    for b in range(12):
        for D in names:
            bad = mism.get((b, D), [])
            ent = table.get((b, D))
            ctx.report(clause, "seam(base=%d,%s)" % (b, D), not bad,
                       "entry %s agrees with the vertex-sharing topology on every cell of nside %s" % (ent, nsides) if not bad else
                       "entry %s: at nside %d cell %s direction %s the code gives %s, the cells sharing that %s are %s" % (ent, bad[0][0], bad[0][1], bad[0][2], bad[0][3], "edge" if len(bad[0][2]) == 2 else "vertex", bad[0][4]),
                       at=(crate.body(L + "neighbour_from_shifted_coos") or crate.body(L + "neighbour_from_parts")).span,
                       sample={"base_cell": b, "base_cell_direction": D, "entry": str(ent)} if (b in (0, 4, 8) and D in ("NE", "N", "E")) else None)
    inner_bad = mism.get((None, None), []) + [x for k, v in mism.items() if k[1] == "C" for x in v]
    ctx.report(clause, "same-base-cell-moves", not inner_bad, "(i+Δi, j+Δj) inside the base cell agrees with the model" if not inner_bad else "mismatch %s" % inner_bad[:2])
    ctx.extra["model_comparisons"] = n_cmp
    return n_cmp


def base_level_tables(ctx, crate, table):
    """lib.rs neighbour(base_cell, direction) vs the model at nside 1 and vs the Layer tables"""
    clause = "base-cell-tables"
    fn = "neighbour"
    b = ctx.anchor(crate, fn, clause)
    if b is None: return
    model = Model(1)
    names = crate.variant_names(MW)
    bad = []; disagree = []
    for base in range(12):
        for dn in names:
            if dn == "C": continue
            e = Engine(crate); r = e.run(fn, [C('u8', base), mw_value(crate, dn)]); ctx.functions |= e.visited_fns
            got = "panic"
            if r.returns:
                ret = r.ret
                if ret[0] == 'agg' and ret[2] == 0: got = None
                elif ret[0] == 'agg' and ret[2] == 1 and ret[3][0][0] == 'c': got = ret[3][0][2]
                else: got = show(ret)
            want = model.neigh[(base, 0, 0)].get(dn)
            want = want[0] if want else None
            if got != want: bad.append((base, dn, got, want))
            ent = table.get((base, dn)) if table else None
            lt = ent[0] if isinstance(ent, tuple) and ent[0] != "?" else (None if ent is None else ent)
            if table is not None and lt != got: disagree.append((base, dn, got, lt))
    ctx.report(clause, "lib::neighbour:vs-topology", not bad, "the 12x8 base-cell neighbour table equals the model at depth 0" if not bad else "differs: %s" % bad[:3], at=b.span)
    ctx.report(clause, "lib::neighbour:vs-Layer-tables", not disagree, "base cell of every Layer seam entry = lib::neighbour(base, dir)" if not disagree else "sibling tables disagree: %s" % disagree[:3], at=b.span)


def run(ctx, crate):
    res = direction_algebra(ctx, crate)
    offs, fo = res
    offs = {d: offs[d] for d in crate.variant_names(MW)}
    table = seam_tables(ctx, crate, offs)
    nsides = [1, 2, 4] if ctx.tier == "quick" else [1, 2, 4, 8, 16]
    n = compare_with_model(ctx, crate, table, offs, fo, nsides)
    ctx.floor("model-comparisons", n or 0, 8 * 12 * (1 + 4 + 16))
    nbco(ctx, crate, list(range(30)) if ctx.tier == "thorough" else [0, 1, 2, 15, 29])
    glue(ctx, crate, offs)
    inner_cells(ctx, crate, offs)
    base_level_tables(ctx, crate, table)
    # positive control of the oracle itself
    m2 = Model(2)
    c7 = sum(1 for c in m2.cells if len(m2.neigh[c]) == 7)
    ctx.control("topology-model-sanity", c7 == 24 and all(len(v) == 6 for v in Model(1).neigh.values()), "model must give 24 seven-neighbour cells at nside 2 and 6 neighbours per base cell")
    ctx.assume("reference topology model analysis/topology.py (vertex sharing in the HEALPix projection plane, exact rationals)")
