"""C17 — base_cell_from_proj_coo as a lookup table (E4 per finite key) vs. the topology model.

Finite keys: column I = floor(x/2) in 0..3, row J0 = floor((y+3)/2) in 0..2 and the outcomes of the
two diagonal tests inside the unit square (4 triangles).  For every key whose triangle lies inside
the image of the projection, the returned base cell must be the one whose diamond contains the
triangle's centroid (model).  Points exactly on a diagonal / seam are NOT covered (float ties)."""
from fractions import Fraction as F
from sym import Engine, show, C, walk
from topology import base_centre

FN = "base_cell_from_proj_coo"
CENTROID = {(1, 1): (F(1, 2), F(5, 6)), (1, 0): (F(1, 6), F(1, 2)), (0, 1): (F(5, 6), F(1, 2)), (0, 0): (F(1, 2), F(1, 6))}   # (nw, se) -> (x', y')


def model_base_cell(X, Y):
    for b in range(12):
        cx, cy = base_centre(b)
        dx = (X - cx + 4) % 8 - 4
        if abs(dx) + abs(Y - cy) < 1: return b
    return None


def run(ctx, crate):
    clause = "base-cell-lookup"
    b = ctx.anchor(crate, FN, clause)
    if b is None: return
    e0 = Engine(crate); r0 = e0.run(FN); ctx.functions |= e0.visited_fns
    if not r0.returns:
        ctx.undecided(clause, FN + ":symbolic", "no return value", at=b.span); return
    # discover the key terms: the two float->u8 casts and the two float comparisons
    casts = []; cmps = []
    seen = set()
    def scan(t):
        for x in walk(t):
            if x in seen: continue
            seen.add(x)
            if x[0] == 'cast' and x[1] == 'float_to_int' and x[2] == 'u8' and x not in casts: casts.append(x)
            if x[0] == 'op' and x[1] in ('le', 'ge', 'lt', 'gt') and x[2] == 'bool' and x not in cmps: cmps.append(x)
            if x[0] == 'phi':
                for o in e0.phi_ops.get(x, ()): scan(o)
    scan(r0.ret)
    px, py = ('p', b.param_names()[0]), ('p', b.param_names()[1])
    def mentions(t, p, depth=0):
        for y in walk(t):
            if y == p: return True
            if y[0] == 'phi' and depth < 6 and any(mentions(o, p, depth + 1) for o in e0.phi_ops.get(y, ())): return True
        return False
    col = [c for c in casts if mentions(c, px) and not mentions(c, py)]
    row = [c for c in casts if mentions(c, py) and not mentions(c, px)]
    if len(col) != 1 or len(row) != 1:
        ctx.undecided(clause, FN + ":keys", "cannot identify the column / row casts (%d/%d)" % (len(col), len(row)), at=b.span); return
    bad = []; n = 0
    for I in range(4):
        for J0 in range(3):
            # the two diagonal tests, as they read once column and row are fixed
            e1 = Engine(crate); e1.subst = {col[0]: C('u8', I), row[0]: C('u8', J0)}
            r1 = e1.run(FN)
            cm = []
            def scan1(t, seen1=set()):
                for x in walk(t):
                    if x in seen1: continue
                    seen1.add(x)
                    if x[0] == 'op' and x[1] in ('le', 'ge') and x[2] == 'bool' and x not in cm: cm.append(x)
                    if x[0] == 'phi':
                        for o in e1.phi_ops.get(x, ()): scan1(o, seen1)
            if r1.returns: scan1(r1.ret)
            for d, loc in e1.branches: scan1(d)
            nw = [c for c in cm if c[1] == 'le']; se = [c for c in cm if c[1] == 'ge']
            if len(nw) != 1 or len(se) != 1:
                ctx.undecided(clause, FN + ":keys(%d,%d)" % (I, J0), "cannot identify the two diagonal tests (%d/%d)" % (len(nw), len(se)), at=b.span); continue
            for (fnw, fse), (cxp, cyp) in CENTROID.items():
                X = 2 * (I + cxp); Y = 2 * (J0 + cyp) - 3
                want = model_base_cell(X, Y)
                if want is None: continue          # outside the image of the projection
                e = Engine(crate)
                e.subst = {col[0]: C('u8', I), row[0]: C('u8', J0), nw[0]: C('bool', fnw), se[0]: C('bool', fse)}
                r = e.run(FN)
                got = r.ret[2] if r.returns and r.ret[0] == 'c' else ("panic" if not r.returns else show(r.ret)[:60])
                n += 1
                if got != want: bad.append({"column": I, "row": J0, "north-west": fnw, "south-east": fse, "point": (float(X), float(Y)), "code": got, "model": want})
    ctx.report(clause, FN + ":table", not bad and n >= 24,
               "%d (column, row, triangle) keys inside the projection image: the returned base cell is the one containing the triangle" % n if not bad else
               "%d of %d keys wrong, e.g. column %s row %s triangle (nw=%s, se=%s), point %s: code returns %s, the point lies in base cell %s" % (len(bad), n, bad[0]["column"], bad[0]["row"], bad[0]["north-west"], bad[0]["south-east"], bad[0]["point"], bad[0]["code"], bad[0]["model"]),
               at=b.span, kind="N", sample={"keys": n, "mismatches": bad[:3]})
    ctx.floor("base-cell-lookup-keys", n, 24)
