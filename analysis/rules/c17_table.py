"""C17 — base_cell_from_proj_coo as a lookup table (E4 per finite key) vs. the topology model.

Finite keys: column I = floor(x/2) in 0..3, row J0 = floor((y+3)/2) in 0..2 and the outcomes of the
two diagonal tests inside the unit square (4 triangles).  For every key whose triangle lies inside
the image of the projection, the returned base cell must be the one whose diamond contains the
triangle's centroid (model).  Dyadic points exactly on the two diagonals are tested too, with the convention that a cell owns its
S->E and S->W edges (the tests are read at those points by exact evaluation of the extracted formula)."""
from fractions import Fraction as F
from sym import Engine, show, C, walk
from topology import base_centre

FN = "base_cell_from_proj_coo"
CENTROID = {(1, 1): (F(1, 2), F(5, 6)), (1, 0): (F(1, 6), F(1, 2)), (0, 1): (F(5, 6), F(1, 2)), (0, 0): (F(1, 2), F(1, 6))}   # (nw, se) -> (x', y')


def is_float_cmp(t):
    """a comparison between floats (the two diagonal tests), not between the small integers derived from them"""
    from sym import term_ty
    from mir import INT_TYS
    return term_ty(t[3]) not in INT_TYS and term_ty(t[4]) not in INT_TYS


def model_base_cell(X, Y):
    for b in range(12):
        cx, cy = base_centre(b)
        dx = (X - cx + 4) % 8 - 4
        if abs(dx) + abs(Y - cy) < 1: return b
    return None


def feval(t, env, eng, depth=0):
    """exact evaluation of a small float term on dyadic inputs (reading the extracted formula at a
    point; no code of the crate is run)"""
    from mir import f64_from_bits
    if t in env: return env[t]
    k = t[0]
    if k == 'c':
        if t[1] == 'f64': return f64_from_bits(t[2])
        return float(t[2])
    if k == 'op':
        a, b = feval(t[3], env, eng, depth + 1), feval(t[4], env, eng, depth + 1)
        if a is None or b is None: return None
        return {"add": a + b, "sub": a - b, "mul": a * b, "lt": a < b, "le": a <= b, "gt": a > b, "ge": a >= b}.get(t[1])
    if k == 'cast' and t[1] == 'int_to_float': return feval(t[3], env, eng, depth + 1)
    if k == 'phi' and depth < 8:
        g = eng.phi_gate.get(t)
        if g is not None:
            c = feval(g[0], env, eng, depth + 1)
            if c is None: return None
            return feval(g[1] if c else g[2], env, eng, depth + 1)
    return None


# test points inside the unit square: 4 triangle centroids, and 4 points ON the diagonals with the
# direction in which their owner lies (a cell owns its S->E and S->W edges)
POINTS = [((F(1, 2), F(5, 6)), (0, 0)), ((F(1, 6), F(1, 2)), (0, 0)), ((F(5, 6), F(1, 2)), (0, 0)), ((F(1, 2), F(1, 6)), (0, 0)),
          ((F(3, 4), F(1, 4)), (1, 1)), ((F(1, 4), F(3, 4)), (1, 1)),      # anti-diagonal: owner is up-right
          ((F(1, 4), F(1, 4)), (-1, 1)), ((F(3, 4), F(3, 4)), (-1, 1))]    # main diagonal: owner is up-left
# and 1/64 on either side of each diagonal (an offset of the frame by more than that moves them across)
POINTS += [((F(a, 4), F(b, 4) + s_ * F(1, 64)), (0, 0)) for a, b in ((1, 3), (3, 1), (1, 1), (3, 3)) for s_ in (-1, 1)]


def run(ctx, crate, tag=""):
    clause = "base-cell-lookup"
    b = ctx.anchor(crate, FN, clause)
    if b is None: return
    e0 = Engine(crate); r0 = e0.run(FN); ctx.functions |= e0.visited_fns
    if not r0.returns:
        ctx.undecided(clause, FN + ":symbolic", "no return value", at=b.span); return
    casts = []
    seen = set()
    def scan(t):
        for x in walk(t):
            if x in seen: continue
            seen.add(x)
            if x[0] == 'cast' and x[1] == 'float_to_int' and x[2] == 'u8' and x not in casts: casts.append(x)
            if x[0] == 'phi':
                for o in e0.phi_ops.get(x, ()): scan(o)
    scan(r0.ret)
    px, py = ('p', b.param_names()[0]), ('p', b.param_names()[1])
    def mentions(t, p, depth=0):
        for y in walk(t):
            if y == p: return True
            if y[0] == 'phi' and depth < 6 and any(mentions(o, p, depth + 1) for o in e0.phi_ops.get(y, ())): return True
        return False
    col = [c for c in casts if mentions(c, px) and not mentions(c, py)]
    row = [c for c in casts if mentions(c, py) and not mentions(c, px)]
    if len(col) != 1 or len(row) != 1:
        ctx.undecided(clause, FN + ":keys", "cannot identify the column / row casts (%d/%d)" % (len(col), len(row)), at=b.span); return
    bad = []; n = 0; n_tie = 0
    for I in range(4):
        for J0 in range(3):
            e1 = Engine(crate); e1.subst = {col[0]: C('u8', I), row[0]: C('u8', J0)}
            r1 = e1.run(FN)
            cm = []
            def scan1(t, seen1):
                for x in walk(t):
                    if x in seen1: continue
                    seen1.add(x)
                    if x[0] == 'op' and x[1] in ('le', 'ge', 'lt', 'gt') and x[2] == 'bool' and is_float_cmp(x) and x not in cm and (mentions(x, px) or mentions(x, py)): cm.append(x)
                    if x[0] == 'phi':
                        for o in e1.phi_ops.get(x, ()): scan1(o, seen1)
            s1 = set()
            if r1.returns: scan1(r1.ret, s1)
            for d, loc in e1.branches: scan1(d, s1)
            # the wrap test of ensures_x_is_positive is a comparison of x alone with 0: not a key
            keys = [c for c in cm if mentions(c, px) and mentions(c, py)]
            if len(keys) != 2:
                ctx.undecided(clause, FN + ":keys(%d,%d)" % (I, J0), "expected two tests relating x and y inside the unit square, found %d" % len(keys), at=b.span); continue
            done = set()
            for (xp, yp), (ox, oy) in POINTS:
                X = 2 * (I + xp); Y = 2 * (J0 + yp) - 3
                eps = F(1, 64)
                want = model_base_cell(X + 2 * ox * eps, Y + 2 * oy * eps)
                if want is None: continue
                env = {px: float(X), py: float(Y)}
                # the two keys themselves: the casts must give the column and the row of the point
                from rules.common import feval as cfeval
                ci, rj = cfeval(col[0], env, e0), cfeval(row[0], env, e0)
                if ci != I or rj != J0:
                    bad.append({"column": I, "row": J0, "point": (float(X), float(Y)), "on_seam": False, "code": "column %s, row %s" % (ci, rj), "model": "column %d, row %d" % (I, J0)})
                    continue
                vals = tuple(feval(k, env, e1) for k in keys)
                if any(v is None for v in vals):
                    ctx.undecided(clause, FN + ":eval(%d,%d)" % (I, J0), "cannot evaluate the diagonal tests at (%s, %s)" % (X, Y), at=b.span); break
                e = Engine(crate)
                e.subst = {col[0]: C('u8', I), row[0]: C('u8', J0), keys[0]: C('bool', int(vals[0])), keys[1]: C('bool', int(vals[1]))}
                r = e.run(FN)
                got = r.ret[2] if r.returns and r.ret[0] == 'c' else ("panic" if not r.returns else show(r.ret)[:60])
                n += 1
                if (ox, oy) != (0, 0): n_tie += 1
                if got != want: bad.append({"column": I, "row": J0, "point": (float(X), float(Y)), "on_seam": (ox, oy) != (0, 0), "code": got, "model": want})
    # ---- the outer edges of the polar-cap facets (lon = k*pi/2 with |lat| > asin(2/3)) -----------
    # In the rows of the polar caps the unit box holds the facet (one triangle) and two triangles
    # that are NOT in the image of the projection.  A position exactly on the facet's outer edge
    # sits on a diagonal of the box, and one more rounding (the function computes `1.0 - y`) can put
    # it on either side: whatever the two diagonal tests answer there, the result has to be one of
    # the two base cells that meet at that meridian (at the pole: any cell of that cap).
    edge_bad = []; n_edge = 0
    for I in range(4):
        for J0, cap, base in ((2, "north", 0), (0, "south", 8)):
            here, west, east = base + I, base + (I - 1) % 4, base + (I + 1) % 4
            pts = [((F(1, 6), F(1, 2)), {here, west}, "gap triangle west of the facet"), ((F(5, 6), F(1, 2)), {here, east}, "gap triangle east of the facet"),
                   ((F(1, 2), F(1, 2)), set(range(base, base + 4)), "pole")]
            if cap == "north":
                pts += [((F(1, 4), F(1, 4)), {here, west}, "on the NW edge"), ((F(3, 4), F(1, 4)), {here, east}, "on the NE edge")]
            else:
                pts += [((F(1, 4), F(3, 4)), {here, west}, "on the SW edge"), ((F(3, 4), F(3, 4)), {here, east}, "on the SE edge")]
            e1 = Engine(crate); e1.subst = {col[0]: C('u8', I), row[0]: C('u8', J0)}
            r1 = e1.run(FN)
            cm = []
            def scan2(t, seen1):
                for x in walk(t):
                    if x in seen1: continue
                    seen1.add(x)
                    if x[0] == 'op' and x[1] in ('le', 'ge', 'lt', 'gt') and x[2] == 'bool' and is_float_cmp(x) and x not in cm and mentions(x, px) and mentions(x, py): cm.append(x)
                    if x[0] == 'phi':
                        for o in e1.phi_ops.get(x, ()): scan2(o, seen1)
            s1 = set()
            if r1.returns: scan2(r1.ret, s1)
            for d, loc in e1.branches: scan2(d, s1)
            if len(cm) != 2:
                ctx.undecided(clause, FN + ":polar-edge-keys(%d,%d)" % (I, J0), "expected two tests relating x and y, found %d" % len(cm), at=b.span); continue
            for (xp, yp), accept, what in pts:
                X = 2 * (I + xp); Y = 2 * (J0 + yp) - 3
                env = {px: float(X), py: float(Y)}
                vals = tuple(feval(k, env, e1) for k in cm)
                if any(v is None for v in vals):
                    ctx.undecided(clause, FN + ":polar-edge-eval(%d,%d)" % (I, J0), "cannot evaluate the diagonal tests at (%s, %s)" % (X, Y), at=b.span); break
                e = Engine(crate)
                e.subst = {col[0]: C('u8', I), row[0]: C('u8', J0), cm[0]: C('bool', int(vals[0])), cm[1]: C('bool', int(vals[1]))}
                r = e.run(FN)
                got = r.ret[2] if r.returns and r.ret[0] == 'c' else ("panic" if not r.returns else show(r.ret)[:60])
                n_edge += 1
                if got not in accept:
                    edge_bad.append({"cap": cap, "column": I, "where": what, "point": (float(X), float(Y)), "code": got, "acceptable": sorted(accept)})
    ctx.report(clause, FN + ":polar-facet-edges" + tag, not edge_bad and n_edge >= 40,
               "%d keys on / next to the outer edges of the 8 polar facets and at the poles: the result is always one of the base cells meeting there" % n_edge if not edge_bad else
               "%d of %d: e.g. %s cap, column %d, %s, point %s: code returns %s, the base cells meeting there are %s (a position with lon = k*pi/2 in a polar cap gets a value that is not a base cell)" % (
                   len(edge_bad), n_edge, edge_bad[0]["cap"], edge_bad[0]["column"], edge_bad[0]["where"], edge_bad[0]["point"], edge_bad[0]["code"], edge_bad[0]["acceptable"]),
               at=b.span, kind="N", sample={"keys": n_edge, "mismatches": edge_bad[:4]})
    # ---- column 4: x = 8 exactly (a tiny negative x plus 8 rounds to 8.0): the same cells as column 0
    wrap_bad = []; n_wrap = 0
    for J0 in range(3):
        for nw in (0, 1):
            for se in (0, 1):
                res = []
                for I in (0, 4):
                    e1 = Engine(crate); e1.subst = {col[0]: C('u8', I), row[0]: C('u8', J0)}
                    r1 = e1.run(FN)
                    cm = []
                    def scan3(t, seen1):
                        for x in walk(t):
                            if x in seen1: continue
                            seen1.add(x)
                            if x[0] == 'op' and x[1] in ('le', 'ge', 'lt', 'gt') and x[2] == 'bool' and is_float_cmp(x) and x not in cm and mentions(x, px) and mentions(x, py): cm.append(x)
                            if x[0] == 'phi':
                                for o in e1.phi_ops.get(x, ()): scan3(o, seen1)
                    s1 = set()
                    if r1.returns: scan3(r1.ret, s1)
                    for d, loc in e1.branches: scan3(d, s1)
                    if len(cm) != 2: res.append("keys?"); continue
                    # order the two tests by their reading at a point of the NW triangle (x' < y')
                    env = {px: float(2 * (I % 4) + 2 * 0.2), py: float(2 * (J0 + 0.7) - 3)}
                    v0 = feval(cm[0], env, e1)
                    first, second = (cm[0], cm[1]) if v0 else (cm[1], cm[0])        # first = "in north-west"
                    e = Engine(crate); e.subst = {col[0]: C('u8', I), row[0]: C('u8', J0), first: C('bool', nw), second: C('bool', se)}
                    r = e.run(FN)
                    res.append(r.ret[2] if r.returns and r.ret[0] == 'c' else ("panics" if not r.returns else show(r.ret)[:40]))
                n_wrap += 1
                if res[0] != res[1]: wrap_bad.append({"row": J0, "nw": nw, "se": se, "column0": res[0], "column4": res[1]})
    ctx.report(clause, FN + ":x=8-is-x=0" + tag, not wrap_bad and n_wrap == 12,
               "column 4 (x = 8.0, what a longitude of -1e-16 projects to) gives the cells of column 0 on all 12 keys, without panicking" if not wrap_bad else
               "row %(row)s, tests (nw=%(nw)s, se=%(se)s): column 0 gives %(column0)s, column 4 (x = 8.0, e.g. lon = -1e-16) gives %(column4)s" % wrap_bad[0], at=b.span, kind="N", sample={"keys": n_wrap, "mismatches": wrap_bad[:3]})
    ctx.report(clause, FN + ":table" + tag, not bad and n >= 24,
               "%d test points inside the projection image (%d of them ON a diagonal seam, owned by the cell whose S->E / S->W edge it is): the returned base cell is the model's" % (n, n_tie) if not bad else
               "%d of %d points wrong, e.g. column %s row %s point %s%s: code returns %s, the point belongs to base cell %s" % (len(bad), n, bad[0]["column"], bad[0]["row"], bad[0]["point"], " (on a seam)" if bad[0]["on_seam"] else "", bad[0]["code"], bad[0]["model"]),
               at=b.span, kind="N", sample={"points": n, "seam_points": n_tie, "mismatches": bad[:3]})
    ctx.floor("base-cell-lookup-points" + tag, n, 24)
