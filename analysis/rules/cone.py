"""Shared analysis of the cone-coverage recursion and its drivers (used by C05 and C06)."""
import math
from sym import Engine, show, walk, C, UNIT
from rules.common import strip_generics, cmp_facts, cval, run_fn, param, float_interval, failed_cmps, argv

L = "nested::Layer::"
PUSH = "nested::bmoc::BMOCBuilderUnsafe::push"
TSHS = "to_squared_half_segment"
MINMAX = "nested::to_shs_min_max"


def find(crate, plain):
    c = [p for p in crate.bodies if strip_generics(p) == plain]
    return c[0] if c else None


class Recur:
    """symbolic summary of cone_coverage_approx_recur"""
    def __init__(self, ctx, crate):
        self.ok = False
        self.path = find(crate, L + "cone_coverage_approx_recur")
        if self.path is None:
            ctx.undecided("anchor", "anchor:cone_coverage_approx_recur", "function not found"); return
        ctx.functions.add(self.path)
        self.body = crate.body(self.path)
        fidx = {f["name"]: i for i, f in enumerate(crate.adts["nested::MinMax"]["variants"][0]["fields"])}
        self.fmin, self.fmax = fidx["min"], fidx["max"]
        opaque = {PUSH, L + "center", "nested::get_or_create"}
        def emitted(eng, st, args, site):
            st.facts = st.facts | {('emitted',)}
            return None
        self.e = Engine(crate, opaque=opaque, models={PUSH: emitted, self.path: emitted})
        self.r = self.e.run(self.path)
        evs = list(self.e.events.values())
        self.pushes = [ev for ev in evs if ev.callee == PUSH]
        self.selfcalls = [ev for ev in evs if ev.callee == self.path]
        # shs: result of calling the closure parameter; thresholds: fields of shs_minmax[recur_depth]
        shs_calls = [ev for ev in evs if ev.callee and ev.callee.startswith("dyn:") and "Fn" in ev.callee or (ev.callee and "ops::Fn" in ev.callee)]
        self.shs = shs_calls[0].ret if len(shs_calls) == 1 else None
        self.crate = crate
        self.ok = self.shs is not None

    def threshold_of(self, ev):
        """which MinMax field bounds shs (succeeded `shs <= field`) at this event: set of 'min'/'max'"""
        out = set()
        for op, a, c, pos in cmp_facts(ev.facts):
            if pos and op == "le" and a == self.shs and c[0] == 'fld':
                if c[2] == self.fmin: out.add("min")
                if c[2] == self.fmax: out.add("max")
        return out

    def threshold_base(self):
        """the term shs_minmax[recur_depth] the thresholds are fields of"""
        for d, loc in self.e.branches:
            if d[0] == 'op' and d[1] == 'le' and d[3] == self.shs and d[4][0] == 'fld': return d[4][1]
            if d[0] == 'op' and d[1] == 'ge' and d[4] == self.shs and d[3][0] == 'fld': return d[3][1]
        return None


def discard_only_beyond_max(ctx, crate, rec, clause):
    """run with `shs <= max` assumed to succeed: every normal return must have pushed or recursed"""
    def emitted(eng, st, args, site):
        st.facts = st.facts | {('emitted',)}
        return None
    def assume(t):
        from rules.common import is_cmp
        is_max = lambda x: x[0] == 'fld' and x[2] == rec.fmax
        is_shs = lambda x: x[0] == 'sym'
        if is_cmp(t, 'le', is_shs, is_max): return True
        if is_cmp(t, 'gt', is_shs, is_max): return False
        return None
    e = Engine(crate, opaque={PUSH, L + "center", "nested::get_or_create"}, models={PUSH: emitted, rec.path: emitted}, assume=assume)
    r = e.run(rec.path)
    ok = r.returns and ('emitted',) in r.facts
    ctx.report(clause, "recur:discard-only-beyond-outer-threshold", ok,
               "assuming `shs <= max` succeeds, every path to a normal return pushes the cell or recurses into its four children" if ok else
               "a cell whose centre is within the OUTER threshold (shs <= max) can be dropped without being pushed or subdivided", at=rec.body.span, kind="N")


def minmax_provenance(ctx, crate, clause_outer, clause_inner):
    """to_shs_min_max: max = f(radius + distance); min = 0 (only if radius < distance) or f(radius - distance)"""
    b = ctx.anchor(crate, MINMAX, clause_outer)
    if b is None: return
    e = Engine(crate, opaque={TSHS}); r = e.run(MINMAX); ctx.functions |= e.visited_fns
    fidx = {f["name"]: i for i, f in enumerate(crate.adts["nested::MinMax"]["variants"][0]["fields"])}
    ret = r.ret
    if not (r.returns and ret[0] == 'agg'):
        ctx.undecided(clause_outer, MINMAX + ":shape", "unexpected return", at=b.span); return
    R, D = param("cone_radius"), param("distance")
    tshs = {ev.ret: ev.args[0] for ev in e.events.values() if ev.callee == TSHS}
    mx = ret[3][fidx["max"]]; mn = ret[3][fidx["min"]]
    sums = (('op', 'add', 'f64', R, D), ('op', 'add', 'f64', D, R))
    arg = tshs.get(mx)
    PI_BITS = 0x400921FB54442D18
    clamped = arg is not None and arg[0] == 'call' and arg[1].endswith("::min") and len(arg[2]) == 2 and \
        ((arg[2][0] in sums and arg[2][1] == C('f64', PI_BITS)) or (arg[2][1] in sums and arg[2][0] == C('f64', PI_BITS)))
    okmax = arg in sums or clamped
    ctx.report(clause_outer, MINMAX + ":max=f(radius+distance)", okmax, "MinMax.max = to_squared_half_segment(%s)" % show(tshs.get(mx, mx)), at=b.span, kind="N",
               sample={"max": show(tshs.get(mx, mx)), "min_alternatives": [show(tshs.get(o, o)) for o in e.phi_ops.get(mn, [mn])]})
    # f(x) = sin^2(x/2) is increasing only on [0, pi]: for radius + distance > pi an unclamped
    # argument makes the OUTER threshold shrink, and cells near the antipode are discarded
    ctx.report(clause_outer, MINMAX + ":outer-argument-clamped-at-pi", clamped,
               "the argument of the outer threshold is min(radius + distance, PI)" if clamped else
               "the outer threshold is to_squared_half_segment(radius + distance) without a clamp at PI: for radius in (PI - distance, PI) it decreases with the radius (sin^2(x/2) is not monotone past PI) and cells inside the cone are dropped", at=b.span, kind="N")
    # the outer threshold saturates at f(pi) = 1: what is compared with it must not exceed 1 either, or a
    # cell at the antipode of the cone centre (true value 1, rounded sum 1.0000000000000002) is dropped
    # with its whole sub-tree although r + d >= pi says everything is inside
    shs_fn = find(crate, "squared_half_segment")
    if shs_fn and crate.body(shs_fn) is not None:
        es = Engine(crate); rs = es.run(shs_fn)
        rv = rs.ret if rs.returns else None
        one = C('f64', 0x3FF0000000000000)
        capped = rv is not None and rv[0] == 'call' and rv[1].endswith("::min") and one in rv[2]
        ctx.report(clause_outer, shs_fn + ":bounded-by-1", capped,
                   "squared_half_segment = min(sin^2(dlat/2) + cos cos sin^2(dlon/2), 1): never above the saturated outer threshold" if capped else
                   "squared_half_segment returns %s: for nearly antipodal points the rounded sum can be 1.0000000000000002 > to_squared_half_segment(pi) = 1, the saturated outer threshold" % (show(rv)[:100] if rv else None),
                   at=crate.body(shs_fn).span, kind="N")
    alts = e.phi_ops.get(mn, {mn})
    from rules.common import cval as _cv
    consts = [o for o in alts if o[0] == 'c']
    ok_alts = all((o[0] == 'c') or tshs.get(o) == ('op', 'sub', 'f64', R, D) for o in alts) and any(tshs.get(o) == ('op', 'sub', 'f64', R, D) for o in alts)
    ctx.extra_sentinel = [(_cv(o)) for o in consts]
    # the 0 alternative is selected by `radius < distance`
    from rules.common import is_cmp
    guard = [d for d, loc in e.branches if is_cmp(d, 'lt', R, D) or is_cmp(d, 'le', R, D)]
    ctx.report(clause_inner, MINMAX + ":min=f(radius-distance)|0", ok_alts and (len(alts) == 1 or bool(guard)),
               "MinMax.min ∈ %s, 0 selected by `%s`" % ([show(tshs.get(o, o)) for o in alts], [show(g) for g in guard]), at=b.span, kind="N")
    # same monotone f for both; the array maps every distance with the same radius
    arr = "nested::to_shs_min_max_array"
    ba = crate.body(arr)
    if ba is not None:
        clo = [p for p in crate.bodies if p.startswith(arr + "::{closure")]
        okarr = False
        for cp in clo:
            ce = Engine(crate, opaque={MINMAX}); cb = crate.body(cp)
            from sym import State
            st = State(); envv = ('agg', 'closure:' + cp, 0, (('ref_t', ('cap', 'cone_radius')),))
            st.heap[('tmp', 'env')] = envv
            ce.run_body(cb, [('ref_t', ('tmp', 'env')) if cb.local_ty(1)["k"] == "ref" else envv, param("d")], st, fk=((cp, -1),), stack=(cp,))
            for ev in ce.events.values():
                if ev.callee == MINMAX and ev.args[0] in (('cap', 'cone_radius'), ('deref', ('ref_t', ('cap', 'cone_radius')))): okarr = True
                if ev.callee == MINMAX and 'cone_radius' in show(ev.args[0]): okarr = True
        how = "closure mapped over the distances"
        if not clo:
            okarr, how = array_loop(crate, arr)
        ctx.report(clause_outer, arr + ":same-radius-for-every-depth", okarr, "to_shs_min_max_array applies to_shs_min_max(cone_radius, d) to each distance (%s)" % how, at=ba.span, kind="N")


def array_loop(crate, arr):
    """the index-loop form of the threshold array:  for i in 0..distances.len() { v.push(to_shs_min_max(cone_radius, distances[i])) }"""
    from rules.common import loop_var_range, loop_bound_from_facts, derives
    e = Engine(crate, opaque={MINMAX}); r = e.run(arr)
    evs = list(e.events.values())
    mm = [ev for ev in evs if ev.callee == MINMAX]
    if len(mm) != 1 or not r.returns: return False, "%d to_shs_min_max call sites" % len(mm)
    m = mm[0]
    if m.args[0] != param("cone_radius"): return False, "threshold built for radius %s" % show(m.args[0])[:40]
    d = m.args[1]
    if d[0] != 'idx' or not any(x == param("distances") for x in walk(d[1])) or any(x[0] == 'idx' for x in walk(d[1])):
        return False, "second argument %s is not an element of `distances`" % show(d)[:60]
    rg = loop_var_range(e, d[2])
    if rg is None: return False, "index %s is not a recognised loop counter" % show(d[2])[:40]
    start, end = rg
    if end is None: end = loop_bound_from_facts(m.facts, d[2])
    lens = [ev.ret for ev in evs if ev.callee and ev.callee.endswith("slice::<impl [T]>::len") and any(x == param("distances") for x in walk(argv(ev, 0)))]
    if start != C('usize', 0) or end is None or end not in lens: return False, "index runs over %s..%s, not 0..distances.len()" % (show(start), show(end) if end else "?")
    push = [ev for ev in evs if ev.callee and strip_generics(ev.callee).endswith("Vec::push") and ev.args[1] == m.ret]
    if len(push) != 1 or not push[0].argvals or push[0].argvals[0] is None or not derives(e, r.ret, push[0].argvals[0]):
        return False, "the thresholds are not pushed, in order, to the returned vector"
    return True, "index loop 0..distances.len(), pushed in order"


class Internal:
    def __init__(self, ctx, crate, rec):
        self.path = L + "cone_coverage_approx_internal"
        self.body = ctx.anchor(crate, self.path, "anchor")
        self.ok = self.body is not None and rec.ok
        if not self.ok: return
        names = {"dist": "largest_center_to_vertex_distances_with_radius", "dist1": "largest_center_to_vertex_distance_with_radius",
                 "arr": "nested::to_shs_min_max_array", "allsky": L + "allsky_bmoc_builder", "has": "has_best_starting_depth", "best": "best_starting_depth"}
        self.n = names
        opaque = {rec.path, PUSH, names["dist"], names["dist1"], names["arr"], names["allsky"], names["has"], names["best"], "nested::get_or_create",
                  L + "hash", L + "neighbours", L + "n_moc_cell_in_cone_upper_bound", "nested::shs_computer", "nested::h_to_h_and_shs", "nested::shs_lower_than",
                  L + "h_and_shs_to_lower_h", TSHS, "nested::bmoc::BMOCBuilderUnsafe::new"}
        self.e = Engine(crate, opaque=opaque)
        self.r = self.e.run(self.path)
        ctx.functions |= self.e.visited_fns
        self.evs = list(self.e.events.values())

    def calls(self, name):
        return [ev for ev in self.evs if ev.callee == name]


def lowering_shifts(ctx, crate, clause="lower-to-requested-depth"):
    """N: when the walk starts deeper than the requested depth (cones / ellipses smaller than a cell),
    the candidate cells found at the start depth are brought to the requested depth by
    `h >> 2 (start_depth - depth)`: the closure that does it for the cone (the one `h_and_shs_to_lower_h`
    returns) is run on a symbolic cell number with their captured values,
    and the result is read at (start_depth, depth) = (7, 4), (29, 0), (5, 5)."""
    from sym import State
    from rules.common import feval, param
    L = "nested::Layer::"
    S = ('deref', param("self"))
    depth_f = ('fld', S, crate.field_index("nested::Layer", "depth"))
    cases = []
    # (parent, how to find the closure)
    for parent in (L + "h_and_shs_to_lower_h",):      # (the `map` of the small-ellipse branch subtracts through `Sub<&u8>`, an opaque call: not read)
        pb = crate.body(parent)
        if pb is None: continue
        e = Engine(crate); clos = []
        def vh(v, loc, facts, _c=clos, _p=parent):
            if v[0] == 'agg' and isinstance(v[1], str) and v[1].startswith('closure:' + _p + '::{closure'): _c.append(v)
        e.value_hook = vh
        e.run(parent); ctx.functions |= e.visited_fns
        seen = set()
        for clo in clos:
            path = clo[1][len('closure:'):]
            if path in seen: continue
            seen.add(path)
            cb = crate.body(path)
            if cb is None or cb.arg_count != 2: continue
            e2 = Engine(crate); st = State()
            if cb.local_ty(1)["k"] == "ref":
                st.heap[('tmp', 'env')] = clo; a0 = ('ref_t', ('tmp', 'env'))
            else: a0 = clo
            arg = ('p', 'cell')
            r = e2.run_body(cb, [a0, arg], st, fk=((path, -1),), stack=(path,))
            if not r.returns: continue
            t = r.ret
            if not (t[0] == 'op' and t[1] in ('shr', 'shl') and t[2] == 'u64'): continue          # not a lowering closure
            cases.append((parent, path, t, e2, arg))
    n = 0
    for parent, path, t, e2, arg in cases:
        leaves = {x for x in ([arg, ('fld', arg, 0)]) }
        # the deeper depth is the parameter / local of the parent captured by the closure: any leaf that is not the cell, the layer depth or a constant
        deep = set()
        def scan(x, d=0):
            if d > 12 or not isinstance(x, tuple): return
            if x in (arg, ('fld', arg, 0), depth_f) or x[0] == 'c': return
            if x[0] in ('op', 'un', 'cast'):
                for y in x[3:]: scan(y, d + 1)
                return
            if x[0] == 'deref' and x[1] == depth_f: return
            deep.add(x)
        scan(t[4])
        ok = len(deep) == 1 and t[1] == 'shr' and t[3] in (arg, ('fld', arg, 0))
        if ok:
            D = next(iter(deep))
            for sd, dd in ((7, 4), (29, 0), (5, 5)):
                hv = 0x3a5f17c2b >> 0
                env = {arg: hv, ('fld', arg, 0): hv, D: sd, depth_f: dd, ('deref', depth_f): dd}
                if feval(t, env, e2) != (hv >> (2 * (sd - dd))): ok = False
        n += 1
        ctx.report(clause, "%s:h>>2(start-depth)" % path.replace("nested::Layer::", ""), ok, "h >> 2 (start_depth - depth)" if ok else "the closure computes %s" % show(t)[:80], at=crate.body(path).span, kind="N")
    ctx.floor("lowering-closures", n, 1)
