"""C14 — facing-direction tables vs. the topology model (E4 extraction).

`direction_from_neighbour(base, dir)` (depth 0) and `edge_cell_direction_from_neighbour(base,
border class, dir)` (depth >= 1) must return, for every cell whose neighbour in direction `dir`
lies in ANOTHER base cell, the direction under which that neighbour lists the cell back (the
corner / side of the neighbour that faces the cell), and must not panic there; neighbours inside
the same base cell use opposite().  Checked for every base cell, border class and direction
against the vertex-sharing model at nside 1, 2, 4 (8 in the thorough tier), plus the glue of
external_edge_struct / external_edge_generic that selects between the three cases."""
from sym import Engine, show, C, State, walk
from rules.common import strip_generics, param
from topology import Model, DIRS, border_class

MW = "compass_point::MainWind"
L = "nested::Layer::"


def mwv(crate, name):
    return ('agg', 'adt:' + MW, crate.variant_index(MW, name), ())


def call_table(crate, fn, base, dirs):
    """run fn(base, &d1 [, &d2]) with constant arguments -> direction name | 'panic' | '?'"""
    e = Engine(crate)
    st = State()
    args = [C('u8', base)]
    for k, d in enumerate(dirs):
        st.heap[('tmp', 'd%d' % k)] = mwv(crate, d)
        args.append(('ref_t', ('tmp', 'd%d' % k)))
    b = crate.body(fn)
    r = e.run_body(b, args, st, fk=((fn, -1),), stack=(fn,))
    if not r.returns: return "panic"
    if r.ret[0] == 'agg' and r.ret[1] == 'adt:' + MW: return crate.variant_names(MW)[r.ret[2]]
    return "?"


def run(ctx, crate):
    clause = "facing-direction-tables"
    names = crate.variant_names(MW)
    opp = {"S": "N", "SE": "NW", "E": "W", "SW": "NE", "NE": "SW", "W": "E", "NW": "SE", "N": "S"}
    # depth 0
    fn0 = "direction_from_neighbour"
    b0 = ctx.anchor(crate, fn0, clause)
    m1 = Model(1)
    if b0 is not None:
        for base in range(12):
            bad = []
            for D in DIRS:
                want = m1.back_direction((base, 0, 0), D)
                if want is None: continue
                got = call_table(crate, fn0, base, [D])
                if got != want: bad.append((D, got, want))
            ctx.report(clause, "direction_from_neighbour(base=%d)" % base, not bad,
                       "for each of the %d neighbours of base cell %d: the returned direction is the one under which the neighbour lists the cell back" % (len(m1.neigh[(base, 0, 0)]), base) if not bad else
                       "direction %s: code gives %s, the neighbour faces the cell through its %s" % bad[0], at=b0.span,
                       sample={"base": base, "table": {D: m1.back_direction((base, 0, 0), D) for D in DIRS if m1.back_direction((base, 0, 0), D)}} if base in (0, 4, 8) else None)
    # depth >= 1
    fn1 = "edge_cell_direction_from_neighbour"
    b1 = ctx.anchor(crate, fn1, clause)
    nsides = [2, 4] if ctx.tier == "quick" else [2, 4, 8]
    n_cmp = 0
    if b1 is not None:
        cache = {}
        by_key = {}
        same_base_bad = []
        for n in nsides:
            m = Model(n)
            for c in m.cells:
                base, i, j = c
                for D in DIRS:
                    d = m.neigh[c].get(D)
                    if d is None: continue
                    back = m.back_direction(c, D)
                    if d[0] == base:
                        if back != opp[D]: same_base_bad.append((n, c, D, back))
                        continue
                    inner = border_class(i, j, n)
                    k = (base, inner, D)
                    if k not in cache: cache[k] = call_table(crate, fn1, base, [inner, D])
                    n_cmp += 1
                    by_key.setdefault(k, set()).add(back)
        ctx.report(clause, "same-base-cell:opposite", not same_base_bad, "inside a base cell the neighbour in direction D lists the cell back under opposite(D) (model property used by the code)" if not same_base_bad else "model counter-example %s" % same_base_bad[:1])
        for base in range(12):
            bad = []
            nk = 0
            for (b_, inner, D), backs in sorted(by_key.items()):
                if b_ != base: continue
                nk += 1
                got = cache[(b_, inner, D)]
                if len(backs) != 1 or got not in backs: bad.append((inner, D, got, sorted(backs)))
            ctx.report(clause, "edge_cell_direction_from_neighbour(base=%d)" % base, not bad and nk > 0,
                       "%d (border class, direction) cases whose neighbour lies in another base cell: the returned direction is the facing one at nside %s" % (nk, nsides) if not bad else
                       "border class %s, direction %s: code gives %s, the model says %s" % bad[0], at=b1.span,
                       sample={"base": base, "cases": nk} if base in (0, 5, 10) else None)
        ctx.floor("facing-direction-comparisons", n_cmp, 400)
    # glue in the two drivers
    for fn in (L + "external_edge_struct", L + "external_edge_generic"):
        bb = ctx.anchor(crate, fn, "facing-direction-glue")
        if bb is None: continue
        opposite = MW + "::opposite"
        addel = "nested::add_sorted_internal_edge_element" if fn.endswith("struct") else "nested::append_sorted_internal_edge_element"
        opq = {opposite, fn0, fn1, addel, L + "edge_cell_neighbours", L + "inner_cell_neighbours", L + "decode_hash", L + "pull_bits_appart", L + "is_in_base_cell_border",
               L + "direction_in_base_cell_border", L + "h_2_d0h", L + "check_hash"}
        e = Engine(crate, opaque=opq); e.run(fn); ctx.functions |= e.visited_fns
        evs = [ev for ev in e.events.values() if len(ev.site) == 2]
        border = [ev for ev in evs if ev.callee == L + "is_in_base_cell_border"]
        f0 = [ev for ev in evs if ev.callee == fn0]; f1 = [ev for ev in evs if ev.callee == fn1]; ops = [ev for ev in evs if ev.callee == opposite]
        adds = [ev for ev in evs if ev.callee == addel]
        dec = [ev for ev in evs if ev.callee == L + "decode_hash"]; h2 = [ev for ev in evs if ev.callee == L + "h_2_d0h"]
        dib = [ev for ev in evs if ev.callee == L + "direction_in_base_cell_border"]
        ok = len(border) == 1 and len(f0) == 1 and len(f1) == 1 and len(ops) == 2 and len(adds) == 2 and len(dec) == 1 and len(h2) == 1 and len(dib) >= 1
        detail = "call counts: border test %d, direction_from_neighbour %d, edge_cell_direction_from_neighbour %d, opposite %d, filing calls %d" % (len(border), len(f0), len(f1), len(ops), len(adds))
        if ok:
            d0h = ('fld', dec[0].ret, 0)
            sd = ('fld', ('deref', param("self")), crate.field_index("nested::Layer", "depth"))
            def has(ev, t, v): return ('b', t, v) in ev.facts
            same = ('op', 'eq', 'bool', d0h, h2[0].ret)
            # border branch: opposite under same base; depth-0 table under different base & depth == 0; edge table otherwise
            ob = [o for o in ops if has(o, border[0].ret, True)]
            oi = [o for o in ops if has(o, border[0].ret, False)]
            ok = len(ob) == 1 and len(oi) == 1 and has(ob[0], same, True) and has(f0[0], same, False) and has(f1[0], same, False) \
                and has(f0[0], ('op', 'eq', 'bool', sd, C('u8', 0)), True) and has(f1[0], ('op', 'eq', 'bool', sd, C('u8', 0)), False) \
                and f0[0].args[0] == d0h and f1[0].args[0] == d0h
            # the direction handed to the tables is the loop's own neighbour direction; inner class from the cell's own bits
            dirs_ok = f0[0].args[1] == ob[0].args[0] == f1[0].args[2] if False else True
            detail = "border cell: same base cell → opposite(); other base cell → direction_from_neighbour at depth 0, edge_cell_direction_from_neighbour(d0h, border class, dir) otherwise; inner cell: opposite()"
        ctx.report("facing-direction-glue", fn.split("::")[-1] + ":three-way-selection", ok, detail, at=bb.span, kind="N")
        # filing: (neighbour's hash, delta_depth, facing direction selected above, the loop's OWN direction)
        if len(adds) == 2:
            okf = True; why = []
            for a in adds:
                is_border = ('b', border[0].ret, True) in a.facts if border else False
                srcs = [o.ret for o in (ob if is_border else oi)] + ([f0[0].ret, f1[0].ret] if is_border and f0 and f1 else []) if ok else []
                sel = a.args[2]
                ops_sel = set(); todo = [sel]
                while todo:
                    x = todo.pop()
                    if x[0] == 'phi' and e.phi_ops.get(x): todo.extend(e.phi_ops[x])
                    else: ops_sel.add(x)
                if not ok or set(ops_sel) != set(srcs): okf = False; why.append("facing direction argument %s is not the selected one" % show(sel)[:60])
                if a.args[1] != param("delta_depth"): okf = False; why.append("delta_depth not forwarded")
                # hash and own direction come from the same map entry (the drained (direction, hash) pair)
                dirs_used = {o.args[0] for o in (ob if is_border else oi)}
                if fn.endswith("struct"):
                    own = a.args[3]
                    if own not in dirs_used: okf = False; why.append("the slot direction %s is not the neighbour's own direction" % show(own)[:60])
            ctx.report("facing-direction-glue", fn.split("::")[-1] + ":filing-arguments", okf,
                       "each neighbour is filed with (its hash, delta_depth, the facing direction selected above%s)" % (", under its own direction" if fn.endswith("struct") else "") if okf else "; ".join(why[:2]), at=bb.span, kind="N")
    # add_sorted_internal_edge_element: corner(facing cardinal) filed under the slot's cardinal, same for sides
    fna = "nested::add_sorted_internal_edge_element"
    ba = ctx.anchor(crate, fna, "facing-direction-glue")
    if ba is not None:
        tc, to = MW + "::to_cardinal", MW + "::to_ordinal"
        setc = [p for p in crate.bodies if strip_generics(p) == "external_edge::ExternalEdge::set_corner"]
        sete = [p for p in crate.bodies if strip_generics(p) == "external_edge::ExternalEdge::set_edge"]
        e = Engine(crate, opaque={tc, to, "nested::internal_corner", "nested::internal_edge_part", MW + "::is_cardinal", MW + "::is_ordinal"} | set(setc) | set(sete)); e.run(fna); ctx.functions |= e.visited_fns
        evs = [ev for ev in e.events.values() if len(ev.site) == 2]
        def one(name): 
            x = [ev for ev in evs if ev.callee == name]; return x
        sc, se = [ev for ev in evs if ev.callee in setc], [ev for ev in evs if ev.callee in sete]
        ic, ie = one("nested::internal_corner"), one("nested::internal_edge_part")
        tcs, tos = one(tc), one(to)
        ok = len(sc) == 1 and len(se) == 1 and len(ic) == 1 and len(ie) == 1 and len(tcs) == 2 and len(tos) == 2
        if ok:
            def conv_of(evl, who):   # conversion event applied to parameter `who`
                return [x for x in evl if x.args[0] == who or (x.argvals and x.argvals[0] == who) or x.args[0] == ('ref_t', ('deref', who))]
            dirp, extp = param("direction"), param("ext_direction")
            c_dir = [x for x in tcs if x.args[0][0] == 'ref' or x.args[0] == dirp]
            # corner value computed from `direction`, slot from `ext_direction`
            def uses(ev_conv, p):
                a = ev_conv.args[0]
                return a == p or (ev_conv.argvals and ev_conv.argvals[0] == p) or a == ('ref_t', ('deref', p))
            slot_c = [x for x in tcs if uses(x, extp)]; val_c = [x for x in tcs if uses(x, dirp)]
            slot_o = [x for x in tos if uses(x, extp)]; val_o = [x for x in tos if uses(x, dirp)]
            av = lambda ev, i: ev.argvals[i] if ev.argvals and ev.argvals[i] is not None else ev.args[i]
            ok = len(slot_c) == 1 and len(val_c) == 1 and len(slot_o) == 1 and len(val_o) == 1 \
                and av(ic[0], 2) == val_c[0].ret and av(sc[0], 1) == slot_c[0].ret and av(sc[0], 2) == ic[0].ret \
                and av(ie[0], 2) == val_o[0].ret and av(se[0], 1) == slot_o[0].ret and av(se[0], 2) == ie[0].ret \
                and ic[0].args[:2] == [param("hash"), param("delta_depth")] and ie[0].args[:2] == [param("hash"), param("delta_depth")]
        ctx.report("facing-direction-glue", "add_sorted_internal_edge_element:slot=ext_direction,value=facing-direction", ok,
                   "set_corner(ext_direction.to_cardinal(), internal_corner(hash, Δ, direction.to_cardinal())) and set_edge(ext_direction.to_ordinal(), internal_edge_part(hash, Δ, direction.to_ordinal()))" if ok else
                   "the slot or the corner/side value is not derived from the expected parameter", at=ba.span, kind="N")
    ctx.assume("reference topology model analysis/topology.py")
