"""C14 — facing-direction tables vs. the topology model (E4 extraction).

`direction_from_neighbour(base, dir)` (depth 0) and `edge_cell_direction_from_neighbour(base,
border class, dir)` (depth >= 1) must return, for every cell whose neighbour in direction `dir`
lies in ANOTHER base cell, the direction under which that neighbour lists the cell back (the
corner / side of the neighbour that faces the cell), and must not panic there; neighbours inside
the same base cell use opposite().  Checked for every base cell, border class and direction
against the vertex-sharing model at nside 1, 2, 4 (8 in the thorough tier), plus the glue of
external_edge_struct / external_edge_generic that selects between the three cases."""
from sym import Engine, show, C, State, walk
from rules.common import strip_generics, param
from topology import Model, DIRS, border_class

MW = "compass_point::MainWind"
L = "nested::Layer::"


def mwv(crate, name):
    return ('agg', 'adt:' + MW, crate.variant_index(MW, name), ())


def call_table(crate, fn, base, dirs):
    """run fn(base, &d1 [, &d2]) with constant arguments -> direction name | 'panic' | '?'"""
    e = Engine(crate)
    st = State()
    args = [C('u8', base)]
    for k, d in enumerate(dirs):
        st.heap[('tmp', 'd%d' % k)] = mwv(crate, d)
        args.append(('ref_t', ('tmp', 'd%d' % k)))
    b = crate.body(fn)
    r = e.run_body(b, args, st, fk=((fn, -1),), stack=(fn,))
    if not r.returns: return "panic"
    if r.ret[0] == 'agg' and r.ret[1] == 'adt:' + MW: return crate.variant_names(MW)[r.ret[2]]
    return "?"


def run(ctx, crate):
    clause = "facing-direction-tables"
    names = crate.variant_names(MW)
    opp = {"S": "N", "SE": "NW", "E": "W", "SW": "NE", "NE": "SW", "W": "E", "NW": "SE", "N": "S"}
    # depth 0
    fn0 = "direction_from_neighbour"
    b0 = ctx.anchor(crate, fn0, clause)
    m1 = Model(1)
    if b0 is not None:
        for base in range(12):
            bad = []
            for D in DIRS:
                want = m1.back_direction((base, 0, 0), D)
                if want is None: continue
                got = call_table(crate, fn0, base, [D])
                if got != want: bad.append((D, got, want))
            ctx.report(clause, "direction_from_neighbour(base=%d)" % base, not bad,
                       "for each of the %d neighbours of base cell %d: the returned direction is the one under which the neighbour lists the cell back" % (len(m1.neigh[(base, 0, 0)]), base) if not bad else
                       "direction %s: code gives %s, the neighbour faces the cell through its %s" % bad[0], at=b0.span,
                       sample={"base": base, "table": {D: m1.back_direction((base, 0, 0), D) for D in DIRS if m1.back_direction((base, 0, 0), D)}} if base in (0, 4, 8) else None)
    # depth >= 1
    fn1 = "edge_cell_direction_from_neighbour"
    b1 = ctx.anchor(crate, fn1, clause)
    nsides = [2, 4] if ctx.tier == "quick" else [2, 4, 8]
    n_cmp = 0
    if b1 is not None:
        cache = {}
        by_key = {}
        same_base_bad = []
        for n in nsides:
            m = Model(n)
            for c in m.cells:
                base, i, j = c
                for D in DIRS:
                    d = m.neigh[c].get(D)
                    if d is None: continue
                    back = m.back_direction(c, D)
                    if d[0] == base:
                        if back != opp[D]: same_base_bad.append((n, c, D, back))
                        continue
                    inner = border_class(i, j, n)
                    k = (base, inner, D)
                    if k not in cache: cache[k] = call_table(crate, fn1, base, [inner, D])
                    n_cmp += 1
                    by_key.setdefault(k, set()).add(back)
        ctx.report(clause, "same-base-cell:opposite", not same_base_bad, "inside a base cell the neighbour in direction D lists the cell back under opposite(D) (model property used by the code)" if not same_base_bad else "model counter-example %s" % same_base_bad[:1])
        for base in range(12):
            bad = []
            nk = 0
            for (b_, inner, D), backs in sorted(by_key.items()):
                if b_ != base: continue
                nk += 1
                got = cache[(b_, inner, D)]
                if len(backs) != 1 or got not in backs: bad.append((inner, D, got, sorted(backs)))
            ctx.report(clause, "edge_cell_direction_from_neighbour(base=%d)" % base, not bad and nk > 0,
                       "%d (border class, direction) cases whose neighbour lies in another base cell: the returned direction is the facing one at nside %s" % (nk, nsides) if not bad else
                       "border class %s, direction %s: code gives %s, the model says %s" % bad[0], at=b1.span,
                       sample={"base": base, "cases": nk} if base in (0, 5, 10) else None)
        ctx.floor("facing-direction-comparisons", n_cmp, 400)
    # glue in the two drivers
    for fn in (L + "external_edge_struct", L + "external_edge_generic"):
        bb = ctx.anchor(crate, fn, "facing-direction-glue")
        if bb is None: continue
        opposite = MW + "::opposite"
        addel = "nested::add_sorted_internal_edge_element" if fn.endswith("struct") else "nested::append_sorted_internal_edge_element"
        opq = {opposite, fn0, fn1, addel, L + "edge_cell_neighbours", L + "inner_cell_neighbours", L + "decode_hash", L + "pull_bits_appart", L + "is_in_base_cell_border",
               L + "direction_in_base_cell_border", L + "h_2_d0h", L + "check_hash"}
        e = Engine(crate, opaque=opq); e.run(fn); ctx.functions |= e.visited_fns
        evs = [ev for ev in e.events.values() if len(ev.site) == 2]
        border = [ev for ev in evs if ev.callee == L + "is_in_base_cell_border"]
        f0 = [ev for ev in evs if ev.callee == fn0]; f1 = [ev for ev in evs if ev.callee == fn1]; ops = [ev for ev in evs if ev.callee == opposite]
        adds = [ev for ev in evs if ev.callee == addel]
        dec = [ev for ev in evs if ev.callee == L + "decode_hash"]; h2 = [ev for ev in evs if ev.callee == L + "h_2_d0h"]
        dib = [ev for ev in evs if ev.callee == L + "direction_in_base_cell_border"]
        ok = len(border) == 1 and len(f0) == 1 and len(f1) == 1 and len(ops) == 2 and len(adds) == 2 and len(dec) == 1 and len(h2) == 1 and len(dib) >= 1
        detail = "call counts: border test %d, direction_from_neighbour %d, edge_cell_direction_from_neighbour %d, opposite %d, filing calls %d" % (len(border), len(f0), len(f1), len(ops), len(adds))
        if ok:
            d0h = ('fld', dec[0].ret, 0)
            sd = ('fld', ('deref', param("self")), crate.field_index("nested::Layer", "depth"))
            def has(ev, t, v): return ('b', t, v) in ev.facts
            same = ('op', 'eq', 'bool', d0h, h2[0].ret)
            # border branch: opposite under same base; depth-0 table under different base & depth == 0; edge table otherwise
            ob = [o for o in ops if has(o, border[0].ret, True)]
            oi = [o for o in ops if has(o, border[0].ret, False)]
            ok = len(ob) == 1 and len(oi) == 1 and has(ob[0], same, True) and has(f0[0], same, False) and has(f1[0], same, False) \
                and has(f0[0], ('op', 'eq', 'bool', sd, C('u8', 0)), True) and has(f1[0], ('op', 'eq', 'bool', sd, C('u8', 0)), False) \
                and f0[0].args[0] == d0h and f1[0].args[0] == d0h
            # the direction handed to the tables is the loop's own neighbour direction; inner class from the cell's own bits
            dirs_ok = f0[0].args[1] == ob[0].args[0] == f1[0].args[2] if False else True
            detail = "border cell: same base cell → opposite(); other base cell → direction_from_neighbour at depth 0, edge_cell_direction_from_neighbour(d0h, border class, dir) otherwise; inner cell: opposite()"
        ctx.report("facing-direction-glue", fn.split("::")[-1] + ":three-way-selection", ok, detail, at=bb.span, kind="N")
    ctx.assume("reference topology model analysis/topology.py")
