"""C14 — internal / external edges.

D  per delta_depth 0..=29 (E5, loop variable and cell number symbolic): the four corner helpers
   return hash*4^delta | (0|a, 0|a) and the four side helpers (and their append_ twins) push
   hash*4^delta | spread(running coordinate) | fixed coordinate, over the full range 0..2^delta;
D  dispatch of internal_corner / internal_edge_part / append_internal_edge_part by direction;
D  the convenience functions accept every (depth, delta_depth) with depth + delta_depth <= 29;
   (facing-direction tables vs. topology: c14_tables, when present)."""
from sym import Engine, show, C, walk
from bits import Bits, sym_bits, spread_bits, fmt, ZERO, ONE, const_bits, bor
from rules.common import strip_generics, cmp_facts, cval, run_fn, param

N = "nested::"
CORNERS = {"south": (0, 0), "east": (1, 0), "west": (0, 1), "north": (1, 1)}
SIDES = {"southeast": ("x", None, 0), "southwest": ("y", None, 0), "northeast": ("y", "x", 1), "northwest": ("x", "y", 1)}
# side: (running coordinate, fixed coordinate at a = 2^delta-1 or None for 0)


def spec_value(hb, delta, xbits=None, ybits=None):
    """hash << 2*delta | spread(x) | spread(y) << 1"""
    out = ([ZERO] * (2 * delta) + hb)[:64]
    for bits, off in ((xbits, 0), (ybits, 1)):
        if bits is None: continue
        sp = spread_bits(bits, 64, off)
        out = [bor(a, b) for a, b in zip(out, sp)]
    return out


def corners(ctx, crate, deltas):
    clause = "corner-helpers"
    for name, (fx, fy) in CORNERS.items():
        fn = N + "internal_corner_" + name
        b = ctx.anchor(crate, fn, clause)
        if b is None: continue
        bad = []
        for d in deltas:
            e, r = run_fn(crate, fn, [param("hash"), C('u8', d)]); ctx.functions |= e.visited_fns
            hb = sym_bits('h', 64, 64 - 2 * d)
            v = Bits(crate, {param("hash"): hb}, e.phi_ops).ev(r.ret) if r.returns else None
            a = const_bits((1 << d) - 1, 32)
            want = spec_value(hb, d, a if fx else None, a if fy else None)
            if v != want: bad.append((d, fmt(v)[:100] if isinstance(v, list) else v))
        ctx.report(clause, fn, not bad, "for every delta_depth in %d..=%d: = hash<<2Δ | (x=%s, y=%s) with a = 2^Δ-1" % (deltas[0], deltas[-1], "a" if fx else "0", "a" if fy else "0") if not bad else "wrong for delta %s" % bad[:2], at=b.span,
                   sample={"helper": fn, "deltas": len(deltas)})


def side_fn(ctx, crate, fn, running, fixed, deltas, clause):
    b = ctx.anchor(crate, fn, clause)
    if b is None: return
    bad = []
    for d in deltas:
        e = Engine(crate); r = e.run(fn, [param("hash"), C('u8', d)] + ([param("result")] if fn.split("::")[-1].startswith("append_") else []))
        ctx.functions |= e.visited_fns
        from rules.common import loop_var_range, loop_bound_from_facts
        pushes = [ev for ev in e.events.values() if ev.callee and strip_generics(ev.callee).endswith("Vec::push")]
        if len(pushes) != 1:
            bad.append((d, "expected one push site, found %d" % len(pushes))); continue
        val = pushes[0].args[1]
        # the loop variable: payload of Range::next (for-loop) or a counter merged at the loop head (while-loop)
        loopvars = set(); rng_ok = None
        for x in walk(val):
            if (x[0] == 'fld' and x[1][0] == 'dc') or x[0] == 'phi':
                lr = loop_var_range(e, x)
                if lr is None: continue
                start, end = lr
                if end is None: end = loop_bound_from_facts(pushes[0].facts, x)
                loopvars.add(x)
                rng_ok = (start is not None and start[0] == 'c' and start[2] == 0 and end is not None and end[0] == 'c' and end[2] == (1 << d), show(start), show(end) if end else None)
        if rng_ok is None:
            if d == 0:
                rng_ok = (True, "0", "1")       # 2^0 = 1 iteration; the coordinate spreads to 0 bits: nothing to find in the value
            else:
                bad.append((d, "no loop counter found in the pushed value %s" % show(val)[:80])); continue
        if not rng_ok[0]: bad.append((d, "loop range is %s..%s, expected 0..%d" % (rng_ok[1], rng_ok[2], 1 << d))); continue
        hb = sym_bits('h', 64, 64 - 2 * d)
        kb = sym_bits('k', 32, d)
        inputs = {param("hash"): hb}
        for lv in loopvars: inputs[lv] = kb
        bits = Bits(crate, inputs, e.phi_ops)
        v = bits.ev(val)
        a = const_bits((1 << d) - 1, 32)
        xb = kb if running == "x" else (a if fixed == "x" else None)
        yb = kb if running == "y" else (a if fixed == "y" else None)
        want = spec_value(hb, d, xb, yb)
        if v != want: bad.append((d, "pushed %s: %s %s" % (show(val)[:80], fmt(v)[:80] if isinstance(v, list) else v, bits.why_top[:1])))
    ctx.report(clause, fn, not bad,
               "for every delta_depth in %d..=%d the loop runs k over 0..2^Δ and pushes hash<<2Δ | %s = k, %s" % (deltas[0], deltas[-1], running, ("%s = 2^Δ-1" % fixed) if fixed else "other coordinate 0") if not bad else "wrong for %s" % bad[:2],
               at=b.span, sample={"helper": fn, "deltas": len(deltas), "running": running, "fixed": fixed})


def sides(ctx, crate, deltas):
    for name, (running, fixed, _) in SIDES.items():
        side_fn(ctx, crate, N + "internal_edge_" + name, running, fixed, deltas, "side-helpers")
        side_fn(ctx, crate, N + "append_internal_edge_" + name, running, fixed, deltas, "side-helpers")


def dispatch(ctx, crate):
    clause = "dispatch"
    # internal_corner by Cardinal
    card = crate.variant_names("compass_point::Cardinal")
    want_c = {"S": "south", "E": "east", "N": "north", "W": "west"}
    fn = N + "internal_corner"
    b = ctx.anchor(crate, fn, clause)
    helpers = {N + "internal_corner_" + x for x in CORNERS}
    if b is not None:
        for vi, nme in enumerate(card):
            e = Engine(crate, opaque=helpers)
            from sym import State
            st = State(); st.heap[('tmp', 'dir')] = ('agg', 'adt:compass_point::Cardinal', vi, ())
            r = e.run_body(crate.body(fn), [param("hash"), param("delta_depth"), ('ref_t', ('tmp', 'dir'))], st, fk=((fn, -1),), stack=(fn,))
            called = [ev.callee for ev in e.events.values() if ev.callee in helpers]
            ok = called == [N + "internal_corner_" + want_c[nme]] and r.returns and r.ret == [ev for ev in e.events.values() if ev.callee in helpers][0].ret
            ctx.report(clause, "internal_corner:%s" % nme, ok, "Cardinal::%s → %s" % (nme, called), at=b.span)
    ordn = crate.variant_names("compass_point::Ordinal")
    want_o = {"SE": "southeast", "SW": "southwest", "NE": "northeast", "NW": "northwest"}
    for fn, prefix in ((N + "internal_edge_part", "internal_edge_"), (N + "append_internal_edge_part", "append_internal_edge_")):
        b = ctx.anchor(crate, fn, clause)
        if b is None: continue
        helpers = {N + prefix + x for x in SIDES}
        for vi, nme in enumerate(ordn):
            e = Engine(crate, opaque=helpers)
            from sym import State
            st = State(); st.heap[('tmp', 'dir')] = ('agg', 'adt:compass_point::Ordinal', vi, ())
            args = [param("hash"), param("delta_depth"), ('ref_t', ('tmp', 'dir'))] + ([param("result")] if prefix.startswith("append") else [])
            r = e.run_body(crate.body(fn), args, st, fk=((fn, -1),), stack=(fn,))
            evs = [ev for ev in e.events.values() if ev.callee in helpers]
            ok = [ev.callee for ev in evs] == [N + prefix + want_o[nme]] and evs[0].args[0] == param("hash") and evs[0].args[1] == param("delta_depth")
            ctx.report(clause, "%s:%s" % (fn.split("::")[-1], nme), ok, "Ordinal::%s → %s" % (nme, [ev.callee for ev in evs]), at=b.span)
    # cardinal -> corner, ordinal -> side in the two routing functions
    for fn, corner, side in ((N + "add_sorted_internal_edge_element", N + "internal_corner", N + "internal_edge_part"),
                             (N + "append_sorted_internal_edge_element", N + "internal_corner", N + "append_internal_edge_part")):
        b = ctx.anchor(crate, fn, clause)
        if b is None: continue
        e = Engine(crate, opaque={corner, side, "compass_point::MainWind::is_cardinal", "compass_point::MainWind::is_ordinal", "compass_point::MainWind::to_cardinal", "compass_point::MainWind::to_ordinal"})
        e.run(fn); ctx.functions |= e.visited_fns
        isc = {ev.ret for ev in e.events.values() if ev.callee == "compass_point::MainWind::is_cardinal"}
        iso = {ev.ret for ev in e.events.values() if ev.callee == "compass_point::MainWind::is_ordinal"}
        cev = [ev for ev in e.events.values() if ev.callee == corner]
        sev = [ev for ev in e.events.values() if ev.callee == side]
        okc = len(cev) == 1 and any(('b', t, True) in cev[0].facts for t in isc)
        oks = len(sev) == 1 and any(('b', t, True) in sev[0].facts for t in iso)
        ctx.report(clause, fn.split("::")[-1] + ":routing", okc and oks, "corner helper under is_cardinal(): %s; side helper under is_ordinal(): %s" % (okc, oks), at=b.span)


def domain(ctx, crate):
    clause = "domain-guard"
    for fn in (N + "internal_edge", N + "internal_edge_sorted", N + "external_edge_struct", N + "external_edge", N + "external_edge_sorted"):
        b = ctx.anchor(crate, fn, clause)
        if b is None: continue
        heavy = {n for n in crate.bodies if n.startswith("nested::Layer::") and ("edge" in n)}
        e = Engine(crate, opaque=heavy); r = e.run(fn); ctx.functions.add(fn)
        if not r.returns:
            ctx.violated(clause, fn.split("::")[-1] and fn + ":domain", "never returns normally", at=b.span); continue
        s = ('op', 'add', 'u8', param("depth"), param("delta_depth"))
        rej = []
        for op, a, c, pos in cmp_facts(r.facts):
            # facts constraining depth + delta_depth (either operand order)
            for x, y, o in ((a, c, op), (c, a, {"lt": "gt", "le": "ge", "gt": "lt", "ge": "le", "eq": "eq", "ne": "ne"}[op])):
                if x in (s, ('op', 'add', 'u8', param("delta_depth"), param("depth"))) and cval(y) is not None:
                    if not pos: o = {"lt": "ge", "le": "gt", "gt": "le", "ge": "lt", "eq": "ne", "ne": "eq"}[o]
                    k = cval(y)
                    excluded_valid = (o == "lt" and k <= 29) or (o == "le" and k < 29) or o in ("gt", "ge", "eq")
                    if excluded_valid: rej.append("depth + delta_depth %s %d" % ({"lt": "<", "le": "<=", "gt": ">", "ge": ">=", "eq": "=="}[o], k))
        ctx.report(clause, fn + ":domain", not rej,
                   "no fact established on depth + delta_depth at a normal return excludes a sum <= 29" if not rej else "valid inputs are rejected: every normal return requires %s (depth + delta_depth = 29 is a valid deepest depth)" % rej,
                   at=b.span, sample={"fn": fn, "rejecting_facts": rej})


def walk_shape(ctx, crate, deltas):
    """N: internal_edge: four corner pushes and four loops, in the order S corner, SE side, E corner, NE side, N corner, NW side (reversed), W corner, SW side (reversed)"""
    clause = "internal-edge-walk"
    fn = "nested::Layer::internal_edge"
    b = ctx.anchor(crate, fn, clause)
    if b is None: return
    body = b
    bad = []
    for d in deltas:
        e = Engine(crate); r = e.run(fn, [param("hash"), C('u8', d)]); ctx.functions |= e.visited_fns
        pushes = [ev for ev in e.events.values() if ev.callee and strip_generics(ev.callee).endswith("Vec::push") and len(ev.site) == 2]
        # order the push sites by dominance depth
        rpo = body.rpo()
        pushes.sort(key=lambda ev: rpo.get(ev.site[-1][1], 1 << 30))
        if len(pushes) != 8: bad.append((d, "%d push sites" % len(pushes))); continue
        hb = sym_bits('h', 64, 64 - 2 * d); kb = sym_bits('k', 32, d); a = const_bits((1 << d) - 1, 32)
        # a - k on d-bit k with k in 1..a: as bits this is the complement of k on d bits
        from bits import bnot
        comp = [bnot(x) if i < d else ZERO for i, x in enumerate(kb)]
        exp = [(None, None), (kb, None), (a, None), (a, kb), (a, a), (comp, a), (None, a), (None, comp)]
        for ev, (xb, yb) in zip(pushes, exp):
            val = ev.args[1]
            loopvars = {x for x in walk(val) if x[0] == 'fld' and x[1][0] == 'dc'}
            inputs = {param("hash"): hb}
            for lv in loopvars: inputs[lv] = kb
            v = Bits(crate, inputs, e.phi_ops).ev(val)
            if v != spec_value(hb, d, xb, yb):
                bad.append((d, "push at %s: %s" % (ev.at, show(val)[:80]))); break
    ctx.report(clause, fn + ":S→E→N→W", not bad, "for each delta the 8 push sites are, in dominance order: S corner, (k,0), E corner, (a,k), N corner, (a-k,a), W corner, (0,a-k)" if not bad else "mismatch: %s" % bad[:2], at=b.span, kind="N")


def sorted_variant(ctx, crate):
    """internal_edge_sorted: decided only for the idiom `sort(internal_edge(hash, delta))` (then the
    result is the same set, increasing, by the contract of sort_unstable); any other implementation
    is recorded as not decided rather than reported (no brittle proxy)."""
    clause = "sorted-variant"
    fn = "nested::Layer::internal_edge_sorted"; src = "nested::Layer::internal_edge"
    b = ctx.anchor(crate, fn, clause)
    if b is None: return
    from rules.common import derives
    e = Engine(crate, opaque={src}); r = e.run(fn); ctx.functions |= e.visited_fns
    evs = [ev for ev in e.events.values() if len(ev.site) == 2]
    srcs = [ev for ev in evs if ev.callee == src]
    sorts = [ev for ev in evs if ev.callee and ("sort_unstable" in ev.callee or strip_generics(ev.callee).endswith("::sort"))]
    if len(srcs) == 1 and len(sorts) == 1 and srcs[0].args == [param("hash"), param("delta_depth")] and r.returns:
        rpo = b.rpo()
        vec_ok = derives(e, sorts[0].args[0], srcs[0].ret) or any(derives(e, av, srcs[0].ret) for av in (sorts[0].argvals or []) if av is not None)
        ret_ok = derives(e, r.ret, srcs[0].ret)
        others = [ev for ev in evs if ev.callee and strip_generics(ev.callee).split("::")[-1] in ("push", "append", "insert", "truncate", "dedup", "remove", "swap")]
        after = rpo.get(sorts[0].site[-1][1], 0)
        ok = vec_ok and ret_ok and not others
        ctx.report(clause, fn + ":=sort(internal_edge)", ok, "result = sort_unstable(internal_edge(hash, delta_depth)), no other mutation: same set, increasing" if ok else "the vector sorted / returned is not the one obtained from internal_edge, or is mutated otherwise", at=b.span)
    else:
        ctx.not_decided("internal_edge_sorted is not of the form sort(internal_edge(..)): its ordering arithmetic is not decided")


def slot_indices(ctx, crate):
    """N: the `index()` of the four cardinal and of the four ordinal directions — the slots of the
    corner / edge arrays of the external-edge structure — are a bijection onto 0..=3 (two directions
    sharing a slot overwrite each other's edge)."""
    from sym import State
    clause = "filing"
    for enum in ("compass_point::Cardinal", "compass_point::Ordinal"):
        fn = enum + "::index"
        b = ctx.anchor(crate, fn, clause)
        if b is None: continue
        names = crate.variant_names(enum)
        got = {}
        for vi, nm in enumerate(names):
            v = ('agg', 'adt:' + enum, vi, ())
            e = Engine(crate); st = State(); st.heap[('tmp', 'dir')] = v
            arg = ('ref_t', ('tmp', 'dir')) if b.local_ty(1)["k"] == "ref" else v
            r = e.run_body(b, [arg], st, fk=((fn, -1),), stack=(fn,)); ctx.functions |= e.visited_fns
            got[nm] = r.ret[2] if r.returns and r.ret[0] == 'c' else None
        ok = len(names) == 4 and sorted(x for x in got.values() if x is not None) == [0, 1, 2, 3]
        ctx.report(clause, fn + ":bijection-onto-0..3", ok, "slots %s" % got, at=b.span, kind="N")


def run(ctx):
    crate = ctx.crate("rel")
    deltas = list(range(0, 30)) if ctx.tier == "thorough" else [0, 1, 2, 8, 9, 16, 17, 29]
    corners(ctx, crate, deltas)
    sides(ctx, crate, deltas)
    dispatch(ctx, crate)
    domain(ctx, crate)
    walk_shape(ctx, crate, [d for d in deltas if d >= 1])
    sorted_variant(ctx, crate)
    slot_indices(ctx, crate)
    try:
        from rules import c14_tables
        c14_tables.run(ctx, crate)
    except ImportError:
        pass
    ctx.not_decided("duplicates in the external edge; loop bounds 1..am1 of internal_edge (exclusive of corners) are checked only through the pushed forms")
    ctx.assume("C18: the z-order curve selected for delta_depth is the bit interleave (the helpers are evaluated through the real implementations, devirtualised from get_zoc's static)")
    from rules import controls
    controls.bits_controls(ctx)
