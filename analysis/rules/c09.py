"""C09 — BMOC well-formedness and agreement of the views.

D  codec: for all 465 pairs depth <= depth_max <= 29, all hash bits and the flag symbolic (E5):
   every decoder (Cell::new, BMOC::get_depth, BMOCBuilderUnsafe::get_depth, free get_depth /
   get_hash_from_delta_depth, both flat iterators' next_cell) inverts build_raw_value; the layout
   is bits >= 2+2Δ = hash, bit 1+2Δ = sentinel, bits 1..2Δ zero, bit 0 = flag.
N  producers emit in z-order (recursion shape of the three *_recur functions);
N  who may construct a BMOC; no store to BMOC.entries after construction;
N  the views obtain (depth, hash) through the decoders proved above."""
from sym import Engine, show, C, walk, State
from bits import Bits, sym_bits, fmt, ZERO, ONE, as_const, const_bits
from rules.common import strip_generics

BRV = "nested::bmoc::build_raw_value"
M = "nested::bmoc::"


def raw_bits(depth, dmax, hb, fb):
    """specification of the layout"""
    d2 = 2 * (dmax - depth)
    out = [ZERO] * 64
    out[0] = fb[0]
    out[1 + d2] = ONE
    for k, x in enumerate(hb):
        if 2 + d2 + k < 64: out[2 + d2 + k] = x
    return out


def codec(ctx, crate, pairs):
    clause = "codec"
    ph, pf = ('p', 'hash'), ('p', 'is_full')
    need = [BRV, M + "Cell::new", M + "BMOC::get_depth", M + "BMOCBuilderUnsafe::get_depth", M + "get_depth",
            M + "get_hash_from_delta_depth", M + "BMOCFlatIter::<'a>::next_cell", M + "BMOCFlatIterCell::<'a>::next_cell"]
    names = {}
    for n in need:
        cand = [p for p in crate.bodies if strip_generics(p) == strip_generics(n)]
        if not cand:
            ctx.undecided(clause, "anchor:" + n, "decoder %s not found" % n); return 0
        names[n] = cand[0]; ctx.functions.add(cand[0])
    bmoc_f = [f["name"] for f in crate.adts["nested::bmoc::BMOC"]["variants"][0]["fields"]]
    bld_f = [f["name"] for f in crate.adts["nested::bmoc::BMOCBuilderUnsafe"]["variants"][0]["fields"]]
    n_ok = 0; failures = {}
    def fail(dec, pair, why):
        failures.setdefault(dec, []).append((pair, why))
    for depth, dmax in pairs:
        nh = 4 + 2 * depth
        hb = sym_bits('h', 64, nh); fb = sym_bits('f', 1)
        e0 = Engine(crate); r0 = e0.run(BRV, [C('u8', depth), ph, pf, C('u8', dmax)])
        inputs = {ph: hb, pf: fb}
        raw_t = r0.ret
        spec = raw_bits(depth, dmax, hb, fb)
        b0 = Bits(crate, dict(inputs), e0.phi_ops)
        rb = b0.ev(raw_t)
        if rb != spec: fail("build_raw_value", (depth, dmax), "layout %s" % (fmt(rb) if isinstance(rb, list) else rb)); continue
        pair = (depth, dmax)
        # Cell::new
        e = Engine(crate); r = e.run(names[M + "Cell::new"], [raw_t, C('u8', dmax)])
        b = Bits(crate, dict(inputs), {**e0.phi_ops, **e.phi_ops})
        if r.returns and r.ret[0] == 'agg' and len(r.ret[3]) == 4:
            cf = [f["name"] for f in crate.adts["nested::bmoc::Cell"]["variants"][0]["fields"]]
            vals = dict(zip(cf, r.ret[3]))
            vd, vh, vf, vr = b.ev(vals["depth"]), b.ev(vals["hash"]), b.ev(vals["is_full"]), b.ev(vals["raw_value"])
            if not (isinstance(vd, list) and as_const(vd) == depth): fail("Cell::new", pair, "depth %s" % (vd,))
            elif vh != hb: fail("Cell::new", pair, "hash %s" % (fmt(vh) if isinstance(vh, list) else vh))
            elif vf != fb: fail("Cell::new", pair, "flag %s" % (vf,))
            elif vr != spec: fail("Cell::new", pair, "raw value not preserved")
            else: n_ok += 1
        else: fail("Cell::new", pair, "no aggregate value")
        # BMOC::get_depth / builder get_depth (methods reading self.depth_max)
        for meth, fields, adt in ((M + "BMOC::get_depth", bmoc_f, "nested::bmoc::BMOC"), (M + "BMOCBuilderUnsafe::get_depth", bld_f, "nested::bmoc::BMOCBuilderUnsafe")):
            selfv = ('agg', 'adt:' + adt, 0, tuple(C('u8', dmax) if f == "depth_max" else ('sym', ('self', f)) for f in fields))
            e = Engine(crate); r = e.run_method(names[meth], selfv, [raw_t])
            b = Bits(crate, dict(inputs), {**e0.phi_ops, **e.phi_ops})
            v = b.ev(r.ret) if r.returns else None
            if isinstance(v, list) and as_const(v) == depth: n_ok += 1
            else: fail(strip_generics(meth)[len(M):], pair, "depth %s" % (fmt(v) if isinstance(v, list) else v))
        # free functions
        e = Engine(crate); r = e.run(names[M + "get_depth"], [raw_t, C('u8', dmax)])
        b = Bits(crate, dict(inputs), {**e0.phi_ops, **e.phi_ops}); v = b.ev(r.ret) if r.returns else None
        if isinstance(v, list) and as_const(v) == depth: n_ok += 1
        else: fail("get_depth", pair, "depth %s" % (v,))
        e = Engine(crate); r = e.run(names[M + "get_hash_from_delta_depth"], [raw_t, C('u8', dmax - depth)])
        b = Bits(crate, dict(inputs), {**e0.phi_ops, **e.phi_ops}); v = b.ev(r.ret) if r.returns else None
        if v == hb: n_ok += 1
        else: fail("get_hash_from_delta_depth", pair, "hash %s" % (fmt(v) if isinstance(v, list) else v))
        # flat iterators: first descendant and last descendant at depth_max
        d2 = 2 * (dmax - depth)
        first = ([ZERO] * d2 + hb)[:64]
        last = ([ONE] * d2 + hb)[:64]
        for meth, adt in ((M + "BMOCFlatIter::<'a>::next_cell", "nested::bmoc::BMOCFlatIter"), (M + "BMOCFlatIterCell::<'a>::next_cell", "nested::bmoc::BMOCFlatIterCell")):
            fl = [f["name"] for f in crate.adts[adt]["variants"][0]["fields"]]
            selfv = ('agg', 'adt:' + adt, 0, tuple(C('u8', dmax) if f == "depth_max" else ('sym', ('self', f)) for f in fl))
            e = Engine(crate)
            cvm_idx = fl.index("curr_val_max"); cvm_stores = []
            e.store_hook = lambda t, v, loc, facts: cvm_stores.append(v) if t == ('fld', ('tmp', 'self'), cvm_idx) else None
            r = e.run_method(names[meth], selfv)
            # the raw value read from the slice iterator is an opaque term: bind it to the encoder's bits
            raws = set()
            for ev in e.events.values():
                if ev.callee and strip_generics(ev.callee).endswith("Option::replace"):
                    for x in walk(ev.args[1]):
                        if x[0] == 'deref' and x[1][0] == 'fld' and x[1][1][0] == 'dc': raws.add(x)
            if len(raws) != 1 or not r.returns:
                fail(strip_generics(meth)[len(M):], pair, "cannot locate the raw value read from the iterator (%d candidates)" % len(raws)); continue
            rawsym = raws.pop()
            b = Bits(crate, {rawsym: spec}, e.phi_ops)
            cvm = b.ev(cvm_stores[0]) if len(cvm_stores) == 1 else None
            rep = [ev for ev in e.events.values() if ev.callee and strip_generics(ev.callee).endswith("Option::replace")]
            newv = rep[0].args[1]
            okv = False
            if newv[0] == 'agg' and newv[1] == 'adt:nested::bmoc::Cell':
                cf = [f["name"] for f in crate.adts["nested::bmoc::Cell"]["variants"][0]["fields"]]
                vals = dict(zip(cf, newv[3]))
                okv = b.ev(vals["hash"]) == first and b.ev(vals["is_full"]) == fb and b.ev(vals["raw_value"]) == spec and as_const(b.ev(vals["depth"]) or [None]) == dmax
            else:
                okv = b.ev(newv) == first
            if okv and cvm == last: n_ok += 1
            else: fail(strip_generics(meth)[len(M):], pair, "first=%s last=%s" % (okv, fmt(cvm) if isinstance(cvm, list) else cvm))
    decs = ["build_raw_value", "Cell::new", "BMOC::get_depth", "BMOCBuilderUnsafe::get_depth", "get_depth", "get_hash_from_delta_depth", "BMOCFlatIter::next_cell", "BMOCFlatIterCell::next_cell"]
    for d in decs:
        f = failures.get(d, [])
        ctx.report(clause, "codec:" + d, not f,
                   ("inverts build_raw_value for all %d (depth, depth_max) pairs, all hash bits and the flag" % len(pairs)) if not f else "fails for %d pairs, first: %s" % (len(f), f[0]),
                   at=crate.body(names.get(M + d, names[BRV])).span if (M + d) in names else None,
                   sample={"decoder": d, "pairs": len(pairs), "example_layout(depth=1,depth_max=3)": fmt(raw_bits(1, 3, sym_bits('h', 64, 6), sym_bits('f', 1)))[:120]})
    return n_ok


def lower_depth_literal(ctx, crate):
    """every store into `entries[..]` in to_lower_depth is either the re-encoding helper's result or
    a term equal, as a bit-vector, to build_raw_value(new_depth, X, false, new_depth)"""
    clause = "codec"
    fn = M + "BMOCBuilderUnsafe::to_lower_depth"
    b = ctx.anchor(crate, fn, clause)
    if b is None: return
    helper = M + "BMOCBuilderUnsafe::low_depth_raw_val_at_lower_depth"
    e = Engine(crate, opaque={helper})
    stores = []
    e.store_hook = lambda t, v, loc, facts: stores.append((t, v, loc)) if loc[0] == fn else None
    e.run(fn)
    ctx.functions |= e.visited_fns
    helper_rets = {ev.ret for ev in e.events.values() if ev.callee == helper}
    lit = 0; bad = []
    for t, v, loc in stores:
        if v in helper_rets: continue
        # expand phis, bind every opaque leaf (the coarse hash taken out of the Option) to the same
        # symbolic bits and evaluate
        leaves = set(); todo = [v]; seen = set()
        while todo:
            x = todo.pop()
            if x in seen: continue
            seen.add(x)
            if x[0] in ('op',): todo.extend([x[3], x[4]])
            elif x[0] in ('un', 'cast'): todo.append(x[3])
            elif x[0] == 'phi' and e.phi_ops.get(x): todo.extend(e.phi_ops[x])
            elif x[0] != 'c': leaves.add(x)
        hb = sym_bits('x', 64, 62)
        got = Bits(crate, {l: hb for l in leaves}, e.phi_ops).ev(v)
        e2 = Engine(crate); r2 = e2.run(BRV, [C('u8', 7), ('p', 'hash'), C('bool', 0), C('u8', 7)])
        want = Bits(crate, {('p', 'hash'): hb}, e2.phi_ops).ev(r2.ret)
        lit += 1
        if got != want: bad.append((loc[2], show(v), fmt(got) if isinstance(got, list) else got))
    ctx.report(clause, fn + ":partial-literal", not bad and lit >= 1,
               "%d literal stores equal build_raw_value(new_depth, h, false, new_depth) as bit-vectors" % lit if not bad else "stores that are not a valid partial raw value: %s" % bad, at=b.span)


def term_ty_u64(v):
    return v[0] == 'op' and v[2] == 'u64'


def who_may_construct(ctx, crate):
    clause = "who-may-construct"
    makers = set()
    for body in crate.bodies.values():
        for bb, si, s in body.assigns():
            rv = s["rv"]
            if rv["k"] == "aggregate" and rv.get("adt") == "nested::bmoc::BMOC":
                makers.add(body.path)
    allowed = {M + "BMOC::create_unsafe", M + "BMOC::create_unsafe_copying"}
    ctx.report(clause, "BMOC:aggregate-sites", bool(makers) and makers <= allowed, "BMOC values are built in %s" % sorted(makers), kind="N")
    finalisers = {M + "BMOCBuilderUnsafe::to_bmoc", M + "BMOCBuilderUnsafe::to_bmoc_from_unordered", M + "BMOCBuilderUnsafe::to_bmoc_packing",
                  M + "BMOCBuilderUnsafe::to_lower_depth_bmoc", M + "BMOCBuilderUnsafe::to_lower_depth_bmoc_packing", M + "BMOCBuilderFixedDepth::buff_to_bmoc"}
    callers = set()
    for m in allowed:
        for c, bb in crate.callers().get(m, []): callers.add(c)
    ctx.report(clause, "BMOC:constructor-callers", bool(callers) and callers <= finalisers, "create_unsafe(_copying) is called from %s" % sorted(callers), kind="N",
               sample={"constructor_callers": sorted(callers)})
    # raw values are relative to the depth_max of the BMOC they were read from: re-emitting one
    # verbatim is only legitimate where source and result share depth_max, i.e. in `not`
    raw = M + "BMOCBuilderUnsafe::push_raw_unsafe"
    rc = sorted({c for c, bb in crate.callers().get(raw, [])})
    ctx.report(clause, "push_raw_unsafe:callers", set(rc) <= {M + "BMOC::not"}, "push_raw_unsafe (verbatim copy of a raw value) is called from %s; binary operators build results at max(depth_max) and must re-encode" % rc, kind="N")
    # no store to a field of a BMOC after construction
    idx = crate.field_index("nested::bmoc::BMOC", "entries")
    bad = []
    for body in crate.bodies.values():
        for bb, si, s in body.assigns():
            lhs = s["lhs"]
            if not lhs["p"]: continue
            t = body.local_ty(lhs["l"])
            while t["k"] in ("ref", "ptr"): t = t["to"]
            if t.get("path") == "nested::bmoc::BMOC" and any(p[0] == "field" for p in lhs["p"]):
                bad.append("%s (%s)" % (body.path, s["at"]))
    ctx.report(clause, "BMOC:no-field-store", not bad, "stores into a BMOC's fields: %s" % bad if bad else "no statement of the crate stores into a field of a BMOC value", kind="N")


RECURS = ["nested::Layer::cone_coverage_approx_recur", "nested::Layer::elliptical_cone_coverage_recur", "nested::Layer::polygon_coverage_recur"]
PUSH = M + "BMOCBuilderUnsafe::push"


def recursion_shape(ctx, crate, fn, clause="ordered-emission"):
    """self-calls: four, dominance-ordered, with hash arguments (hash << 2) | k, k = 0..3 and
    depth + 1; pushes use the function's own (depth, hash)."""
    cands = [p for p in crate.bodies if strip_generics(p) == fn]
    if not cands:
        ctx.undecided(clause, "anchor:" + fn, "function %s not found" % fn); return
    path = cands[0]; body = crate.body(path)
    ctx.functions.add(path)
    e = Engine(crate, opaque={PUSH}, max_depth=3, inline=lambda n, d: n not in (path,) and not n.startswith("sph_geom") and "center" not in n and "vertices" not in n)
    e.run(path)
    # the recursion is cut at the first re-entry, so every recorded event belongs to ONE activation
    # of the function, possibly inside private helpers analysed in place (extract-method refactors)
    selfcalls = sorted([ev for ev in e.events.values() if ev.callee == path], key=lambda ev: (ev.site[:-1], ev.site[-1][1]))
    pushes = [ev for ev in e.events.values() if ev.callee == PUSH]
    names = body.param_names()
    pd, ph = ('p', 'depth'), ('p', 'hash')
    ok = len(selfcalls) >= 4 and len(selfcalls) % 4 == 0
    detail = "%d self-calls" % len(selfcalls)
    if ok:
        di, hi = names.index("depth"), names.index("hash")
        # group by the frame (function instance) the call sits in; chains under dominance inside it
        frames = {}
        for ev in selfcalls: frames.setdefault(ev.site[:-1], []).append(ev)
        groups = []
        for fr, evs_f in frames.items():
            fbody = crate.body(evs_f[0].site[-1][0]) or body
            bbs = [ev.site[-1][1] for ev in evs_f]
            def pred(b, bbs=bbs, fbody=fbody):
                ds = [x for x in bbs if x != b and fbody.dominates(x, b)]
                return max(ds, key=lambda x: len(fbody.dominators()[x])) if ds else None
            heads = [b for b in bbs if pred(b) is None]
            for h in heads:
                chain = [h]
                while True:
                    nxt = [b for b in bbs if pred(b) == chain[-1]]
                    if len(nxt) != 1: break
                    chain.append(nxt[0])
                groups.append([[x for x in evs_f if x.site[-1][1] == b][0] for b in chain])
        allks = []
        good = sum(len(g) for g in groups) == len(selfcalls) and all(len(g) == 4 for g in groups)
        for g in groups:
            ks = []
            for ev in g:
                hb = Bits(crate, {ph: sym_bits('h', 64, 62)}, e.phi_ops)
                v = hb.ev(ev.args[hi])
                want = lambda k: const_bits(k, 2) + sym_bits('h', 64, 62)[:62]
                ks.append(next((k for k in range(4) if v == want(k)), None))
                if ev.args[di] != ('op', 'add', 'u8', pd, C('u8', 1)): good = False
            allks.append(ks)
            if ks != [0, 1, 2, 3]: good = False
        ok = good
        detail = "%d group(s) of self-calls; in dominance order each passes child hashes (hash<<2)|k with k = %s and depth+1" % (len(groups), allks)
    ctx.report(clause, "%s:children-in-z-order" % fn, ok, detail, at=body.span, kind="N", sample={"fn": fn, "children": detail})
    okp = bool(pushes) and all(ev.args[1] == pd and ev.args[2] == ph for ev in pushes)
    ctx.report(clause, "%s:push-own-cell" % fn, okp, "%d push sites, each pushes the function's own (depth, hash)" % len(pushes) if okp else "push sites with other arguments: %s" % [(show(ev.args[1]), show(ev.args[2])) for ev in pushes], at=body.span, kind="N")
    # no path does both push and recurse / two pushes: pushes and self-calls are in exclusive branches
    excl = True
    for p in pushes:
        pb = p.site[-1][1]; pbody = crate.body(p.site[-1][0]) or body
        for s in selfcalls:
            if s.site[:-1] != p.site[:-1]: continue
            sb = s.site[-1][1]
            if pbody.dominates(pb, sb) or pbody.dominates(sb, pb): excl = False
        for q in pushes:
            if q.site[:-1] != p.site[:-1]: continue
            qb = q.site[-1][1]
            if qb != pb and (pbody.dominates(pb, qb) or pbody.dominates(qb, pb)): excl = False
    ctx.report(clause, "%s:one-of-nothing/push/recurse" % fn, excl, "push sites and the recursive calls lie on mutually exclusive branches", at=body.span, kind="N")


def views(ctx, crate):
    clause = "views-share-decoders"
    B = M + "BMOC::"
    def rc(src, pred, desc):
        ok = crate.reaches(src, pred)
        ctx.report(clause, "%s→%s" % (strip_generics(src)[len(M):], desc), ok, "%s %s %s" % (src, "reaches" if ok else "does NOT reach", desc), kind="N")
    names = {strip_generics(p): p for p in crate.bodies}
    def n(x): return names.get(x, x)
    rc(n(B + "deep_size"), lambda c: strip_generics(c) == B + "get_depth", "BMOC::get_depth")
    rc(n(B + "flat_iter"), lambda c: strip_generics(c) == M + "BMOCFlatIter::next_cell", "BMOCFlatIter::next_cell")
    rc(n(B + "flat_iter_cell"), lambda c: strip_generics(c) == M + "BMOCFlatIterCell::next_cell", "BMOCFlatIterCell::next_cell")
    rc(n(B + "to_flat_array"), lambda c: strip_generics(c) == B + "flat_iter", "BMOC::flat_iter")
    rc(n("<nested::bmoc::BMOCIter as std::iter::Iterator>::next"), lambda c: strip_generics(c) == M + "Cell::new", "Cell::new")
    # to_ranges merges only adjacent ranges
    fn = n(B + "to_ranges")
    b = ctx.anchor(crate, fn, clause)
    if b is not None:
        e = Engine(crate); e.run(fn); ctx.functions |= e.visited_fns
        eqs = [d for d, loc in e.branches if d[0] == 'op' and d[1] == 'eq' and (loc[0] == fn or loc[0].startswith(M))]     # in to_ranges or in a helper of the module it calls
        if len([d for d, loc in e.branches if loc[0] == fn and d[0] == 'op' and d[1] == 'eq']) < 2:
            # the two depth branches no longer test `start == pending end` in place (merged, or moved to a helper):
            # these narrow rules read the in-place form only
            ctx.not_decided("to_ranges: pending-range updates and flush (not written in place)"); return
        ctx.report(clause, "to_ranges:merge-only-adjacent", len(eqs) >= 2, "to_ranges extends the pending range only under %s" % [show(d)[:80] for d in eqs[:2]], at=b.span, kind="N")
        # what the pending range becomes: with [S, E) the range of the current cell (S = h << 2D, E = (h + 1) << 2D,
        # D = depth_max - depth), `S == pending.end` extends the end to E, anything else starts a new pending
        # range [S, E).  Read semantically: every u64 written under such a test is evaluated at three (depth,
        # hash, depth_max) triples, so the two depth branches may be written apart, merged, or moved to a helper.
        from rules.common import feval
        e2 = Engine(crate); asg = []
        in_mod = lambda loc: loc[0] == fn or str(loc[0]).startswith(M)
        def vh(v, loc, facts):
            lhs = e2.cur_lhs
            if in_mod(loc): asg.append((v, facts, loc))          # locals, and places written through `&mut` parameters of a helper
        e2.value_hook = vh
        e2.store_hook = lambda t, v, loc, facts: asg.append((v, facts, loc)) if in_mod(loc) else None
        e2.run(fn)
        eqs2 = [d for d, loc in e2.branches if d[0] == 'op' and d[1] == 'eq' and in_mod(loc)]
        di = crate.field_index("nested::bmoc::Cell", "depth"); hi = crate.field_index("nested::bmoc::Cell", "hash")
        dmx = ('fld', ('deref', ('p', 'self')), crate.field_index("nested::bmoc::BMOC", "depth_max"))
        cells_ = set()
        def find_cell(t, depth=0):
            if depth > 14 or not isinstance(t, tuple): return
            if t[0] == 'fld' and t[2] in (di, hi) and t[1][0] in ('dc', 'fld', 'sym', 'phi', 'deref'): cells_.add(t[1])
            if t[0] == 'phi':
                for o in (e2.phi_gate.get(t) or ()): find_cell(o, depth + 1)
                return
            for x in t:
                if isinstance(x, tuple): find_cell(x, depth + 1)
        for d_ in eqs2: find_cell(d_)
        bad = []; n_ext = n_new = 0
        if len(cells_) >= 1:
            for CELL in list(cells_)[:1]:
                for v, facts, loc in asg:
                    if not term_is_u64(v) or v[0] == 'c': continue
                    for f in facts:
                        if f[0] != 'b' or f[1] not in eqs2: continue
                        S, P = f[1][3], f[1][4]
                        verdicts = []
                        for d0, h0, dm0 in ((2, 5, 2), (1, 3, 3), (0, 11, 2)):
                            Sv, Ev = h0 << (2 * (dm0 - d0)), (h0 + 1) << (2 * (dm0 - d0))
                            env = {('fld', CELL, di): d0, ('fld', CELL, hi): h0, dmx: dm0}
                            # only the triples this site can see (e.g. depth == depth_max in the branch of the deepest cells)
                            consistent = True
                            for g_ in facts:
                                if g_[0] != 'b' or g_ is f or g_[1] in eqs2: continue
                                gv = feval(g_[1], env, e2)
                                if gv is not None and bool(gv) != bool(g_[2]): consistent = False; break
                            if not consistent: continue
                            sv, pv = feval(S, env, e2), feval(P, env, e2)
                            # which side is the start of the cell's range: the one that evaluates (the other is the pending end)
                            start_side, pend = (S, P) if sv is not None else (P, S)
                            st_val = sv if sv is not None else pv
                            if st_val is None: verdicts.append(None); continue
                            env2 = dict(env); env2[pend] = st_val if f[2] else st_val + 7      # equal under the test, anything else otherwise
                            got = feval(v, env2, e2)
                            if got is None: verdicts.append(None); continue
                            if st_val != Sv: verdicts.append(("start", st_val, Sv)); continue
                            verdicts.append(got == Ev if f[2] else got in (Sv, Ev))
                        if not verdicts or any(x is None for x in verdicts): continue          # not a function of the cell (another local)
                        if all(x is True for x in verdicts):
                            if f[2]: n_ext += 1
                            else: n_new += 1
                        else: bad.append(("extend" if f[2] else "new", show(v)[:60], str(verdicts)))
        ctx.report(clause, "to_ranges:pending-range-updates", not bad and n_ext >= 1 and n_new >= 2,
                   "%d extension(s) to the end of the cell's range, %d (start, end) writes of a new pending range, read at 3 (depth, hash, depth_max) triples" % (n_ext, n_new) if not bad and n_ext >= 1 and n_new >= 2 else
                   "a pending range is updated with %s (%s): %s" % (bad[0][1], bad[0][0], bad[0][2]) if bad else "updates not found (%d, %d)" % (n_ext, n_new), at=b.span, kind="N")
        # a pending range is written out only when it is not empty (prev_min != prev_max), and the last one is
        # written out after the loop under the same test
        pushes = [ev for ev in e2.events.values() if ev.callee and strip_generics(ev.callee).endswith("Vec::push") and all(fr[0] == fn or str(fr[0]).startswith(M) for fr in ev.site)]
        def nonempty(ev):
            v = ev.args[1]
            if not (v[0] == 'agg' and len(v[3]) == 2): return False
            a, c_ = v[3]
            return any(f[0] == 'b' and f[1][0] == 'op' and ((f[1][1] == 'ne' and f[2]) or (f[1][1] == 'eq' and not f[2])) and {f[1][3], f[1][4]} == {a, c_} for f in ev.facts)
        okp = len(pushes) >= 3 and all(nonempty(ev) for ev in pushes)
        ctx.report(clause, "to_ranges:non-empty-pending-range-written", okp, "%d push sites, each `prev_min..prev_max` under prev_min != prev_max (two in the loop, one after it)" % len(pushes) if okp else
                   "a range is pushed without the test that it is not empty, or the final flush is missing (%d push sites)" % len(pushes), at=b.span, kind="N")


def term_is_u64(v):
    from sym import term_ty
    try: return term_ty(v) == 'u64'
    except Exception: return False


def flat_steps(ctx, crate, clause="views-share-decoders"):
    """N: the two flat iterators step through the deepest-level cells of an entry one by one: while the
    current number is below the last one of the entry (`<`, the bound of `next_cell`), the next value is
    the current one plus 1 (same raw value, maximal depth, same flag for the cell version); otherwise
    the next entry is decoded."""
    names = [p_ for p_ in crate.bodies if "BMOCFlatIter" in p_ and p_.endswith("::next")]
    ncell = {p_ for p_ in crate.bodies if p_.endswith("::next_cell")}
    n = 0
    for fn in sorted(names):
        b = ctx.anchor(crate, fn, clause)
        if b is None: continue
        e = Engine(crate, opaque=ncell); e.run(fn); ctx.functions |= e.visited_fns
        reps = [ev for ev in e.events.values() if ev.callee and strip_generics(ev.callee).endswith("Option::replace")]
        ok = False; why = "expected one `curr_val.replace(..)`, found %d" % len(reps)
        if len(reps) == 1:
            v = reps[0].args[1]
            cur = None
            if v[0] == 'op' and v[1] == 'add' and v[4] == C('u64', 1): cur = v[3]; extra = True
            elif v[0] == 'agg' and len(v[3]) == 4 and v[3][2][0] == 'op' and v[3][2][1] == 'add' and v[3][2][4] == C('u64', 1):
                cur = v[3][2][3]
                base = cur[1] if cur[0] == 'fld' else None
                extra = base is not None and v[3][0] == ('fld', base, 0) and v[3][3] == ('fld', base, 3) and v[3][1][0] == 'fld' and v[3][1][1] == ('deref', ('p', 'self'))
            else: extra = False
            from rules.common import cmp_facts
            # `cur < last` in any orientation; for integers a failed `cur >= last` is the same test
            lt = [1 for op, a_, c_, pos in cmp_facts(reps[0].facts) if a_ == cur and ((op == 'lt' and pos) or (op == 'ge' and not pos))]
            ok = cur is not None and extra and len(lt) == 1
            why = "next value = current + 1 under `current < last of the entry`" if ok else "the step is %s under %s" % (show(v)[:80], [show(f[1])[:40] for f in reps[0].facts if f[0] == 'b'][:3])
        n += 1
        ctx.report(clause, "%s::next:steps-by-one-below-the-last" % ("BMOCFlatIterCell" if "FlatIterCell" in fn else "BMOCFlatIter"), ok, why, at=b.span, kind="N")
    return n


def view_arithmetic(ctx, crate):
    """D (per delta 0..=29, hash symbolic): to_range(h, Δ) = h*4^Δ .. (h+1)*4^Δ; the number of
    deepest-level cells counted per entry by deep_size is 4^Δ; the flat iterators step by +1 up to
    the last descendant (checked in the codec clause) — so ranges, flat arrays and deep size
    describe the same set of descendants of each entry."""
    clause = "views-arithmetic"
    fn = "nested::to_range"
    b = ctx.anchor(crate, fn, clause)
    bad = []
    if b is not None:
        for d in range(30):
            e = Engine(crate); r = e.run(fn, [('p', 'hash'), C('u8', d)])
            hb = sym_bits('h', 64, 62 - 2 * d)
            ok = False
            if r.returns and r.ret[0] == 'agg' and len(r.ret[3]) == 2:
                bt = Bits(crate, {('p', 'hash'): hb}, e.phi_ops)
                lo, hi = bt.ev(r.ret[3][0]), bt.ev(r.ret[3][1])
                want_lo = ([ZERO] * (2 * d) + hb)[:64]
                # (h + 1) << 2Δ  ==  (h << 2Δ) + 4^Δ : compare through the difference hi - lo == 4^Δ
                from bits import add_bits, bnot
                diff = add_bits(hi, [bnot(x) for x in lo], ONE) if isinstance(hi, list) and isinstance(lo, list) else None
                ok = lo == want_lo and isinstance(hi, list)
                # the end is start + 4^Δ: evaluate (h+1)<<2Δ on two witnesses of the carry is not enough; use the term shape
                t_hi = r.ret[3][1]
                plus1 = ('op', 'add', 'u64', ('p', 'hash'), C('u64', 1))
                if d == 0: ok = ok and t_hi == plus1 and r.ret[3][0] == ('p', 'hash')
                else: ok = ok and t_hi[0] == 'op' and t_hi[1] == 'shl' and t_hi[3] == plus1 and r.ret[3][0][0] == 'op' and r.ret[3][0][1] == 'shl' and r.ret[3][0][4] == t_hi[4]
            if not ok: bad.append(d)
        ctx.functions.add(fn)
        ctx.report(clause, fn + ":h<<2Δ..(h+1)<<2Δ", not bad, "for Δ = 0..=29: start = hash << 2Δ (bit-vector), end = (hash + 1) << 2Δ with the same shift" if not bad else "wrong for delta %s" % bad, at=b.span)
    fn2 = "nside_square_unsafe"
    b2 = ctx.anchor(crate, fn2, clause)
    if b2 is not None:
        bad = []
        for d in range(30):
            e = Engine(crate); r = e.run(fn2, [C('u8', d)])
            if not (r.returns and r.ret == C('u64', 1 << (2 * d))): bad.append(d)
        ctx.functions.add(fn2)
        ctx.report(clause, fn2 + ":4^Δ", not bad, "nside_square_unsafe(Δ) = 4^Δ for Δ = 0..=29 (cells counted per entry by deep_size)" if not bad else "wrong for %s" % bad, at=b2.span)
    # deep_size adds nside_square_unsafe(depth_max - depth) per entry
    fn3 = M + "BMOC::deep_size"
    b3 = ctx.anchor(crate, fn3, clause)
    if b3 is not None:
        e = Engine(crate, opaque={fn2, M + "BMOC::get_depth"}); e.run(fn3); ctx.functions |= e.visited_fns
        ns = [ev for ev in e.events.values() if ev.callee == fn2]; gd = [ev for ev in e.events.values() if ev.callee == M + "BMOC::get_depth"]
        dm = ('fld', ('deref', ('p', 'self')), crate.field_index("nested::bmoc::BMOC", "depth_max"))
        ok = len(ns) == 1 and len(gd) == 1 and ns[0].args[0] == ('op', 'sub', 'u8', dm, gd[0].ret)
        ctx.report(clause, "deep_size:sum-of-4^(depth_max-depth)", ok, "deep_size adds nside_square_unsafe(self.depth_max - get_depth(raw)) for each entry", at=b3.span, kind="N")


def run(ctx):
    crate = ctx.crate("rel")
    view_arithmetic(ctx, crate)
    flat_steps(ctx, crate)
    if ctx.tier == "thorough":
        pairs = [(d, m) for m in range(30) for d in range(m + 1)]
    else:
        # quick: all depth_max with the boundary depths and a diagonal (≈150 pairs)
        pairs = sorted({(d, m) for m in range(30) for d in {0, m, m // 2, max(0, m - 1), min(m, 1)}})
    n = codec(ctx, crate, pairs)
    ctx.floor("codec-obligations", n, 7 * len(pairs))
    ctx.extra["codec_pairs"] = len(pairs)
    lower_depth_literal(ctx, crate)
    # the packing finalisers: one pack, on the entries as pushed, before any re-encoding (depth bound of the result)
    from rules.c06 import packed as _packed
    _packed(ctx, crate)
    who_may_construct(ctx, crate)
    for fn in RECURS: recursion_shape(ctx, crate, fn)
    views(ctx, crate)
    ctx.not_decided("that the merges of and/or/xor preserve order for all inputs; hash < 12*4^depth of pushed values (C01's float clause); sortedness typestate of the root lists (see C12/C13 rules)")
    ctx.extra["exhaustive"] = ctx.tier == "thorough"
    from rules.c15 import push_invariant
    push_invariant(ctx, crate)
    from rules import controls
    controls.bits_controls(ctx)
