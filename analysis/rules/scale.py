"""C03 / C19 — `Layer::shift_rotate_scale`: the projected position is rotated by 45 degrees and scaled by
nside / 2 for EVERY depth, depth 0 included (where the factor is 1/2, not an integer).

    x' = (x + y + 1) * 2^(depth - 1)        y' = (y + 1 + 8 - x) * 2^(depth - 1)

Decided as a polynomial identity in (x, y) with exact rational coefficients (E6), per depth, with
the Layer constants of that depth folded from `Layer::new`.  The exponent-bias trick of the
repository (`from_bits(time_half_nside + to_bits(v))`) is read as v * 2^(time_half_nside >> 52)."""
from fractions import Fraction
from sym import Engine, show, C
from poly import Poly, to_poly

FN = "nested::Layer::shift_rotate_scale"


def run(ctx, crate, depths, clause="rotate-scale"):
    b = ctx.anchor(crate, FN, clause)
    if b is None: return
    names_p = b.param_names()
    if len(names_p) != 2:
        ctx.undecided(clause, FN + ":shape", "expected (&self, &mut (x, y))", at=b.span); return
    X, Y = ('fld', ('deref', ('p', names_p[1])), 0), ('fld', ('deref', ('p', names_p[1])), 1)
    x, y = Poly.var("x"), Poly.var("y")
    bad = []; n = 0
    for d in depths:
        e0 = Engine(crate); r0 = e0.run("nested::Layer::new", [C('u8', d)])
        if not r0.returns or r0.ret[0] != 'agg':
            bad.append((d, "Layer::new(%d) has no value" % d)); continue
        e = Engine(crate); r = e.run_method(FN, r0.ret)
        if not r.returns:
            bad.append((d, "panics")); continue
        vx, vy = r.state.heap.get(X), r.state.heap.get(Y)
        if vx is None or vy is None:
            bad.append((d, "no value written to the pair")); continue
        px, py = to_poly(vx, {X: "x", Y: "y"}, e.phi_ops, e.phi_gate), to_poly(vy, {X: "x", Y: "y"}, e.phi_ops, e.phi_gate)
        f = Poly.const(Fraction(2) ** (d - 1))
        wx, wy = (x + y + Poly.const(1)) * f, (y + Poly.const(1) + Poly.const(8) - x) * f
        n += 1
        if px != wx or py != wy:
            bad.append((d, "x' = %r, y' = %r; expected %r, %r" % (px, py, wx, wy) if px is not None and py is not None else ("not x * 2^k for every x: %s%s" % (show(vx)[:80], " — at depth 0 the exponent trick adds -1 << 52 to the bits of the value: the bits of 0.0 become those of -inf (x + y + 1 = 0 on the lon = 0 meridian of the south cap)" if d == 0 else ""))))
    ctx.functions.add(FN)
    ctx.report(clause, FN + ":x+y,y-x scaled by nside/2", not bad and n == len(depths),
               "for depth %s: (x, y) -> ((x + y + 1), (y + 9 - x)) * 2^(depth-1), depth 0 included" % ("0..=29" if len(depths) == 30 else list(depths)) if not bad else
               "depth %s: %s" % bad[0], at=b.span, sample={"depths": len(depths), "mismatches": [list(map(str, m)) for m in bad[:3]]})
