"""C02 — hierarchical prefix property: the four premises of the paper proof, checked on the code.
 P1 depth independence: base cell and in-base-cell coordinates come from a function that takes
    only (lon, lat), is not a method of the layer, and cannot reach the per-depth table;
 P2 exact scaling: i = ((h ± l) scaled by 2^(depth-1)) is obtained by adding the integer
    `time_half_nside` to the bit pattern of (h ± l), and time_half_nside = (depth-1) << 52 for
    each of the 30 depths (E4 on Layer::new);
 P3 truncation: the scaled float reaches `as u32` with no other float operation in between;
 P4 clamp: i == nside is replaced by nside - 1 (gated merge), with nside = 2^depth,
    nside_minus_1 = nside - 1 for the 30 depths.
The lemma floor(floor(2^k s) / 2^k') = floor(2^(k-k') s) and its float side conditions are argued
in DESIGN.md, not checked."""
from sym import Engine, show, walk, C
from rules.c03 import layer_constants

HV2 = "nested::Layer::hash_v2"
SRC = "nested::Layer::d0h_lh_in_d0c"
BUILD = "nested::Layer::build_hash_from_parts"
TO_BITS, FROM_BITS = "core::f64::<impl f64>::to_bits", "core::f64::<impl f64>::from_bits"


def run(ctx):
    crate = ctx.crate("rel")
    b = ctx.anchor(crate, HV2, "anchor"); bs = ctx.anchor(crate, SRC, "anchor")
    if b is None or bs is None: return
    # the public entry goes through hash_v2
    eh = Engine(crate, opaque={HV2}); rh = eh.run("nested::Layer::hash")
    evh = [ev for ev in eh.events.values() if ev.callee == HV2]
    ctx.report("entry", "Layer::hash→hash_v2", len(evh) == 1 and rh.returns and rh.ret == evh[0].ret and evh[0].args[1:] == [('p', 'lon'), ('p', 'lat')], "Layer::hash(lon, lat) returns hash_v2(lon, lat)", at=crate.body("nested::Layer::hash").span, kind="N")
    e = Engine(crate, opaque={SRC, BUILD}); r = e.run(HV2); ctx.functions |= e.visited_fns
    src = [ev for ev in e.events.values() if ev.callee == SRC]; bld = [ev for ev in e.events.values() if ev.callee == BUILD]
    if len(src) != 1 or len(bld) != 1:
        ctx.undecided("shape", HV2 + ":calls", "expected one call to d0h_lh_in_d0c and one to build_hash_from_parts (%d/%d)" % (len(src), len(bld)), at=b.span); return
    R = src[0].ret
    # P1
    p1 = src[0].args == [('p', 'lon'), ('p', 'lat')] and bs.arg_count == 2 and all(t["ty"]["k"] == "float" for t in bs.locals[1:3]) \
        and not crate.reaches(SRC, lambda c: c in ("nested::get_or_create",) or c.startswith("nested::Layer::new"))
    ctx.report("P1-depth-independence", SRC + ":takes-only-(lon,lat)", p1,
               "d0h_lh_in_d0c(lon, lat): two float parameters, no receiver, cannot reach the per-depth layer table; called with the caller's (lon, lat)", at=bs.span, kind="N",
               sample={"source_call_args": [show(a) for a in src[0].args]})
    self_t = ('p', 'self')
    d0h, I, J = bld[0].args[1], bld[0].args[2], bld[0].args[3]
    ctx.report("P1-depth-independence", HV2 + ":base-cell-from-source", d0h == ('fld', R, 0), "base cell passed on = d0h_lh_in_d0c(..).0 (%s)" % show(d0h), at=bld[0].at, kind="N")
    thn = ('fld', ('deref', self_t), crate.field_index("nested::Layer", "time_half_nside"))
    nside = ('fld', ('deref', self_t), crate.field_index("nested::Layer", "nside"))
    nm1 = ('fld', ('deref', self_t), crate.field_index("nested::Layer", "nside_minus_1"))
    for name, term, op in (("i", I, "add"), ("j", J, "sub")):
        g = e.phi_gate.get(term)
        # P4 clamp
        raw = None
        if g is not None and g[0][0] == 'op' and g[0][1] == 'eq' and g[0][4] == nside and g[1] == nm1 and g[2] == g[0][3]:
            raw = g[2]
        ctx.report("P4-clamp", "%s:%s==nside→nside-1" % (HV2, name), raw is not None,
                   "%s' = if %s == self.nside { self.nside_minus_1 } else { %s }" % (name, name, name) if raw is not None else "clamp not recognised: %s / gate %s" % (show(term), g and [show(x)[:60] for x in g]), at=bld[0].at, kind="N")
        if raw is None: continue
        # P3 truncation + P2 scaling chain
        # the scaled value may be guarded for zero: `if s == 0.0 { s } else { from_bits(to_bits(s) + k) }` (0 * 2^k = 0)
        if raw[0] == 'cast' and raw[1] == 'float_to_int' and raw[3][0] == 'phi':
            gz = e.phi_gate.get(raw[3])
            if gz is not None and gz[0][0] == 'op' and gz[0][1] in ('lt', 'le', 'gt', 'ge'):
                # `if s.abs() < MIN_POSITIVE { s * (0.5 * nside) } else { from_bits(to_bits(s) + k) }`: zero and
                # subnormal numbers have no exponent to shift; the product is exact (power of two)
                sides = [x for x in (gz[1], gz[2]) if x[0] == 'call' and x[1] == FROM_BITS]
                if len(sides) == 1:
                    from poly import to_poly
                    s_terms = [x for x in walk(gz[0]) if x[0] == 'call' and isinstance(x[1], str) and x[1].endswith("::abs")]
                    other = gz[2] if sides[0] is gz[1] else gz[1]
                    if len(s_terms) == 1 and any(x == s_terms[0][2][0] for x in walk(sides[0])) and any(x == s_terms[0][2][0] for x in walk(other)):
                        raw = ('cast', raw[1], raw[2], sides[0])
            elif gz is not None and gz[0][0] == 'op' and gz[0][1] in ('eq', 'ne') and C('f64', 0) in (gz[0][3], gz[0][4]):
                s0 = gz[0][3] if gz[0][4] == C('f64', 0) else gz[0][4]
                zero_side, other_side = (gz[1], gz[2]) if gz[0][1] == 'eq' else (gz[2], gz[1])
                if zero_side in (s0, C('f64', 0)) and other_side[0] == 'call' and other_side[1] == FROM_BITS and any(x == s0 for x in walk(other_side)):
                    raw = ('cast', raw[1], raw[2], other_side)
        ok3 = raw[0] == 'cast' and raw[1] == 'float_to_int' and raw[2] == 'u32' and raw[3][0] == 'call' and raw[3][1] == FROM_BITS
        ctx.report("P3-truncation", "%s:%s=from_bits(..) as u32" % (HV2, name), ok3, "%s = %s" % (name, show(raw)[:150]), at=bld[0].at, kind="N")
        if not ok3: continue
        bits = raw[3][2][0]
        ok2 = False; S = None
        if bits[0] == 'cast' and bits[1] == 'int_to_int' and bits[3][0] == 'op' and bits[3][1] == 'add' and bits[3][2] == 'i64':
            a, c = bits[3][3], bits[3][4]
            other = c if a == thn else (a if c == thn else None)
            if other is not None and other[0] == 'cast' and other[1] == 'int_to_int' and other[3][0] == 'call' and other[3][1] == TO_BITS:
                S = other[3][2][0]
                ok2 = S[0] == 'op' and S[1] == op and S[2] == 'f64' and S[3] == ('fld', R, 2) and S[4] == ('fld', R, 1)
        ctx.report("P2-exact-scaling", "%s:%s=bits(h%sl)+time_half_nside" % (HV2, name, "+" if op == "add" else "-"), ok2,
                   "%s: from_bits(to_bits(h %s l) + self.time_half_nside); no float multiplication" % (name, "+" if op == "add" else "-") if ok2 else "scaling chain not recognised: %s" % show(bits)[:160], at=bld[0].at, kind="N",
                   sample={"coordinate": name, "scaled": show(raw)[:160]})
        if S is not None:
            tainted = any(x == self_t for x in walk(S))
            ctx.report("P1-depth-independence", "%s:%s-operands-untainted" % (HV2, name), not tainted, "operands of h %s l do not depend on the layer" % ("+" if op == "add" else "-"), at=bld[0].at, kind="N")
    ctx.report("shape", HV2 + ":returns-build_hash_from_parts", r.returns and r.ret == bld[0].ret, "hash_v2 returns build_hash_from_parts(d0h, i', j')", at=b.span, kind="N")
    # per-depth constants (P2, P4)
    layer_constants(ctx, crate, clause="P2/P4-per-depth-constants")
    # the routes that do not go through hash_v2 (hash_with_dxdy, hash_v1): the base-cell step's float tie-breaks
    from rules import c03_border_offsets
    c03_border_offsets.tiebreaks(ctx, crate, clause="P5-tie-breaks-independent-of-depth")
    from rules.c03_vertices import decomposition_chain
    decomposition_chain(ctx, crate)
    ctx.not_decided("the lemma's float side conditions (zero, negative zero, sub-normal sums, exponent overflow at depth 0) are argued on paper; containment (C01) is float numerics")
    ctx.assume("adding k<<52 to the bit pattern of a positive normal double multiplies it by 2^k exactly (IEEE-754), absent exponent overflow/underflow")
    from rules import controls as _controls
    _controls.feval_controls(ctx)
