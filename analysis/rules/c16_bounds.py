"""C16 — the cell-size helpers against the geometry (N, a finite table of sphere positions).

What is decided: for the depths listed, the FORMULAE the crate evaluates — extracted from the MIR of
`largest_center_to_vertex_distance`, `.._with_radius` and the multi-depth `..s_with_radius`, with the
per-depth constants folded from `ConstantsC2V::new(depth)` — are read (rules.common.feval; no code
of the crate runs) at
  * the centre of EVERY cell of the depth (clause 1), and
  * a grid of cones (9 longitudes incl. lon < 0 and lon > 2pi, 21 latitudes pole to pole, 11 radii
    from 1e-3 to 3.1 rad) (clause 2),
and compared with the largest centre-to-vertex distance of the real cells concerned, computed by an
independent model of the HEALPix projection (analysis/hpxmodel.py: the cell of centre (x, y) in the
projection plane has its vertices at (x, y +- 1/nside), (x +- 1/nside, y)).
What is not: depths beyond the ones listed, cones off the grid."""
import math
from sym import Engine, show, C
from rules.common import feval, strip_generics, param

F1 = "largest_center_to_vertex_distance"
F2 = "largest_center_to_vertex_distance_with_radius"
F3 = "largest_center_to_vertex_distances_with_radius"
NEW = "ConstantsC2V::new"
GOC = "get_or_create"
TOL = 1e-9

LONS = [0.0, 0.2, 0.6, math.pi / 4, 1.2, math.pi / 2, 4.0, -0.3, 6.5]
LATS = [-math.pi / 2, -1.5, -1.2, -0.9, -0.73, -0.6, -0.4, -0.2, 0.0, 0.1, 0.3, 0.42, 0.55, 0.65, 0.72, 0.75, 0.9, 1.1, 1.3, 1.45, 1.55]
RADII = [1e-3, 0.02, 0.05, 0.1, 0.2, 0.4, 0.8, 1.2, 1.7, 2.5, 3.1]


def constants(ctx, crate, d, clause):
    e = Engine(crate); r = e.run(NEW, [C('u8', d)]); ctx.functions |= e.visited_fns
    if not r.returns or r.ret[0] != 'agg': return None
    vals = [feval(x, {}, e) for x in r.ret[3]]
    return None if any(v is None for v in vals) else vals


def reader(ctx, crate, fn, args, consts, unroll=None):
    """-> f(env) reading the function's result(s) at a point; None if the shape is not understood"""
    e = Engine(crate, opaque={GOC}, unroll=unroll) if unroll else Engine(crate, opaque={GOC})
    r = e.run(fn, args); ctx.functions |= e.visited_fns
    if not r.returns: return None
    G = [ev.ret for ev in e.events.values() if ev.callee == GOC and ev.ret is not None]
    base = {}
    for g in G:
        for i, v in enumerate(consts): base[('fld', ('deref', g), i)] = v
    if fn != F3:
        return lambda env: feval(r.ret, {**base, **env}, e)
    pushes = [ev for ev in e.events.values() if ev.callee and strip_generics(ev.callee).endswith("Vec::push") and len(ev.site) == 2]
    if not pushes: return None
    def f(env):
        full = {**base, **env}
        hit = []
        for p in pushes:
            ok = True
            for ft in p.facts:
                if ft[0] != 'b': continue
                v = feval(ft[1], full, e)
                if v is None: continue            # a fact that is not about the point (loop counter, capacity)
                if bool(v) != bool(ft[2]): ok = False; break
            if ok: hit.append(p)
        if len(hit) != 1: return None
        return feval(hit[0].args[1], full, e)
    return f


def run(ctx, crate, clause="bounds-vs-geometry"):
    import hpxmodel
    depths = [1, 2, 3] if ctx.tier == "quick" else [1, 2, 3, 4, 5]
    for fn in (F1, F2, F3, NEW):
        if ctx.anchor(crate, fn, clause) is None: return
    n1 = n2 = 0; bad1 = []; bad2 = []; bad3 = []; undec = None
    for d in depths:
        consts = constants(ctx, crate, d, clause)
        if consts is None:
            undec = "cannot fold ConstantsC2V::new(%d)" % d; break
        f1 = reader(ctx, crate, F1, [C('u8', d), param('lon'), param('lat')], consts)
        f2 = reader(ctx, crate, F2, [C('u8', d), param('lon'), param('lat'), param('radius')], consts)
        f3 = reader(ctx, crate, F3, [C('u8', d), C('u8', d + 1), param('lon'), param('lat'), param('radius')], consts, unroll=4)
        if f1 is None or f2 is None or f3 is None:
            undec = "cannot extract the formulae at depth %d" % d; break
        cells = hpxmodel.cells(d)
        # clause 1: the bound at the centre of a cell covers that cell
        for lon, lat, _, c2v in cells:
            got = f1({param('lon'): lon, param('lat'): lat})
            n1 += 1
            if got is None: undec = "cannot read %s at (%r, %r), depth %d" % (F1, lon, lat, d); break
            if got < c2v * (1 - TOL) and len(bad1) < 5: bad1.append((d, lon, lat, got, c2v))
        if undec: break
        # clause 2: the bound of a cone covers every cell whose centre is in the cone
        order = sorted(cells, key=lambda c: -c[3])
        for lon0 in LONS:
            for lat0 in LATS:
                v0 = hpxmodel.vec(lon0, lat0)
                for r in RADII:
                    cr = math.cos(r)
                    worst = None
                    for c in order:
                        u = c[2]
                        if u[0] * v0[0] + u[1] * v0[1] + u[2] * v0[2] >= cr:
                            worst = c; break
                    if worst is None: continue
                    env = {param('lon'): lon0, param('lat'): lat0, param('radius'): r}
                    g2, g3 = f2(env), f3(env)
                    n2 += 1
                    if g2 is None or g3 is None:
                        undec = "cannot read %s at depth %d, cone (%r, %r, %r)" % (F2 if g2 is None else F3, d, lon0, lat0, r); break
                    if g2 < worst[3] * (1 - TOL) and len(bad2) < 5: bad2.append((d, lon0, lat0, r, g2, worst[3], worst[0], worst[1]))
                    if g3 < worst[3] * (1 - TOL) and len(bad3) < 5: bad3.append((d, lon0, lat0, r, g3, worst[3], worst[0], worst[1]))
                if undec: break
            if undec: break
        if undec: break
    if undec:
        ctx.undecided(clause, "c2v-bounds:table", undec); return
    ctx.report(clause, F1 + ":>=cell-at-its-centre", not bad1 and n1 >= 1000,
               "every cell of depths %s (%d cells): the bound read at the centre of the cell is at least its largest centre-to-vertex distance" % (depths, n1) if not bad1 else
               "depth %d, cell centred at (%.6f, %.6f): bound %.6g < %.6g, the distance from that centre to its farthest vertex" % bad1[0],
               kind="N", sample={"cells": n1, "mismatches": [str(x) for x in bad1]})
    for fn, bad in ((F2, bad2), (F3, bad3)):
        ctx.report(clause, fn + ":>=cells-of-the-cone", not bad and n2 >= 4000,
                   "%d cones x depths %s: the bound is at least the largest centre-to-vertex distance among the cells whose centre is in the cone" % (n2, depths) if not bad else
                   "depth %d, cone (lon %.4f, lat %.4f, radius %.4g): bound %.6g < %.6g, the centre-to-vertex distance of the cell centred at (%.5f, %.5f), which is in the cone" % bad[0],
                   kind="N", sample={"cones": n2, "mismatches": [str(x) for x in bad]})
