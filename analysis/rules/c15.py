"""C15 — builders preserve what was pushed.

D  lowering the depth re-encodes a cell that is already coarse enough without changing its depth,
   hash or flag (E5, all triples depth <= new_depth < depth_max, hash and flag symbolic); the only
   other value written by to_lower_depth is the *partial* literal (checked in C09);
N  to_bmoc returns Some after any drain; drain_buffer is called iff the buffer is non-empty;
N  drain merges with `or` (not replaced, not `and`); duplicates removed only under !sorted;
N  pack only rewrites four consecutive raw values equal to build_raw_value(d, h|1..3, true)
   following a first sibling into build_raw_value(d-1, h>>2, true)."""
from sym import Engine, show, C, walk
from bits import Bits, sym_bits, fmt, ZERO, ONE, as_const
from rules.common import strip_generics, cmp_facts
from rules.c09 import raw_bits, BRV, M

LOW = M + "BMOCBuilderUnsafe::low_depth_raw_val_at_lower_depth"
FD = M + "BMOCBuilderFixedDepth::"


def reencode(ctx, crate, triples):
    clause = "lower-depth-reencoding"
    b = ctx.anchor(crate, LOW, clause)
    if b is None: return 0
    fields = [f["name"] for f in crate.adts["nested::bmoc::BMOCBuilderUnsafe"]["variants"][0]["fields"]]
    ph, pf = ('p', 'hash'), ('p', 'is_full')
    bad = []; n = 0
    for depth, nd, dmax in triples:
        hb = sym_bits('h', 64, 4 + 2 * depth); fb = sym_bits('f', 1)
        e0 = Engine(crate); r0 = e0.run(BRV, [C('u8', depth), ph, pf, C('u8', dmax)])
        selfv = ('agg', 'adt:nested::bmoc::BMOCBuilderUnsafe', 0, tuple(C('u8', dmax) if f == "depth_max" else ('sym', ('self', f)) for f in fields))
        e = Engine(crate); r = e.run_method(LOW, selfv, [r0.ret, C('u8', nd)])
        v = Bits(crate, {ph: hb, pf: fb}, {**e0.phi_ops, **e.phi_ops}).ev(r.ret) if r.returns else None
        want = raw_bits(depth, nd, hb, fb)
        if v == want: n += 1
        else: bad.append(((depth, nd, dmax), fmt(v)[:80] if isinstance(v, list) else v))
    ctx.functions |= {LOW, BRV}
    ctx.report(clause, "low_depth_raw_val_at_lower_depth:identity", not bad,
               "for all %d triples depth <= new_depth < depth_max: result = build_raw_value(depth, hash, flag, new_depth) (depth, hash, flag unchanged)" % len(triples) if not bad else "fails for %d triples, first %s" % (len(bad), bad[0]),
               at=b.span, sample={"triples": len(triples), "example": "depth=1,new_depth=2,depth_max=5"})
    return n


def fixed_depth_builder(ctx, crate):
    clause = "fixed-depth-builder"
    tb = ctx.anchor(crate, FD + "to_bmoc", clause); db = ctx.anchor(crate, FD + "drain_buffer", clause)
    if tb is None or db is None: return
    drain = FD + "drain_buffer"
    # to_bmoc: drain_buffer called iff len > 0; returns self.bmoc.take()
    e = Engine(crate, opaque={drain}); r = e.run(FD + "to_bmoc"); ctx.functions |= e.visited_fns
    evs = [ev for ev in e.events.values() if ev.callee == drain]
    ok = len(evs) == 1
    cond = None
    if ok:
        gt = [(op, show(a), show(c), pos) for op, a, c, pos in cmp_facts(evs[0].facts)]
        # the guard is `len > 0` (succeeded) — accept any succeeded gt/ne comparison of a len() result with 0
        cond = [g for g in gt if g[3] and g[0] in ("gt", "ne") and g[2] in ("0usize",)] + [g for g in gt if g[3] and g[0] == "lt" and g[1] == "0usize"]
        # or `!self.buffer.is_empty()`
        empt = [ev for ev in e.events.values() if ev.callee and strip_generics(ev.callee).endswith("::is_empty") and ev.ret is not None]
        cond += [("is_empty", show(ev.ret)[:20], "false", True) for ev in empt if ('b', ev.ret, False) in evs[0].facts]
        ok = bool(cond)
    ctx.report(clause, "to_bmoc:drains-iff-nonempty", ok, "drain_buffer is called under %s" % cond, at=tb.span, kind="N")
    takes = [ev for ev in e.events.values() if ev.callee and strip_generics(ev.callee).endswith("Option::take")]
    okt = len(takes) == 1 and r.returns and r.ret == takes[0].ret
    ctx.report(clause, "to_bmoc:returns-accumulated", okt, "the returned value is self.bmoc.take()", at=tb.span, kind="N")
    # drain_buffer: final store to self.bmoc is Some(..) on every path; prev.or(&new) on the Some arm
    orf = M + "BMOC::or"; b2b = FD + "buff_to_bmoc"
    e = Engine(crate, opaque={orf, b2b, FD + "clear_buff"})
    stores = []
    idx = crate.field_index("nested::bmoc::BMOCBuilderFixedDepth", "bmoc")
    e.store_hook = lambda t, v, loc, facts: stores.append((t, v, loc)) if loc[0] == drain else None
    r = e.run(drain); ctx.functions |= e.visited_fns
    fin = r.state.heap.get(('fld', ('deref', ('p', 'self')), idx)) if r.returns else None
    bm = [fin] if fin is not None else []
    some = fin is not None and fin[0] == 'agg' and fin[1] == 'adt:std::option::Option' and fin[2] == 1
    ctx.report(clause, "drain_buffer:stores-Some", some and r.returns, "every path through drain_buffer ends with self.bmoc = Some(..) (%d store site(s))" % len(bm), at=db.span, kind="N")
    ors = [ev for ev in e.events.values() if ev.callee == orf]
    news = [ev for ev in e.events.values() if ev.callee == b2b]
    ands = [ev for ev in e.events.values() if ev.callee in (M + "BMOC::and", M + "BMOC::xor", M + "BMOC::not")]
    okor = len(ors) == 1 and len(news) == 1 and not ands
    if okor:
        # receiver = previous bmoc (payload of take()), argument = &new
        new_sym = news[0].ret
        arg = ors[0].args[1]
        okor = (arg[0] == 'ref' or arg[0] == 'ref_t')
        payload = bm[0][3][0] if some else None
        # merged value: phi of (or result, new bmoc)
        ops = e.phi_ops.get(payload, {payload}) if payload is not None else set()
        okor = okor and ors[0].ret in ops and new_sym in ops
    ctx.report(clause, "drain_buffer:merges-with-or", okor, "Some arm: prev.or(&new); None arm: new; nothing else" if okor else "the merge of the previous result is not `prev.or(&new)`", at=db.span, kind="N")
    # sort/dedup only when !sorted
    sd = [ev for ev in e.events.values() if ev.callee and ("sort_unstable" in ev.callee or ev.callee.endswith("::dedup"))]
    sidx = crate.field_index("nested::bmoc::BMOCBuilderFixedDepth", "sorted")
    sorted_t = ('fld', ('deref', ('p', 'self')), sidx)
    oks = len(sd) == 2 and all(('b', sorted_t, False) in ev.facts for ev in sd)
    ctx.report(clause, "drain_buffer:sort-dedup-iff-unsorted", oks, "sort_unstable + dedup run only when self.sorted is false (%d sites)" % len(sd), at=db.span, kind="N")


def option_views(e, lasts):
    """the `Option` returned by `last()` and the same option seen through `copied()` / `cloned()`: `None` / `Some`
    of one is `None` / `Some` of the others"""
    out = {ev.ret for ev in lasts}
    grew = True
    while grew:
        grew = False
        for ev in e.events.values():
            if ev.callee and strip_generics(ev.callee).split("::")[-1] in ("copied", "cloned") and ev.args and ev.args[0] in out and ev.ret not in out:
                out.add(ev.ret); grew = True
    return out


def push_invariant(ctx, crate):
    """N: `sorted == true` means the buffer is STRICTLY increasing — drain_buffer skips sort + dedup on
    that flag, and buff_to_bmoc emits the buffer as is.  So every way through `push` that appends the
    value while leaving the flag true must have established last < value.  Decided per path (every
    two-way test forced in turn); the forced outcomes are read on the three orderings of
    (last, value): an ordering with last >= value that is consistent with a path which appends and
    keeps the flag is a duplicate / inversion emitted as a cell."""
    from rules.common import explore_leaves, feval
    clause = "fixed-depth-builder"
    fn = FD + "push"
    b = ctx.anchor(crate, fn, clause)
    if b is None: return
    drain = FD + "drain_buffer"
    from sym import UNIT
    # drain_buffer (called when the buffer is full) is a separate step with its own rules: here it leaves the builder alone
    leaves = explore_leaves(crate, fn, frames={fn}, models={drain: lambda eng, st, args, site: UNIT})
    if leaves is None:
        ctx.undecided(clause, "push:strictly-increasing-while-sorted", "the tests of push are not all two-way tests", at=b.span); return
    sidx = crate.field_index("nested::bmoc::BMOCBuilderFixedDepth", "sorted")
    sorted_t = ('fld', ('deref', ('p', 'self')), sidx)
    value = ('p', b.param_names()[1])
    bad = []; n_app = 0
    for sub, e, r in leaves:
        if not r.returns: continue
        pushes = [ev for ev in e.events.values() if ev.callee and strip_generics(ev.callee).endswith("Vec::push") and len(ev.site) == 2 and value in ev.args]
        if not pushes: continue
        n_app += 1
        fin = r.state.heap.get(sorted_t, sub.get(sorted_t, sorted_t))
        if fin == C('bool', 0): continue                      # flag false: drain_buffer will sort and dedup
        lasts = [ev for ev in e.events.values() if ev.callee and strip_generics(ev.callee).endswith("::last")]
        if not lasts: continue
        if any(sub.get(('discr', o)) == C('isize', 0) for o in option_views(e, lasts)): continue       # empty buffer
        # the element compared with the value: any leaf of the forced comparisons that is not the value itself
        cmps = [t for t in sub if t[0] == 'op' and t[1] in ('eq', 'ne', 'lt', 'le', 'gt', 'ge') and value in (t[3], t[4])]
        others = {t[3] if t[4] == value else t[4] for t in cmps}
        if len(others) > 1:
            ctx.undecided(clause, "push:strictly-increasing-while-sorted", "the value is compared with several things: %s" % [show(o)[:40] for o in others], at=b.span); return
        last = next(iter(others)) if others else None
        for lv, vv in ((1, 2), (2, 2), (3, 2)):
            if last is not None and not all(feval(t, {last: lv, value: vv}, e) == bool(sub[t][2]) for t in cmps): continue
            if lv >= vv:
                # the flag may be stored as an expression (`sorted = sorted && last < value`): read it on this ordering
                try: fv = feval(fin, {last: lv, value: vv, sorted_t: True}, e) if last is not None and isinstance(fin, tuple) and fin[0] != 'c' else None
                except Exception: fv = None
                if fv is False or fv == 0 and fv is not None and not isinstance(fv, float): continue
                bad.append(("last %s value" % ("==" if lv == vv else ">"), {show(t)[:50]: bool(sub[t][2]) for t in cmps})); break
    # the dual: a way through push that does NOT append the value drops it — allowed only for a duplicate of
    # the last element of a NON-EMPTY buffer (forced `Some` outcome of `last()`, and tests that only the
    # ordering last == value satisfies).  A default standing in for "no last element" (`unwrap_or(0)`) makes
    # cell 0 pushed first disappear.
    dropped = []; n_drop = 0
    for sub, e, r in leaves:
        if not r.returns: continue
        pushes = [ev for ev in e.events.values() if ev.callee and strip_generics(ev.callee).endswith("Vec::push") and len(ev.site) == 2 and value in ev.args]
        if pushes: continue
        n_drop += 1
        lasts = [ev for ev in e.events.values() if ev.callee and strip_generics(ev.callee).endswith("::last")]
        nonempty = any(sub.get(('discr', o)) == C('isize', 1) for o in option_views(e, lasts))
        cmps = [t for t in sub if t[0] == 'op' and t[1] in ('eq', 'ne', 'lt', 'le', 'gt', 'ge') and value in (t[3], t[4])]
        others = {t[3] if t[4] == value else t[4] for t in cmps}
        only_eq = False
        if len(others) == 1:
            last = next(iter(others))
            sat = [(lv, vv) for lv, vv in ((1, 2), (2, 2), (3, 2)) if all(feval(t, {last: lv, value: vv}, e) == bool(sub[t][2]) for t in cmps)]
            only_eq = sat == [(2, 2)]
        if not (nonempty and only_eq):
            dropped.append("buffer known non-empty: %s; tests on that path %s" % (nonempty, {show(t)[:50]: bool(sub[t][2]) for t in cmps}))
    ctx.report(clause, "push:drops-only-a-repeat-of-the-last-element", not dropped, "%d way(s) through push return without appending: each under `last() is Some(h)` and h == value" % n_drop if not dropped else
               "push can return without appending the value although it is not a repeat of the last element of a non-empty buffer (%s): the pushed cell is lost" % dropped[0], at=b.span, kind="N")
    ctx.report(clause, "push:strictly-increasing-while-sorted", not bad and n_app >= 1,
               "%d ways through push append the value; wherever the flag stays true the tests passed imply last < value" % n_app if not bad else
               "push can append with %s while `sorted` stays true (tests on that path: %s): drain_buffer then skips sort + dedup and the duplicate becomes a cell" % bad[0], at=b.span, kind="N")


def merge_level_cap(ctx, crate):
    """N: in the run-length grouping of the fixed-depth builder the merge level is capped by the
    builder's own depth (a cell cannot be coarser than a base cell: depth - level must not
    underflow).  The rule only speaks when the cap is written as a `min` with a constant / field:
    then the other operand must be self.depth."""
    clause = "fixed-depth-builder"
    fn = FD + "largest_lower_cell_sequence_len"
    b = ctx.anchor(crate, fn, clause)
    if b is None: return
    e = Engine(crate); e.run(fn); ctx.functions |= e.visited_fns
    dep = ('fld', ('deref', ('p', 'self')), crate.field_index("nested::bmoc::BMOCBuilderFixedDepth", "depth"))
    caps = []
    for t in [ev.ret for ev in e.events.values()] + [d for d, _ in e.branches]:
        pass
    mins = []
    for ev in e.events.values(): pass
    seen = set()
    def scan(t):
        for x in walk(t):
            if x[0] == 'call' and x[1].endswith("::min") and len(x[2]) == 2 and x not in seen:
                seen.add(x); mins.append(x)
    for ev in e.events.values():
        for a in ev.args: scan(a)
        if ev.ret is not None: scan(ev.ret)
    for d, _ in e.branches: scan(d)
    tz = [m for m in mins if any(y[0] == 'call' and y[1].endswith("trailing_zeros") for y in walk(m))
          and not any(y is not m and y[0] == 'call' and y[1].endswith("::min") for a in m[2] for y in walk(a))]
    if not tz:
        # no `min`: the level that sizes the run (n = 1 << (2 * level)) must still be bounded by the builder depth
        from rules.common import is_cmp
        def bounded(t, depth=0):
            if depth > 8: return False
            if t == dep: return True
            if t[0] == 'c': return t[2] == 0
            if t[0] == 'cast' and t[1] == 'int_to_int': return bounded(t[3], depth + 1)
            if t[0] == 'call' and t[1].endswith("::min"): return any(bounded(a, depth + 1) for a in t[2])
            if t[0] == 'phi':
                g = e.phi_gate.get(t)
                if g is not None:
                    c, a, b_ = g
                    # if x > depth { depth } else { x }   (and the flipped forms)
                    for x in (a, b_):
                        other = b_ if x is a else a
                        if bounded(other, depth + 1) and (is_cmp(c, 'gt', x, dep) or is_cmp(c, 'ge', x, dep) or is_cmp(c, 'lt', x, dep) or is_cmp(c, 'le', x, dep)):
                            le_branch = (x is b_ and (is_cmp(c, 'gt', x, dep) or is_cmp(c, 'ge', x, dep))) or (x is a and (is_cmp(c, 'lt', x, dep) or is_cmp(c, 'le', x, dep)))
                            if le_branch: return True
                return all(bounded(o, depth + 1) for o in e.phi_ops.get(t, ())) and bool(e.phi_ops.get(t))
            return False
        levels = []
        def scan2(t):
            for x in walk(t):
                if x[0] == 'op' and x[1] == 'shl' and x[3][0] == 'c' and x[3][2] == 1 and x[4][0] != 'c':
                    amt = x[4]
                    while amt[0] == 'cast': amt = amt[3]
                    if amt[0] == 'op' and amt[1] == 'shl' and amt[4][0] == 'c' and amt[4][2] == 1: levels.append(amt[3])
                    elif amt[0] == 'op' and amt[1] == 'mul': levels.append(amt[3] if amt[4][0] == 'c' else amt[4])
        for ev in e.events.values():
            for a in ev.args: scan2(a)
            if ev.ret is not None: scan2(ev.ret)
        for d, _ in e.branches: scan2(d)
        for vals in e.phi_ops.values():
            for o in vals: scan2(o)
        levels = list(dict.fromkeys(levels))
        if not levels:
            ctx.undecided(clause, "largest_lower_cell_sequence_len:merge-level<=builder-depth", "cannot find the run size 1 << (2 * level)", at=b.span); return
        badl = [show(l)[:100] for l in levels if not bounded(l)]
        ctx.report(clause, "largest_lower_cell_sequence_len:merge-level<=builder-depth", not badl,
                   "merge level bounded by self.depth on every path" if not badl else "the merge level %s is not bounded by the builder depth on every path: the first cell of a base cell other than 0 has 2*depth+2 trailing zeros and more — a run is merged into a cell coarser than a base cell (depth underflow)" % badl, at=b.span, kind="N")
        return
    bad = [show(m)[:100] for m in tz if dep not in m[2]]
    ctx.report(clause, "largest_lower_cell_sequence_len:merge-level<=builder-depth", not bad,
               "merge level = min(trailing_zeros(h)/2, self.depth)" if not bad else "the merge level is capped by something else than the builder depth: %s — a run of 4^(depth+1) cells is merged into a cell coarser than a base cell (depth underflow)" % bad, at=b.span, kind="N")


def pack_rule(ctx, crate):
    clause = "pack"
    fn = M + "BMOCBuilderUnsafe::pack"
    b = ctx.anchor(crate, fn, clause)
    if b is None: return
    e = Engine(crate, opaque={BRV}); e.run(fn); ctx.functions |= e.visited_fns
    brv = sorted([ev for ev in e.events.values() if ev.callee == BRV], key=lambda ev: ev.site[-1][1])
    # four calls: three sibling probes (flag true, hash | 1,2,3, same depth) and the parent (depth-1, hash>>2, true)
    ok = len(brv) == 4
    detail = "%d build_raw_value calls" % len(brv)
    if ok:
        sib = []; parent = None
        for ev in brv:
            d, h, f, dm = ev.args
            if f != C('bool', 1): ok = False
            if h[0] == 'op' and h[1] == 'bitor' and h[4][0] == 'c': sib.append((d, h[3], h[4][2]))
            elif h[0] == 'op' and h[1] == 'shr' and h[4][0] == 'c' and h[4][2] == 2: parent = (d, h[3])
        ok = ok and sorted(k for _, _, k in sib) == [1, 2, 3] and parent is not None
        if ok:
            d0, h0 = sib[0][0], sib[0][1]
            ok = all(d == d0 and h == h0 for d, h, _ in sib) and parent[1] == h0 and parent[0] == ('op', 'sub', 'u8', d0, C('u8', 1))
        detail = "siblings probed: %s; parent written: %s" % ([(show(d), show(h), k) for d, h, k in sib], (show(parent[0]), show(parent[1])) if parent else None)
    # the three probes may sit in the closure of an iterator adaptor (`.zip(1..).all(|..| ..)`), which this rule does
    # not read: then neither this rule nor the look-ahead rule speaks
    from mir import callee_name as _cn
    adaptor = any((_cn(t["func"]) or "").split("::")[-1] in ("all", "any", "try_fold", "fold", "position") for _, t in b.calls())
    probes_hidden = (not ok) and len(brv) < 4 and adaptor
    if probes_hidden:
        ctx.not_decided("pack: the sibling probes are in the closure of an iterator adaptor (%d build_raw_value calls visible)" % len(brv))
    else:
        ctx.report(clause, "pack:merges-only-four-full-siblings", ok, detail, at=b.span, kind="N")
    # the look-ahead bound: the three siblings are read at i, i+1, i+2, so the guard must be exactly
    # "i + 2 < n" — weaker reads out of bounds, stronger never merges a quadruple that ends the list
    sib_sites = [ev for ev in brv if ev.args[1][0] == 'op' and ev.args[1][1] == 'bitor']
    bound_ok = False; seen_bounds = []
    if sib_sites:
        first = min(sib_sites, key=lambda ev: b.rpo().get(ev.site[-1][1], 1 << 30))
        from rules.common import cmp_facts as _cf
        for op, a, c, pos in _cf(first.facts):
            if not pos: continue
            # normalise to  (i + k) < n
            if op in ("gt", "ge"): a, c, op = c, a, {"gt": "lt", "ge": "le"}[op]
            if op not in ("lt", "le"): continue
            k = None
            if a[0] == 'op' and a[1] == 'add' and a[4][0] == 'c': k = a[4][2]; base = a[3]
            elif a[0] in ('phi', 'sym', 'p'): k = 0; base = a
            if k is None: continue
            if op == "le": k -= 1
            seen_bounds.append((show(base)[:30], k, show(c)[:30]))
            if k == 2: bound_ok = True
    if not probes_hidden: ctx.report(clause, "pack:sibling-lookahead-bound=i+2<n", bound_ok and not any(k > 2 for _, k, _ in seen_bounds),
               "the three following siblings are compared under `i + 2 < n`" if bound_ok and not any(k > 2 for _, k, _ in seen_bounds) else
               "look-ahead guard is not `i + 2 < n` (bounds seen: %s): a quadruple of full siblings that ends the list is never merged, or entries are read out of bounds" % seen_bounds, at=b.span, kind="N")
    # the skip loop keeps depth-0 cells, partial cells and non-first siblings unmerged
    # some branch of pack tests the depth of the current cell (result of the decoder) against 0,
    # whichever way it is written (==, !=, De Morgan'd): merging a base cell would need depth - 1
    gd = {ev.ret for ev in e.events.values() if ev.callee and ev.callee.endswith("::get_depth")}
    def depth_like(t):
        if t in gd: return True
        if t[0] == 'phi': return any(o in gd for o in e.phi_ops.get(t, ()))
        return False
    has0 = any(d[0] == 'op' and d[1] in ('eq', 'ne', 'gt', 'lt', 'ge', 'le') and ((depth_like(d[3]) and d[4] == C('u8', 0)) or (depth_like(d[4]) and d[3] == C('u8', 0)))
               for d, loc in e.branches if loc[0] == fn)
    # whatever helpers exist: some branch of pack must read the flag bit of the *current* cell (the value whose
    # depth is decoded), or compare that cell with a raw value built with flag = true — the three sibling
    # probes say nothing about the first cell of the quadruple, and a partial first child merged with three
    # full siblings comes out as a full parent
    from sym import walk as _walk
    cellv = {ev.args[0] for ev in e.events.values() if ev.callee and ev.callee.endswith("::get_depth") and ev.args}
    grew = True
    while grew:
        grew = False
        for ph, ops in list(e.phi_ops.items()):
            if ph in cellv and not set(ops) <= cellv: cellv |= set(ops); grew = True
            elif ph not in cellv and any(o in cellv for o in ops): cellv.add(ph); grew = True
    brv_full = {ev.ret for ev in brv if ev.args[2] == C('bool', 1)}
    def reads_flag(t):
        if t[0] != 'op': return False
        if t[1] == 'bitand':
            for a_, c_ in ((t[3], t[4]), (t[4], t[3])):
                if a_ in cellv and c_[0] == 'c' and c_[2] & 1 == 1 and c_[2] < 4: return True
        if t[1] in ('eq', 'ne'):
            return (t[3] in cellv and t[4] in brv_full) or (t[4] in cellv and t[3] in brv_full)
        return False
    flag_tests = [loc for d, loc in e.branches if any(reads_flag(x) for x in _walk(d))]
    ctx.report(clause, "pack:group-starts-at-a-full-cell", bool(flag_tests), "the flag of the current cell is tested (%d branch%s)" % (len(flag_tests), "" if len(flag_tests) == 1 else "es") if flag_tests else
               "no branch of pack reads the flag bit of the current cell: (partial, full, full, full) siblings are merged into a FULL parent", at=b.span, kind="N")
    # the two predicates of the skip loop, as functions: a cell may start a group only if it is full
    # (flag bit set) and is the first of its four siblings (two low bits of its hash clear)
    from bits import Bits, sym_bits
    from rules.common import feval
    for hf, want in ((M + "is_partial", "flag"), (M + "is_not_first_cell_of_larger_cell", "low2")):
        if crate.body(hf) is None:
            # the predicate is written in place in `pack` (no helper of that name): this narrow rule does not apply
            ctx.not_decided("pack: the predicate %s of the skip loop (no such helper; written in place)" % hf.rsplit("::", 1)[-1]); continue
        hb = ctx.anchor(crate, hf, clause)
        if hb is None: continue
        eh = Engine(crate); rh = eh.run(hf); ctx.functions |= eh.visited_fns
        pn = hb.param_names()
        okh = False; why = "no value"
        if rh.returns and len(pn) == 1:
            if want == "flag":
                rb = sym_bits('r', 64, 64)
                v = Bits(crate, {('p', pn[0]): rb}, eh.phi_ops).ev(rh.ret)
                okh = isinstance(v, list) and len(v) == 1 and v[0] == (rb[0] ^ 1 if not isinstance(rb[0], tuple) else None)
                if not okh:
                    # fall back on reading the term: true exactly when bit 0 (the full flag of the codec, C09) is clear
                    vals = [feval(rh.ret, {('p', pn[0]): x}, eh) for x in range(16)]
                    okh = all(val is not None and bool(val) == (x & 1 == 0) for x, val in zip(range(16), vals))
                why = "is_partial(raw) = (bit 0 of raw is clear): bit 0 is the full flag of the codec (C09)"
            else:
                vals = [feval(rh.ret, {('p', pn[0]): x}, eh) for x in range(64)]
                okh = all(val is not None and bool(val) == (x & 3 != 0) for x, val in zip(range(64), vals))
                why = "is_not_first_cell_of_larger_cell(h) = (h & 3 != 0), read at h = 0..63"
        ctx.report(clause, "pack:%s" % hf.rsplit("::", 1)[-1], okh, why if okh else "%s is not that predicate: %s — the search for a group to merge starts on the wrong cells (four full siblings stay unmerged)" % (hf, show(rh.ret)[:80] if rh.returns else "?"), at=hb.span, kind="N")
    # the passes are repeated until one of them merges nothing: the outer loop is left only on the
    # test "the number of entries did not change" (a merge can complete a group one level up, whatever
    # the number of merges of the pass)
    loops = b.natural_loops(); succ = b.succ()
    if loops:
        head, body_ = max(loops.items(), key=lambda kv: len(kv[1]))
        exits = sorted({x for x in body_ for t_ in succ[x] if t_ not in body_ and b.blocks[t_]["term"]["k"] not in ("unreachable", "resume", "abort")
                        and not b.blocks[t_].get("cleanup")})
        conds = {loc[1]: d for d, loc in e.branches if loc[0] == fn}
        def is_fixpoint_test(d):
            return d is not None and d[0] == 'op' and d[1] in ('ne', 'eq') and d[3][0] == 'phi' and d[4][0] == 'phi'
        # panics (index out of bounds) leave the loop too: only edges to ordinary blocks count
        normal = [x for x in exits if b.blocks[x]["term"]["k"] == "switch"]
        okx = len(normal) == 1 and is_fixpoint_test(conds.get(normal[0]))
        ctx.report(clause, "pack:passes-until-nothing-merges", okx, "the outer loop is left only on %s" % show(conds.get(normal[0]))[:60] if okx else
                   "the outer loop of pack can also be left on %s: a pass that still merged something may be the last one (four full siblings can remain)" % [show(conds.get(x))[:60] for x in normal if not is_fixpoint_test(conds.get(x))], at=b.span, kind="N")
    ctx.report(clause, "pack:base-cells-never-merged", has0, "the search for a first sibling skips cells with depth == 0", at=b.span, kind="N")


def lower_depth_resume(ctx, crate):
    """N: `to_lower_depth` scans the entries in two loops: the first stops on the first cell deeper
    than the new depth (kept aside as the pending coarse cell), the second must resume on the very
    next entry: its range is (i + 1)..len with i the index the first loop stopped at.  Resuming one
    further drops an entry of the coverage."""
    from rules.common import loop_var_range
    clause = "lower-depth"
    fn = M + "BMOCBuilderUnsafe::to_lower_depth"
    b = ctx.anchor(crate, fn, clause)
    if b is None: return
    e = Engine(crate); e.run(fn); ctx.functions |= e.visited_fns
    rng = [ev.args[0] for ev in e.events.values() if len(ev.site) == 2 and ev.callee and "into_iter" in ev.callee and ev.args and ev.args[0][0] == 'agg' and ev.args[0][1] == 'adt:std::ops::Range']
    if len(rng) != 1:
        # another loop idiom: this narrow rule does not apply (it is not a floor of the property)
        ctx.not_decided("to_lower_depth: where the second scan resumes (no single `a..b` loop found)"); return
    ok = False; why = ""
    if len(rng) == 1:
        start, end = rng[0][3]
        one = lambda t: t[0] == 'c' and t[2] == 1
        base = start[3] if start[0] == 'op' and start[1] == 'add' and one(start[4]) else (start[4] if start[0] == 'op' and start[1] == 'add' and one(start[3]) else None)
        cnt = loop_var_range(e, base) if base is not None and base[0] == 'phi' else None
        ok = cnt is not None and cnt[0][0] == 'c' and cnt[0][2] == 0
        why = "the second scan runs over (i + 1)..len, i the counter of the first scan (from 0)" if ok else "the second scan starts at %s: not one past the index the first scan stopped at" % show(start)[:60]
    ctx.report(clause, "to_lower_depth:second-scan-resumes-at-i+1", ok, why, at=b.span, kind="N")


def buffer_merge(ctx, crate):
    """N: `buff_to_bmoc` replaces a run of 4^dd consecutive cells starting on h by the one cell
    (depth - dd, h >> 2 dd, flag, depth): the four arguments of the value written are tied to one and
    the same dd, the hash read at the start of the run, the builder's own flag and depth."""
    clause = "fixed-depth-builder"
    fn = FD + "buff_to_bmoc"
    b = ctx.anchor(crate, fn, clause)
    if b is None: return
    brv = {p_ for p_ in crate.bodies if p_.endswith("::build_raw_value")}
    e = Engine(crate, opaque=brv | {FD + "largest_lower_cell_sequence_len", M + "BMOC::create_unsafe_copying"}); e.run(fn); ctx.functions |= e.visited_fns
    evs = [ev for ev in e.events.values() if ev.callee in brv and len(ev.site) == 2]
    seq = [ev for ev in e.events.values() if ev.callee == FD + "largest_lower_cell_sequence_len"]
    ok = False; why = "expected one value written per run (%d) and one run-length query (%d)" % (len(evs), len(seq))
    if len(evs) == 1 and len(seq) == 1:
        d, h, fl, dm = evs[0].args
        S = ('deref', ('p', 'self'))
        fd = lambda name: ('fld', S, crate.field_index("nested::bmoc::BMOCBuilderFixedDepth", name))
        H = seq[0].args[1]
        okd = d[0] == 'op' and d[1] == 'sub' and d[3] == fd("depth")
        DD = d[4] if okd else None
        okh = False
        if okd:
            # h >> 2 dd in whatever form (<< 1, * 2): read at a few values
            from rules.common import feval
            okh = all(feval(h, {H: hv, DD: k}, e) == (hv >> (2 * k)) for hv in (0b110110100, 0xffff0) for k in (0, 1, 2, 3))
        ok = okd and okh and fl == fd("is_full") and dm == fd("depth")
        why = "writes build_raw_value(depth - dd, h >> 2 dd, is_full, depth) with h the first hash of the run" if ok else "the merged value is build_raw_value(%s, %s, %s, %s)" % tuple(show(a)[:50] for a in evs[0].args)
    ctx.report(clause, "buff_to_bmoc:merged-cell", ok, why, at=b.span, kind="N")
    # the two cursors: the write index advances by one per run, the read index by the length 4^dd of the run
    if len(evs) == 1 and len(seq) == 1 and ok:
        from rules.common import loop_var_range, feval
        top = [x for x in e.events.values() if len(x.site) == 2 and x.callee]
        wr = [x for x in top if strip_generics(x.callee).endswith("::index_mut") and len(x.args) == 2]
        kidx = wr[0].args[1] if len(wr) == 1 else None
        okk = kidx is not None and kidx[0] == 'phi' and loop_var_range(e, kidx) is not None and loop_var_range(e, kidx)[0] == C('usize', 0)
        # read cursor: the index of the hash handed to the run-length query
        Hs = seq[0].args[1]
        rd = [x for x in top if strip_generics(x.callee).endswith("::index") and len(x.args) == 2 and Hs == ('deref', x.ret)]
        iidx = rd[0].args[1] if len(rd) == 1 else None
        oki = False
        if iidx is not None and iidx[0] == 'phi':
            ops_ = e.phi_ops.get(iidx, ())
            steps = [o for o in ops_ if o[0] == 'op' and o[1] == 'add' and o[3] == iidx]
            if len(steps) == 1 and C('usize', 0) in ops_:
                oki = all(feval(steps[0][4], {DD: k_}, e) == 4 ** k_ for k_ in (0, 1, 2, 3))
        ctx.report(clause, "buff_to_bmoc:cursors", okk and oki, "write index: 0, +1 per run; read index: 0, +4^dd per run" if okk and oki else
                   "cursors of buff_to_bmoc: write index steps by one from 0: %s; read index steps by 4^dd from 0: %s" % (okk, oki), at=b.span, kind="N")


def run(ctx):
    crate = ctx.crate("rel")
    if ctx.tier == "thorough":
        triples = [(d, nd, dm) for dm in range(30) for nd in range(dm) for d in range(nd + 1)]
    else:
        triples = sorted({(d, nd, dm) for dm in range(1, 30) for nd in {0, dm - 1, dm // 2} if nd < dm for d in {0, nd, nd // 2}})
    n = reencode(ctx, crate, triples)
    ctx.floor("reencoding-obligations", n, len(triples))
    ctx.extra["triples"] = len(triples)
    fixed_depth_builder(ctx, crate)
    buffer_merge(ctx, crate)
    push_invariant(ctx, crate)
    merge_level_cap(ctx, crate)
    pack_rule(ctx, crate)
    lower_depth_resume(ctx, crate)
    ctx.not_decided("coverage equality for all push sequences and capacities; fixpoint of pack; largest_lower_cell_sequence_len arithmetic (quantify over sequences)")
    from rules import controls
    controls.bits_controls(ctx)
