"""C08 — three-valued semantics of not/and/or/xor, decided site by site.

For and/or/xor the rule derives, from the code, the table
     (relation between the current left and right cell) x (L.full, R.full [, overlapped])
         -> multiset of {push(cell, flag), cursor advance, consume, delegate}
and compares it with the table required by the documented semantics (absent < partial < full:
and = min, or = max, xor as documented).  72 cases per operator; all inputs other than the two
flags stay symbolic.  The helpers that fill the complement inside a cell (not_in_cell_4_or/xor,
go_up/go_down) and `not` are checked for the constant flags they must use.
NOT decided: that the sites compose to the documented map on whole BMOCs (tree shapes)."""
from sym import walk, Engine, show, C
from rules.common import strip_generics
from rules.bmocops import OpSummary, expected, plain, M, PUSH

REG = [("L_before", d) for d in ("lt", "gt", "eq")] + [("R_before", d) for d in ("lt", "gt", "eq")] + [("equal", "eq"), ("L_contains_R", "lt"), ("R_contains_L", "gt")]
GO_UP, GO_DOWN, DD = M + "go_up", M + "go_down", M + "dd_4_go_up"
RAW = M + "BMOCBuilderUnsafe::push_raw_unsafe"


def operator_table(ctx, crate, op, clause="site-table", only_full=False):
    s = OpSummary(ctx, crate, op)
    if not s.ok: return None
    tab = s.table()
    n = 0
    for reg, d in REG:
        bad = []
        for lf in (0, 1):
            for rf in (0, 1):
                if only_full and not (lf and rf): continue
                for ov in (0, 1):
                    got = tab.get((reg, d, lf, rf, ov), []); exp = expected(op, reg, lf, rf, ov)
                    n += 1
                    if got != exp: bad.append({"L.full": lf, "R.full": rf, "overlapped": ov, "code": got, "semantics": exp})
        ctx.report(clause, "%s:%s[depth %s]" % (op, reg, d), not bad,
                   "events of the code equal the events required by the three-valued semantics for every flag combination" if not bad else "differs: %s" % bad[:2],
                   at=s.body.span, kind="N", sample={"operator": op, "region": reg, "depth_relation": d, "L.full=1,R.full=0": [str(x) for x in tab.get((reg, d, 1, 0, 0), [])]} if d != "gt" else None)
    # drains and initial cursor reads
    badd = []
    for lf in (0, 1):
        for rf in (0, 1):
            got = tab.get(("outside", None, lf, rf, 0), [])
            exp = [("adv", "L"), ("adv", "R")]
            if op != "and": exp += [("adv", "L"), ("adv", "R"), ("push", "L", bool(lf)), ("push", "R", bool(rf))]
            if got != sorted(exp, key=str): badd.append((lf, rf, got))
    ctx.report(clause, "%s:drains" % op, not badd, "outside the main loop: two initial reads%s" % ("" if op == "and" else ", then each drain loop re-emits the remaining cells of one operand unchanged and advances its cursor") if not badd else "differs: %s" % badd[:1], at=s.body.span, kind="N")
    # the &mut bool handed to consume_while_overlapped_and_partial is only ever SET by the callee:
    # it must be false when the call is made
    from rules.bmocops import CONSP
    for ev in s.evs:
        if plain(ev.callee) != CONSP: continue
        v = ev.argvals[2] if ev.argvals else None
        bad = []
        for lf in (0, 1):
            for rf in (0, 1):
                env = {("L", "is_full"): bool(lf), ("R", "is_full"): bool(rf)}
                if not s.feasible(ev.facts, env): continue
                if v is None or s.evalflag(v, env) is not False: bad.append((lf, rf, show(v)[:60] if v else None))
        ctx.report(clause, "%s:overlap-flag-false-before-consume@%s" % (op, ev.site[-1][1]), not bad,
                   "the overlap flag is false whenever consume_while_overlapped_and_partial is called" if not bad else "the flag may already be true at the call (the callee never clears it): %s" % bad[:2], at=ev.at, kind="N")
    # any site the classifier could not place?
    stray = [k for k in tab if k[0] not in [r for r, _ in REG] + ["outside"] and not k[0].startswith("depth-")]
    pre = [k for k in tab if k[0].startswith("depth-")]
    ctx.report(clause, "%s:no-unclassified-sites" % op, not stray and not pre, "sites in unrecognised regions: %s" % (stray + pre)[:3] if (stray or pre) else "every emission / cursor site lies in one of the 9 regions or a drain loop", at=s.body.span, kind="N")
    return s


def fill_helpers(ctx, crate):
    clause = "complement-fill"
    names = {plain(p): p for p in crate.bodies}
    # go_up / go_down push with their own flag parameter
    for fn in (GO_UP, GO_DOWN):
        b = ctx.anchor(crate, fn, clause)
        if b is None: continue
        e = Engine(crate, opaque={PUSH}); e.run(fn); ctx.functions |= e.visited_fns
        ps = [ev for ev in e.events.values() if ev.callee == PUSH]
        ok = len(ps) == 1 and ps[0].args[3] == ('p', 'flag')
        ctx.report(clause, fn.split("::")[-1] + ":pushes-with-flag-param", ok, "%d push site(s); flag argument = %s" % (len(ps), [show(p.args[3]) for p in ps]), at=b.span, kind="N")
    spec = {M + "BMOC::not": (True, None), M + "BMOC::not_in_cell_4_or": (False, True), M + "BMOC::not_in_cell_4_xor": (True, False)}
    for fn, (fill, cellflag) in spec.items():
        b = ctx.anchor(crate, fn, clause)
        if b is None: continue
        opq = {PUSH, GO_UP, GO_DOWN, DD, RAW, names.get("<nested::bmoc::BMOCIter as std::iter::Iterator>::next"), M + "consume_while_overlapped_and_partial", M + "is_in", M + "BMOC::from_raw_value",
               M + "BMOCBuilderUnsafe::new", M + "BMOCBuilderUnsafe::to_bmoc"} - {None}
        e = Engine(crate, opaque=opq); e.run(fn); ctx.functions |= e.visited_fns
        evs = [ev for ev in e.events.values() if len(ev.site) == 2]
        gos = [ev for ev in evs if ev.callee in (GO_UP, GO_DOWN)]
        fl_idx = {GO_UP: 3, GO_DOWN: 4}
        ok = bool(gos) and all(ev.args[fl_idx[ev.callee]] == C('bool', 1 if fill else 0) for ev in gos)
        ctx.report(clause, fn.split("::")[-1] + ":fill-flag", ok, "%d go_up/go_down calls, all with flag %s" % (len(gos), str(fill).lower()), at=b.span, kind="N",
                   sample={"fn": fn, "fill_flag": fill, "calls": len(gos)})
        for ev in evs:
            if ev.callee == M + "consume_while_overlapped_and_partial":
                v = ev.argvals[2] if ev.argvals else None
                ctx.report(clause, fn.split("::")[-1] + ":overlap-flag-reset-before-each-consume", v == C('bool', 0),
                           "the overlap flag is the constant false at the call inside the loop" if v == C('bool', 0) else
                           "the overlap flag handed to consume_while_overlapped_and_partial inside the loop is %s: once set it stays set, so the loop continues with a cell outside the container or unwraps None" % (show(v) if v else None), at=ev.at, kind="N")
        if not fn.endswith("::not"):
            # where the fill goes: from (low.depth, low.hash) down to each contained cell (depth, hash of
            # one and the same cell), up by dd_4_go_up of that cell or back to the container's depth,
            # and at the end down to the cell that follows the container: (low.depth, low.hash + 1)
            di = crate.field_index("nested::bmoc::Cell", "depth"); hi = crate.field_index("nested::bmoc::Cell", "hash")
            LOW = ('deref', ('p', 'low_resolution'))
            def cell_pair(td, th):
                return td[0] == 'fld' and th[0] == 'fld' and td[2] == di and th[2] == hi and td[1] == th[1] and td[1] != LOW
            downs = [ev for ev in evs if ev.callee == GO_DOWN]; ups = [ev for ev in evs if ev.callee == GO_UP]
            dds = {ev.ret: ev for ev in evs if ev.callee == DD}
            closing = [ev for ev in downs if ev.args[2] == ('fld', LOW, di) and ev.args[3] == ('op', 'add', 'u64', ('fld', LOW, hi), C('u64', 1))]
            bad = [ev for ev in downs if ev not in closing and not cell_pair(ev.args[2], ev.args[3])]
            first = [ev for ev in downs if ev.argvals and ev.argvals[0] == ('fld', LOW, di) and ev.argvals[1] == ('fld', LOW, hi)]
            badup = []
            for ev in ups:
                a = ev.args[2]
                if a in dds and cell_pair(dds[a].args[2], dds[a].args[3]) and ev.argvals and dds[a].args[0] == ev.argvals[0] and dds[a].args[1] == ev.argvals[1]: continue
                if a[0] == 'op' and a[1] == 'sub' and a[4] == ('fld', LOW, di) and ev.argvals and a[3] == ev.argvals[0]: continue
                badup.append(ev)
            okt = len(closing) == 1 and not bad and not badup and len(first) == 1 and len(downs) >= 3 and len(ups) >= 2
            ctx.report(clause, fn.split("::")[-1] + ":fill-targets", okt,
                       "%d go_down (first from the container's own cell, one to each contained cell, the last to (low.depth, low.hash + 1)), %d go_up (dd_4_go_up of the next cell, then back to the container's depth)" % (len(downs), len(ups)) if okt else
                       "fill targets not as required: closing go_down to (low.depth, low.hash + 1): %d; other targets %s; climbs %s; start %d" % (len(closing), [(show(ev.args[2])[:30], show(ev.args[3])[:30]) for ev in bad], [show(ev.args[2])[:40] for ev in badup], len(first)),
                       at=b.span, kind="N")
        if fn.endswith("::not"):
            # the complement walk: from (0, 0) down to each cell (depth and hash of one and the same cell),
            # up by dd_4_go_up of the next cell, finally up by the current depth (to depth 0), then the
            # remaining base cells h..12; the empty case pushes the base cells 0..12
            di = crate.field_index("nested::bmoc::Cell", "depth"); hi = crate.field_index("nested::bmoc::Cell", "hash")
            def cell_pair(td, th):
                return td[0] == 'fld' and th[0] == 'fld' and td[2] == di and th[2] == hi and td[1] == th[1]
            downs = [ev for ev in evs if ev.callee == GO_DOWN]; ups = [ev for ev in evs if ev.callee == GO_UP]
            dds = {ev.ret: ev for ev in evs if ev.callee == DD}
            bad = [ev for ev in downs if not cell_pair(ev.args[2], ev.args[3])]
            first = [ev for ev in downs if ev.argvals and ev.argvals[0] == C('u8', 0) and ev.argvals[1] == C('u64', 0)]
            badup = []; final = []
            for ev in ups:
                a = ev.args[2]
                if a in dds and cell_pair(dds[a].args[2], dds[a].args[3]) and ev.argvals and dds[a].args[0] == ev.argvals[0] and dds[a].args[1] == ev.argvals[1]: continue
                if ev.argvals and a == ev.argvals[0]: final.append(ev); continue
                badup.append(ev)
            rng = [ev.args[0][3] for ev in evs if ev.callee and "into_iter" in ev.callee and ev.args and ev.args[0][0] == 'agg' and ev.args[0][1] == 'adt:std::ops::Range' and ev.args[0][3][1] == C('u64', 12)]
            tail = [r_ for r_ in rng if final and r_[0][0] == 'sym' and r_[0][1][0] == 'havoc' and r_[0][1][1] == final[0].site]
            empty = [r_ for r_ in rng if r_[0] == C('u64', 0)]
            okt = not bad and not badup and len(first) == 1 and len(final) == 1 and len(downs) >= 2 and len(tail) == 1 and len(empty) == 1
            ctx.report(clause, "not:walk-targets", okt,
                       "%d go_down to (cell.depth, cell.hash), the first from (0, 0); go_up by dd_4_go_up of the next cell, at the end by the current depth; then base cells h..12 (0..12 when empty)" % len(downs) if okt else
                       "complement walk not as required: other go_down targets %s; other climbs %s; start %d; final climb %d; closing ranges %d / %d" % ([(show(ev.args[2])[:30], show(ev.args[3])[:30]) for ev in bad], [show(ev.args[2])[:40] for ev in badup], len(first), len(final), len(tail), len(empty)),
                       at=b.span, kind="N")
        ps = [ev for ev in evs if ev.callee == PUSH]
        raws = [ev for ev in evs if ev.callee == RAW]
        if fn.endswith("::not"):
            # base-cell completion with full cells; partial cells re-emitted raw and only when not full
            okp = bool(ps) and all(p.args[1] == C('u8', 0) and p.args[3] == C('bool', 1) for p in ps)
            cf = crate.field_index("nested::bmoc::Cell", "is_full"); cr = crate.field_index("nested::bmoc::Cell", "raw_value")
            okr = bool(raws) and all(r.args[1][0] == 'fld' and r.args[1][2] == cr and ('b', ('fld', r.args[1][1], cf), False) in r.facts for r in raws)
            ctx.report(clause, "not:base-cells-full", okp, "%d direct pushes, all (depth 0, _, full)" % len(ps), at=b.span, kind="N")
            ctx.report(clause, "not:partial-cells-kept-raw", okr, "%d push_raw_unsafe(cell.raw_value) sites, each under `!cell.is_full`; full cells are dropped" % len(raws), at=b.span, kind="N")
        else:
            okp = bool(ps) and all(p.args[3] == C('bool', 1 if cellflag else 0) for p in ps)
            extra = ""
            if cellflag is False:
                cf = crate.field_index("nested::bmoc::Cell", "is_full")
                okp = okp and all(any(f[0] == 'b' and f[2] is False and f[1][0] == 'fld' and f[1][2] == cf for f in p.facts) for p in ps)
                extra = ", each under `!c.is_full`"
            ctx.report(clause, fn.split("::")[-1] + ":contained-cells", okp, "%d pushes of contained cells with flag %s%s" % (len(ps), str(cellflag).lower(), extra), at=b.span, kind="N")


def containment_test(ctx, crate):
    """N: `is_in(low, high)` — the containment test of the merge helpers — is
    low.depth <= high.depth && low.hash == high.hash >> 2 (high.depth - low.depth), read at every
    (depth, hash) pair of depths 0..=2 (63 x 63 cases), and it reads nothing but the depth and the
    hash of the two cells: raw values are relative to each BMOC's own maximal depth and cannot be
    compared across operands."""
    from rules.common import feval
    clause = "containment-test"
    fn = M + "is_in"
    b = ctx.anchor(crate, fn, clause)
    if b is None: return
    e = Engine(crate); r = e.run(fn); ctx.functions |= e.visited_fns
    di = crate.field_index("nested::bmoc::Cell", "depth"); hi = crate.field_index("nested::bmoc::Cell", "hash")
    pn = b.param_names()
    L_, H_ = ('deref', ('p', pn[0])), ('deref', ('p', pn[1]))
    flds = set()
    seen = set()
    def scan(t, depth=0):
        if t in seen or depth > 20 or not isinstance(t, tuple): return
        seen.add(t)
        if t[0] == 'fld' and t[1] in (L_, H_): flds.add(t[2]); return
        if t[0] == 'phi':
            for o in (e.phi_gate.get(t) or e.phi_ops.get(t, ())): scan(o, depth + 1)
            return
        for x in t:
            if isinstance(x, tuple): scan(x, depth + 1)
    if r.returns: scan(r.ret)
    only = flds <= {di, hi}
    bad = []
    cells = [(d, h) for d in range(3) for h in range(4 ** d if d else 1)] + [(d, 4 ** d + 1) for d in range(3)]
    if r.returns and only:
        for ld, lh in cells:
            for hd, hh in cells:
                v = feval(r.ret, {('fld', L_, di): ld, ('fld', L_, hi): lh, ('fld', H_, di): hd, ('fld', H_, hi): hh}, e)
                want = ld <= hd and lh == (hh >> (2 * (hd - ld)))
                if v is None or bool(v) != want: bad.append(((ld, lh), (hd, hh), v, want))
    ok = r.returns and only and not bad
    ctx.report(clause, "is_in:depth-and-hash-prefix", ok, "%d pairs; reads only depth and hash" % (len(cells) ** 2) if ok else
               ("is_in reads other fields of the cells (field indices %s): raw values of different BMOCs are not comparable" % sorted(flds) if not only else "is_in(%s, %s) = %s, expected %s" % bad[0]), at=b.span, kind="N")


def consume_tests(ctx, crate):
    """N: the two `consume_while_overlapped*` helpers skip cells of the other operand while they are
    INSIDE the low-resolution cell: the loop test is `is_in(low_resolution, cell)` (plus `!is_full` for
    the `_and_partial` variant) and no comparison of raw values — a cell's raw value lies in the middle
    of its descendants', so `raw < raw of the next cell` also swallows the first half of that next cell."""
    clause = "containment-test"
    isin = M + "is_in"
    rv = crate.field_index("nested::bmoc::Cell", "raw_value")
    for short in ("consume_while_overlapped", "consume_while_overlapped_and_partial"):
        fn = M + short
        b = ctx.anchor(crate, fn, clause)
        if b is None: continue
        nxt = {p_ for p_ in crate.bodies if p_.endswith("BMOCIter as std::iter::Iterator>::next")}
        e = Engine(crate, opaque={isin} | nxt); e.run(fn); ctx.functions |= e.visited_fns
        calls = [ev for ev in e.events.values() if ev.callee == isin]
        if not calls and not b.has_loops():
            # no loop of its own (the walk is an iterator adaptor with the test in a closure): nothing to read here
            ctx.not_decided("%s: written with an iterator adaptor, its test is in a closure this rule does not read" % short); continue
        okc = bool(calls) and all(ev.args[0] == ('p', 'low_resolution') or ev.args[0] == ('deref', ('p', 'low_resolution')) or (ev.argvals and ev.argvals[0] is None and 'low_resolution' in str(ev.args[0])) for ev in calls)
        rets = {ev.ret for ev in calls}
        # the helpers compare nothing themselves (flags and the answer of is_in only): any ordering comparison is a rewrite of the test
        raw_cmp = [show(d)[:60] for d, loc in e.branches if loc[0] == fn and any(x[0] == 'op' and x[1] in ('lt', 'le', 'gt', 'ge') for x in walk(d))]
        def from_isin(d, depth=0):
            if d in rets or any(x in rets for x in walk(d)): return True
            if d[0] == 'phi' and depth < 4: return any(from_isin(o, depth + 1) for o in e.phi_ops.get(d, ()))
            return False
        uses = any(from_isin(d) for d, loc in e.branches if loc[0] == fn)
        ok = okc and uses and not raw_cmp
        ctx.report(clause, short + ":loops-while-is_in", ok, "continues on is_in(low_resolution, cell); no raw-value comparison" if ok else
                   "the loop of %s is driven by %s (is_in calls: %d, used as a test: %s)" % (short, raw_cmp or "something else than is_in", len(calls), uses), at=b.span, kind="N")


def helper_loops_advance(ctx, crate, clause="merge-skeleton"):
    """N (CFG): the helpers that walk the *other* operand (`consume_while_overlapped*`,
    `not_in_cell_4_or`, `not_in_cell_4_xor`) advance that operand's cursor on every round of their
    loops: in the flow graph of each, once the blocks that call `BMOCIter::next` — or a helper that itself
    calls it on every path to its return — are taken out, no cycle is left among the loops that test a
    cell of the cursor.  A round that re-tests the same cell never ends (the operators of C07/C08 then
    return nothing at all).  `for` loops over ranges (go_up / go_down fills) advance by construction and
    are not the subject."""
    from mir import callee_name
    nxt = {p_ for p_ in crate.bodies if "::BMOCIter" in p_ and p_.endswith(" as std::iter::Iterator>::next")}
    helpers = [M + "consume_while_overlapped", M + "consume_while_overlapped_and_partial"] + \
              [p_ for p_ in crate.bodies if p_.startswith(M) and p_.split("::")[-1] in ("not_in_cell_4_or", "not_in_cell_4_xor")]
    helpers = [h for h in helpers if crate.body(h) is not None]
    if not nxt or not helpers:
        ctx.not_decided("helper loops: no BMOCIter::next / no consume helper found"); return
    must = set(nxt)
    def adv_blocks(b):
        return {i for i, t in b.calls() if callee_name(t["func"]) in must}
    changed = True
    while changed:
        changed = False
        for h in helpers:
            if h in must: continue
            b = crate.body(h); av = adv_blocks(b)
            reach = b.reachable(0, avoid=av)
            if not any(r in reach for r in b.return_blocks()):
                must.add(h); changed = True
    n = 0
    for h in helpers:
        b = ctx.anchor(crate, h, clause)
        if b is None: continue
        ctx.functions.add(h)
        av = adv_blocks(b); succ = b.succ(); bad = []
        for head, blocks in b.natural_loops().items():
            # `for` loops over ranges / inclusive ranges: their head calls a range `next`
            rng = [i for i, t in b.calls() if i in blocks and (callee_name(t["func"]) or "").find("ops::Range") >= 0 and (callee_name(t["func"]) or "").endswith("::next")]
            if rng and not (blocks & av): continue
            n += 1
            # a cycle through `head` inside the loop that avoids every advancing block
            seen = set(); st = [x for x in succ[head] if x in blocks and x not in av] if head not in av else []
            stuck = False
            while st:
                x = st.pop()
                if x == head: stuck = True; break
                if x in seen: continue
                seen.add(x)
                st.extend(y for y in succ[x] if y in blocks and y not in av)
            if stuck: bad.append(head)
        short = h.split("::")[-1]
        ctx.report(clause, short + ":every-round-advances-the-cursor", not bad, "every cycle of its cursor loops passes through BMOCIter::next (or a helper that always calls it)" if not bad else
                   "%s: the loop headed at bb%s can go round without advancing the cursor (no call of BMOCIter::next on that cycle)" % (short, bad[0]), at=b.span, kind="N")
    ctx.floor("cursor-helpers-analysed", len(helpers), 4)


def run(ctx):
    crate = ctx.crate("rel")
    n = 0
    for op in ("and", "or", "xor"):
        if operator_table(ctx, crate, op) is not None: n += 1
    ctx.floor("operators-summarised", n, 3)
    fill_helpers(ctx, crate)
    containment_test(ctx, crate)
    consume_tests(ctx, crate)
    helper_loops_advance(ctx, crate)
    # `or` and `xor` hand their flags to `pack` (to_bmoc_packing): a partial cell must not come out full
    from rules.c15 import pack_rule
    pack_rule(ctx, crate)
    ctx.not_decided("that the site rules compose to the documented cell-to-state map on whole BMOCs for all pairs of trees (quantifies over tree shapes)")
    ctx.extra["cases_per_operator"] = 72
