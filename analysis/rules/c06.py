"""C06 — cone flags truthful, coverage tight.
 D radius >= pi  =>  the result is exactly push_all(0, 0, 12, true) (12 full base cells), and every
   other path has the comparison `radius >= pi` known to have failed (E1);
 N 'full' is pushed in the recursion only under the INNER threshold f(radius - bound) (or 0);
 N every push of the recursion is under one of the two thresholds; inner <= outer by construction;
 N small-cone branch pushes only partial cells;
 N every BMOC returned by the public cone functions passes through pack;
 N pack never merges base cells (see C15 for the sibling rule)."""
import math
from sym import Engine, show, C, walk
from rules.common import strip_generics, cmp_facts, param, run_fn, failed_cmps, float_interval, cval, derives
from rules.cone import Recur, Internal, minmax_provenance, PUSH, L


def allsky(ctx, crate, rec, it):
    clause = "whole-sky"
    n = it.n
    ev = it.calls(n["allsky"])
    R = param("cone_radius")
    ok = len(ev) == 1
    under = False
    if ok:
        for op, a, c, pos in cmp_facts(ev[0].facts):
            if pos and op == "ge" and a == R and abs(cval(c) - math.pi) < 1e-15: under = True
            if pos and op == "le" and c == R and cval(a) is not None and abs(cval(a) - math.pi) < 1e-15: under = True
    ctx.report(clause, "internal:radius>=pi→allsky", ok and under, "allsky_bmoc_builder() is returned exactly under `cone_radius >= PI`", at=it.body.span,
               sample={"allsky_call_facts": [(op, show(a), show(c), pos) for op, a, c, pos in cmp_facts(ev[0].facts)] if ev else None})
    # every other emission / recursion site has the failed comparison
    others = it.calls(rec.path) + it.calls(PUSH)
    bad = []
    for e2 in others:
        f = failed_cmps(e2.facts, R)
        if not any(op == "ge" and abs(k - math.pi) < 1e-15 for op, k in f): bad.append(e2.at)
    ctx.report(clause, "internal:other-paths-have-radius<pi", not bad and bool(others), "all %d recursion/push sites of the driver lie on the failed edge of `cone_radius >= PI`" % len(others) if not bad else "sites reachable with radius >= pi: %s" % bad, at=it.body.span)
    # allsky builder = push_all(0, 0, 12, true)
    fn = n["allsky"]; b = ctx.anchor(crate, fn, clause)
    if b is not None:
        pa = "nested::bmoc::BMOCBuilderUnsafe::push_all"
        e = Engine(crate, opaque={pa, PUSH, "nested::bmoc::BMOCBuilderUnsafe::new"}); r = e.run(fn); ctx.functions |= e.visited_fns
        pas = [x for x in e.events.values() if x.callee == pa]; ps = [x for x in e.events.values() if x.callee == PUSH]
        okp = len(pas) == 1 and not ps and pas[0].args[1:] == [C('u8', 0), C('u64', 0), C('u64', 12), C('bool', 1)]
        ctx.report(clause, fn + ":push_all(0,0,12,true)", okp, "the only emission is push_all(%s)" % ([show(a) for a in pas[0].args[1:]] if pas else None), at=b.span)
        # push_all pushes build_raw_value(depth, h, are_full) for h in from..to
        e = Engine(crate, opaque={"nested::bmoc::build_raw_value"}); e.run(pa); ctx.functions |= e.visited_fns
        brv = [x for x in e.events.values() if x.callee == "nested::bmoc::build_raw_value"]
        from rules.common import loop_var_range, loop_bound_from_facts
        okr = len(brv) == 1 and brv[0].args[0] == param("depth") and brv[0].args[2] == param("are_full")
        if okr:
            lr = loop_var_range(e, brv[0].args[1])
            if lr is None: okr = False
            else:
                start, end = lr
                if end is None: end = loop_bound_from_facts(brv[0].facts, brv[0].args[1])
                okr = start == param("from_hash") and end == param("to_hash")
        ctx.report(clause, pa + ":range-from..to-same-depth-and-flag", okr, "push_all iterates h over from_hash..to_hash and pushes build_raw_value(depth, h, are_full, depth_max)", at=crate.body(pa).span)


def flags(ctx, crate, rec):
    clause = "flags"
    full = [p for p in rec.pushes if p.args[3] == C('bool', 1)]
    part = [p for p in rec.pushes if p.args[3] == C('bool', 0)]
    other = [p for p in rec.pushes if p.args[3] not in (C('bool', 1), C('bool', 0))]
    ctx.report(clause, "recur:push-sites", len(full) == 1 and len(part) == 1 and not other, "%d full push, %d partial push, %d with a computed flag" % (len(full), len(part), len(other)), at=rec.body.span, kind="N")
    for p in full:
        th = rec.threshold_of(p)
        ctx.report(clause, "recur:full-only-under-inner-threshold", "min" in th,
                   "push(depth, hash, true) is reached only after `shs <= min` succeeded" if "min" in th else "push(.., true) is not guarded by the INNER threshold (guards: %s): a cell can be flagged fully covered while part of it is outside the cone" % sorted(th), at=p.at, kind="N",
                   sample={"full_push_guards": sorted(th)})
    # the sentinel used for "no cell of this depth can be inside the cone" (radius < bound) must make
    # the full test unsatisfiable: shs is a sum of squares, so `shs <= 0.0` holds for a cone centred
    # exactly on a cell centre
    sent = getattr(ctx, "extra_sentinel", None)
    if sent is not None and full:
        ops_full = set()
        for op, a, c, pos in cmp_facts(full[0].facts):
            if pos and a == rec.shs and c[0] == 'fld' and c[2] == rec.fmin: ops_full.add(op)
        bad = [v for v in sent if v is not None and ((v >= 0 and "le" in ops_full) or (v > 0))]
        ctx.report(clause, "recur:no-full-when-radius<bound", not bad,
                   "sentinel(s) %s with test `shs %s min`: unsatisfiable since shs >= 0" % (sent, "/".join(sorted(ops_full))) if not bad else
                   "when radius < cell bound the inner threshold is %s and the full test is `shs <= min`: a cone centred exactly on a cell centre (shs = 0) flags the whole cell fully covered although the cone is smaller than the cell" % bad, at=full[0].at, kind="N")
    for p in part:
        th = rec.threshold_of(p)
        dl = [f for f in p.facts if f[0] == 'b' and f[1][0] == 'op' and f[1][1] == 'eq' and f[2]]
        ctx.report(clause, "recur:partial-push-at-max-depth-under-outer-threshold", "max" in th and bool(dl), "push(depth, hash, false) only at depth == self.depth and under `shs <= max`", at=p.at, kind="N")


def packed(ctx, crate):
    clause = "packed"
    pack = "nested::bmoc::BMOCBuilderUnsafe::pack"
    for fn, finaliser in ((L + "cone_coverage_approx", "nested::bmoc::BMOCBuilderUnsafe::to_bmoc_packing"),
                          (L + "cone_coverage_approx_custom", None)):
        b = ctx.anchor(crate, fn, clause)
        if b is None: continue
        fins = {"nested::bmoc::BMOCBuilderUnsafe::to_bmoc_packing", "nested::bmoc::BMOCBuilderUnsafe::to_lower_depth_bmoc_packing",
                "nested::bmoc::BMOCBuilderUnsafe::to_bmoc", "nested::bmoc::BMOCBuilderUnsafe::to_lower_depth_bmoc", L + "cone_coverage_approx"}
        e = Engine(crate, opaque=fins | {L + "cone_coverage_approx_internal", "nested::get_or_create"}); r = e.run(fn); ctx.functions |= e.visited_fns
        rets = e.phi_ops.get(r.ret, {r.ret})
        prod = {ev.ret: ev.callee for ev in e.events.values() if ev.callee in fins}
        ok = all(prod.get(x) in ("nested::bmoc::BMOCBuilderUnsafe::to_bmoc_packing", "nested::bmoc::BMOCBuilderUnsafe::to_lower_depth_bmoc_packing", L + "cone_coverage_approx") for x in rets)
        ctx.report(clause, fn + ":result-from-packing-finaliser", ok, "returned value(s) produced by %s" % sorted({str(prod.get(x)) for x in rets}), at=b.span, kind="N")
    for fin in ("nested::bmoc::BMOCBuilderUnsafe::to_bmoc_packing", "nested::bmoc::BMOCBuilderUnsafe::to_lower_depth_bmoc_packing"):
        b = ctx.anchor(crate, fin, clause)
        if b is None: continue
        e = Engine(crate, opaque={pack, "nested::bmoc::BMOC::create_unsafe", "nested::bmoc::BMOCBuilderUnsafe::to_lower_depth"}); r = e.run(fin); ctx.functions |= e.visited_fns
        pk = [ev for ev in e.events.values() if ev.callee == pack]
        cu = [ev for ev in e.events.values() if ev.callee == "nested::bmoc::BMOC::create_unsafe"]
        # the constructor call whose result is returned (a finaliser may go through its sibling and rebuild)
        rets = e.phi_ops.get(r.ret, {r.ret}) if r.returns else set()
        cu = [ev for ev in cu if ev.ret in rets] or cu
        ok = len(pk) == 1 and len(cu) == 1
        if ok:
            # entries given to create_unsafe derive from pack's result
            ok = derives(e, cu[0].args[1], pk[0].ret)
        ctx.report(clause, fin.split("::")[-1] + ":entries-from-pack", ok, "the BMOC is created from the vector returned by pack()", at=b.span, kind="N")
        # pack decodes entries with the builder's own depth_max: it must run on the entries as they were pushed,
        # i.e. BEFORE to_lower_depth re-encodes them for new_depth (after it, every cell looks deeper than it is,
        # the depth-0 guard never fires and four full base cells are merged into a cell above depth 0)
        tl = [ev for ev in e.events.values() if ev.callee == "nested::bmoc::BMOCBuilderUnsafe::to_lower_depth"]
        if tl and len(pk) >= 1:
            okl = len(tl) == 1 and len(pk) == 1 and any(derives(e, a, pk[0].ret) for a in tl[0].args[1:]) and not any(derives(e, a, tl[0].ret) for a in pk[0].args)
            # and nothing between: `pack` takes its input from the builder, not from the lowered vector
            order = b.rpo().get(pk[0].site[-1][1], 0) < b.rpo().get(tl[0].site[-1][1], 0) if len(tl) == 1 and len(pk) == 1 else False
            ctx.report(clause, fin.split("::")[-1] + ":pack-before-lowering", okl and order, "to_lower_depth receives the vector returned by pack()" if okl and order else
                       "pack() does not run before to_lower_depth (pack calls: %d, to_lower_depth calls: %d): it decodes re-encoded entries with the former depth_max" % (len(pk), len(tl)), at=b.span, kind="N")
    for fn in ("nested::cone_coverage_approx", "nested::cone_coverage_approx_custom", "nested::cone_coverage_approx_flat"):
        b = ctx.anchor(crate, fn, clause)
        if b is None: continue
        meth = {L + "cone_coverage_approx", L + "cone_coverage_approx_custom"}
        ok = crate.callees(fn) & meth
        ctx.report(clause, fn + ":delegates", bool(ok), "delegates to %s" % sorted(ok), at=b.span, kind="N")


def small_cone(ctx, crate, rec, it):
    ps = it.calls(PUSH)
    ok = bool(ps) and all(p.args[3] == C('bool', 0) for p in ps)
    ctx.report("flags", "internal:small-cone-pushes-partial-only", ok, "the small-cone branch pushes cells with flag false only (%d site)" % len(ps), at=it.body.span, kind="N")
    # the kept neighbours are sorted, THEN de-duplicated (dedup only removes consecutive
    # duplicates), THEN pushed: otherwise the BMOC lists a cell twice / out of order
    sorts = [ev for ev in it.evs if ev.callee and "sort_unstable" in ev.callee and len(ev.site) == 2]
    dedups = [ev for ev in it.evs if ev.callee and strip_generics(ev.callee).endswith("Vec::dedup") and len(ev.site) == 2]
    rpo = it.body.rpo()
    pos = lambda ev: rpo.get(ev.site[-1][1], 1 << 30)
    ok2 = len(sorts) == 1 and len(dedups) == 1 and len(ps) == 1 and pos(sorts[0]) < pos(dedups[0]) < pos(ps[0]) \
        and it.body.dominates(sorts[0].site[-1][1], dedups[0].site[-1][1]) and it.body.dominates(dedups[0].site[-1][1], ps[0].site[-1][1])
    ctx.report("well-formed", "internal:small-cone-sort-then-dedup-then-push", ok2, "sort_unstable → dedup → push loop, in that order (%d/%d/%d sites)" % (len(sorts), len(dedups), len(ps)), at=it.body.span, kind="N")


def run(ctx):
    crate = ctx.crate("rel")
    rec = Recur(ctx, crate)
    if not rec.ok:
        ctx.undecided("recursion", "recur:summary", "cannot summarise cone_coverage_approx_recur"); return
    it = Internal(ctx, crate, rec)
    if it.ok:
        allsky(ctx, crate, rec, it)
        small_cone(ctx, crate, rec, it)
    minmax_provenance(ctx, crate, "thresholds", "thresholds")
    flags(ctx, crate, rec)
    packed(ctx, crate)
    from rules.c15 import pack_rule
    pack_rule(ctx, crate)
    ctx.not_decided("that the thresholds are geometrically right (a cell under the inner threshold lies inside the cone); 'about one cell size' tightness; fixpoint of pack")
    from rules import cancellation
    cancellation.check(ctx, ctx.crate("rel"), ['nested::Layer::cone_coverage_approx', 'nested::Layer::cone_coverage_approx_custom'], floor=63)
