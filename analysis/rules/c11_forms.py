"""C11 — closed forms of the RING layout helpers, as polynomial identities in nside (E6).

"4*i cells in polar ring i and 4*nside cells in equatorial rings" fixes the first index of every
region: with n = nside,
   n_hash = 12 n^2;  first_hash_in_eqr = 2n(n+1)  (rings 1..n of the north cap: sum 4i);
   first_hash_on_npc_eqr_transition = 2n(n-1)  (start of ring n, the last polar ring);
   first_hash_on_eqr_spc_transition = 2n(5n-1) = first_hash_in_eqr + (2n-1)*4n;
   first_hash_in_spc = 2n(5n+1) = n_hash - 2n(n-1);   n_isolatitude_rings = 4n-1;
   triangular_number_x4(k) = 2k(k+1).
Each helper's return term is turned into a polynomial with exact integer coefficients (casts to
wider integers are identities on the stated domain nside <= 2^29: no intermediate exceeds 2^63)
and compared; and the NESTED layer's first_hash_in_eqr equals the RING one at nside = 2^depth for
the 30 depths (constant folding)."""
from fractions import Fraction
from sym import Engine, show, C
from poly import Poly
from mir import INT_TYS


def ipoly(t, names):
    """integer term -> Poly (exact over the integers, i.e. valid when nothing wraps)"""
    if t in names: return Poly.var(names[t])
    k = t[0]
    if k == 'c' and t[1] in INT_TYS: return Poly.const(t[2])
    if k == 'cast' and t[1] == 'int_to_int': return ipoly(t[3], names)
    if k == 'op':
        a, b = ipoly(t[3], names), ipoly(t[4], names)
        if a is None or b is None: return None
        if t[1] == 'add': return a + b
        if t[1] == 'sub': return a - b
        if t[1] == 'mul': return a * b
        if t[1] == 'shl' and b.is_const(): return a * Poly.const(2 ** int(b.d.get((), 0)))
    return None


def run(ctx, crate):
    clause = "ring-layout-closed-forms"
    n = Poly.var("n")
    c = Poly.const
    want = {
        "ring::n_hash": c(12) * n * n,
        "ring::first_hash_in_eqr": c(2) * n * (n + c(1)),
        "ring::first_hash_on_npc_eqr_transition": c(2) * n * (n - c(1)),
        "ring::first_hash_on_eqr_spc_transition": c(2) * n * (c(5) * n - c(1)),
        "ring::first_hash_in_spc": c(2) * n * (c(5) * n + c(1)),
        "ring::n_isolatitude_rings": c(4) * n - c(1),
        "ring::triangular_number_x4": c(2) * n * (n + c(1)),
    }
    got = {}
    for fn, w in want.items():
        b = ctx.anchor(crate, fn, clause)
        if b is None: continue
        e = Engine(crate); r = e.run(fn); ctx.functions |= e.visited_fns
        p = ipoly(r.ret, {('p', b.param_names()[0]): "n"}) if r.returns else None
        got[fn] = p
        ctx.report(clause, fn, p is not None and p == w, "%s(n) = %r" % (fn.split("::")[-1], p) if p == w else "%s(n) = %r, expected %r (%s)" % (fn.split("::")[-1], p, w, show(r.ret)[:100] if r.returns else "no value"),
                   at=b.span, kind="N", sample={"helper": fn, "polynomial": repr(p)})
    # relations between the regions (what "4n cells per equatorial ring, 2n-1 of them" means)
    if all(got.get(k) is not None for k in want):
        rel1 = got["ring::first_hash_on_eqr_spc_transition"] - got["ring::first_hash_in_eqr"] == (c(2) * n - c(1)) * c(4) * n
        rel2 = got["ring::n_hash"] - got["ring::first_hash_in_spc"] == got["ring::first_hash_on_npc_eqr_transition"]
        rel3 = got["ring::first_hash_in_spc"] - got["ring::first_hash_on_eqr_spc_transition"] == c(4) * n
        ctx.report(clause, "ring:region-sizes", rel1 and rel2 and rel3, "equatorial region = (2n-1) rings of 4n cells; south cap mirrors the north cap; the transition ring has 4n cells", kind="N")
    # NESTED side agrees at nside = 2^depth
    fn = "nested::Layer::first_hash_in_eqr"
    b = ctx.anchor(crate, fn, clause)
    if b is not None:
        fields = [f["name"] for f in crate.adts["nested::Layer"]["variants"][0]["fields"]]
        bad = []
        for d in range(30):
            selfv = ('agg', 'adt:nested::Layer', 0, tuple(C('u8', d) if f == "depth" else (C('u32', 1 << d) if f == "nside" else ('sym', ('self', f))) for f in fields))
            e = Engine(crate); r = e.run_method(fn, selfv)
            v = r.ret[2] if r.returns and r.ret[0] == 'c' else None
            if v != 2 * (1 << d) * ((1 << d) + 1): bad.append((d, v))
        ctx.functions.add(fn)
        ctx.report(clause, fn + ":=ring-form-at-2^depth", not bad, "Layer::first_hash_in_eqr = 2n(n+1) with n = 2^depth for the 30 depths" if not bad else "differs: %s" % bad[:3], at=b.span, kind="N")
