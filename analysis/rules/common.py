"""Shared queries for the rule modules."""
import math
from sym import Engine, show, walk, is_const, CMP, NEG, SWAP, term_ty
from mir import f64_from_bits, INT_TYS

INF = float("inf")


def cval(t):
    """numeric value of a constant term (floats decoded), else None"""
    if t[0] != 'c': return None
    if t[1] == 'f64': return f64_from_bits(t[2])
    if t[1] in INT_TYS or t[1] == 'bool': return t[2]
    return None


def cmp_facts(facts):
    """yield (op, a, b, positive) for every comparison fact; `positive` False means the comparison
    is known to have FAILED (kept apart: for floats a failed `a <= b` does not give `a > b`)."""
    for f in facts:
        if f[0] == 'b' and f[1][0] == 'op' and f[1][1] in CMP:
            yield f[1][1], f[1][3], f[1][4], f[2]
            # and the same comparison read from the other side (a < b  ==  b > a), so that no rule
            # depends on the order in which the source wrote the operands
            if f[1][3] != f[1][4]:
                yield SWAP[f[1][1]], f[1][4], f[1][3], f[2]


def float_interval(facts, term):
    """Interval [lo, hi] that `term` is known to lie in at this point, from comparisons with
    constants that SUCCEEDED (NaN fails every comparison, so a non-empty result excludes NaN only
    if at least one bound is finite).  Returns (lo, lo_strict, hi, hi_strict)."""
    lo, los, hi, his = -INF, False, INF, False
    for op, a, b, pos in cmp_facts(facts):
        if not pos: continue
        if a == term and cval(b) is not None: c = cval(b)
        elif b == term and cval(a) is not None: c = cval(a); op = SWAP[op]
        else: continue
        if op in ("le", "lt"):
            if c < hi or (c == hi and op == "lt"): hi, his = c, op == "lt"
        elif op in ("ge", "gt"):
            if c > lo or (c == lo and op == "gt"): lo, los = c, op == "gt"
        elif op == "eq":
            lo = hi = c; los = his = False
    return lo, los, hi, his


def failed_cmps(facts, term):
    """comparisons of `term` with constants known to have failed: list of (op, const) normalised
    so that term is on the left."""
    out = []
    for op, a, b, pos in cmp_facts(facts):
        if pos: continue
        if a == term and cval(b) is not None: out.append((op, cval(b)))
        elif b == term and cval(a) is not None: out.append((SWAP[op], cval(a)))
    return out


def int_upper_facts(facts, term):
    """normalised integer facts `term < N` / `term <= N` (N any term): list of ('lt'|'le', N)."""
    out = []
    for op, a, b, pos in cmp_facts(facts):
        if not pos: op = NEG[op]
        if a == term: pass
        elif b == term: a, b, op = b, a, SWAP[op]
        else: continue
        if op in ("lt", "le"): out.append((op, b))
    return out


def engine_for(crate, **kw):
    return Engine(crate, **kw)


def run_fn(crate, path, args=None, **kw):
    e = Engine(crate, **kw)
    r = e.run(path, args)
    return e, r


def param(name):
    return ('p', name)


def self_field(crate, adt, field):
    return ('fld', ('deref', ('p', 'self')), crate.field_index(adt, field))


def check_float_domain_guard(ctx, crate, fn, pname, lo, hi, clause, kind="D", key=None, engine_kw=None):
    """At every normal return of `fn`, the float parameter `pname` is known to be in [lo, hi] by
    comparisons that succeeded (so NaN and out-of-domain values never produce a value)."""
    b = ctx.anchor(crate, fn, clause)
    if b is None: return None
    key = key or "%s:%s" % (fn, pname)
    if pname not in b.param_names():
        ctx.undecided(clause, key, "function %s has no parameter named %s (has %s)" % (fn, pname, b.param_names()), at=b.span); return None
    e, r = run_fn(crate, fn, **(engine_kw or {}))
    ctx.functions |= e.visited_fns
    if not r.returns:
        ctx.holds(clause, key, "function never returns normally", at=b.span, kind=kind); return True
    l, ls, h, hs = float_interval(r.facts, param(pname))
    ok = l >= lo and h <= hi
    detail = "at every normal return %s ∈ %s%r, %r%s (required ⊆ [%r, %r]); guard facts come from %s" % (
        pname, "(" if ls else "[", l, h, ")" if hs else "]", lo, hi, sorted(x for x in e.visited_fns if x != fn)[:6])
    if not ok:
        detail = "a path reaches a normal return of %s without a succeeded comparison bounding `%s` within [%r, %r] (known interval: [%r, %r]) — out-of-domain or NaN input is mapped to a value instead of a panic" % (fn, pname, lo, hi, l, h)
    ctx.report(clause, key, ok, detail, at=b.span, kind=kind,
               sample={"fn": fn, "param": pname, "accepted_interval": [l, h], "required": [lo, hi], "config": getattr(crate, "config", "?")})
    return ok


def check_hash_range_guard(ctx, crate, fn, pname, bound_pred, bound_desc, clause, kind="D", key=None, engine_kw=None):
    """At every normal return of `fn`, a fact `pname < N` holds for a term N accepted by
    bound_pred (e.g. the n_hash field of the layer)."""
    b = ctx.anchor(crate, fn, clause)
    if b is None: return None
    key = key or "%s:%s" % (fn, pname)
    if pname not in b.param_names():
        ctx.undecided(clause, key, "function %s has no parameter named %s (has %s)" % (fn, pname, b.param_names()), at=b.span); return None
    e, r = run_fn(crate, fn, **(engine_kw or {}))
    ctx.functions |= e.visited_fns
    if not r.returns:
        ctx.holds(clause, key, "function never returns normally", at=b.span, kind=kind); return True
    ups = int_upper_facts(r.facts, param(pname))
    good = [(op, n) for op, n in ups if bound_pred(op, n)]
    ok = bool(good)
    if ok: detail = "at every normal return: %s %s %s" % (pname, "<" if good[0][0] == "lt" else "<=", show(good[0][1]))
    else: detail = "a path reaches a normal return of %s without the range check `%s < %s`; facts on %s at return: %s" % (
        fn, pname, bound_desc, pname, [(op, show(n)) for op, n in ups])
    ctx.report(clause, key, ok, detail, at=b.span, kind=kind,
               sample={"fn": fn, "param": pname, "facts_at_return": [(op, show(n)) for op, n in ups], "config": getattr(crate, "config", "?")})
    return ok


def events_calling(engine, callee_pred):
    if isinstance(callee_pred, str):
        name = callee_pred
        callee_pred = lambda n: n == name
    return [ev for ev in engine.events.values() if ev.callee and callee_pred(ev.callee)]


def contains_term(t, pred):
    return any(pred(x) for x in walk(t))


import re as _re
_GEN = _re.compile(r"::<[^<>]*(?:<[^<>]*>[^<>]*)*>")
_LT = _re.compile(r"<'[a-z_]+>")


def strip_generics(name):
    """`compass_point::MainWindMap::<V>::get` -> `compass_point::MainWindMap::get` (so that a rule
    does not depend on the spelling of a type parameter)"""
    if not name: return name
    prev = None
    while prev != name:
        prev = name; name = _GEN.sub("", name); name = _LT.sub("", name)
    return name


def is_fn(name, plain):
    return strip_generics(name) == plain


def derives(engine, x, src, depth=6):
    """x is src, contains src, or is the result of a recorded call one of whose arguments derives
    from src (value flow through opaque conversions such as into_boxed_slice)"""
    if depth < 0: return False
    if any(y == src for y in walk(x)): return True
    for ev in engine.events.values():
        if ev.ret is not None and any(y == ev.ret for y in walk(x)):
            if any(derives(engine, a, src, depth - 1) for a in ev.args): return True
            if ev.argvals and any(av is not None and derives(engine, av, src, depth - 1) for av in ev.argvals): return True
    if x[0] == 'phi':
        return any(derives(engine, o, src, depth - 1) for o in engine.phi_ops.get(x, ()))
    if x[0] == 'sym' and x[1] and x[1][0] == 'havoc' and len(x[1]) >= 3:
        # the value of a place after it was lent mutably to an opaque call: it derives from what
        # the place held before the call
        ev = engine.events.get(x[1][1])
        i = x[1][2]
        if ev is not None and isinstance(i, int) and ev.argvals and i < len(ev.argvals) and ev.argvals[i] is not None:
            return derives(engine, ev.argvals[i], src, depth - 1)
    return False


def is_cmp(t, op, a_pred, b_pred):
    """t is the comparison `a op b`, in either operand order (a < b  ==  b > a); a_pred / b_pred
    are terms or predicates on terms"""
    if t[0] != 'op' or t[1] not in CMP: return False
    pa = a_pred if callable(a_pred) else (lambda x: x == a_pred)
    pb = b_pred if callable(b_pred) else (lambda x: x == b_pred)
    if t[1] == op and pa(t[3]) and pb(t[4]): return True
    if t[1] == SWAP[op] and pa(t[4]) and pb(t[3]): return True
    return False


def argv(ev, i):
    """value of argument i, looking through a reference to a local (by-value <-> by-reference
    parameter passing must not matter to a rule)"""
    a = ev.args[i]
    if ev.argvals and i < len(ev.argvals) and ev.argvals[i] is not None: return ev.argvals[i]
    if a[0] == 'ref_t' and a[1][0] == 'deref': return a[1][1]
    return a


def is_view_of(t, src):
    """t is src itself or a projection / pointer view of it (field, deref, cast, re-borrow): the
    same storage handed over by value, by reference or through Box/Vec internals"""
    for _ in range(12):
        if t == src: return True
        if t[0] in ('fld', 'deref'): t = t[1]
        elif t[0] == 'cast': t = t[3]
        elif t[0] == 'ref_t' and isinstance(t[1], tuple) and t[1] and t[1][0] == 'deref': t = t[1][1]
        else: return False
    return False


def loop_var_range(engine, var):
    """If `var` is a loop counter, return (start, end, facts_needed) for the idioms
      for v in a..b            (payload of Range::next on an iterator created from Range{a, b})
      let mut v = a; while v < b { ..; v += 1 }   (merge of a and v + 1; the bound is a must-fact)
    as (start_term, end_term_or_None).  None if not recognised."""
    # for-loop: var = ((next_ret as Some).0)
    if var[0] == 'fld' and var[1][0] == 'dc':
        nxt = var[1][1]
        for ev in engine.events.values():
            if ev.ret == nxt and ev.callee and ev.callee.endswith("::next") and ev.argvals and ev.argvals[0] is not None:
                it = ev.argvals[0]
                for e2 in engine.events.values():
                    if e2.callee and "into_iter" in e2.callee and e2.args and e2.args[0][0] == 'agg' and e2.args[0][1] == 'adt:std::ops::Range' and derives(engine, it, e2.ret):
                        return e2.args[0][3][0], e2.args[0][3][1]
        return None
    if var[0] == 'phi':
        ops = engine.phi_ops.get(var, set())
        steps = [o for o in ops if o[0] == 'op' and o[1] == 'add' and ((o[3] == var and o[4][0] == 'c' and o[4][2] == 1) or (o[4] == var and o[3][0] == 'c' and o[3][2] == 1))]
        inits = [o for o in ops if o not in steps]
        if len(steps) == 1 and len(inits) == 1:
            return inits[0], None
        # the first increments may have been constant-folded before the merge generalised:
        # {c, c+1, .., phi+1} is the counter starting at c
        if len(steps) == 1 and inits and all(o[0] == 'c' for o in inits):
            vals = sorted(o[2] for o in inits)
            if vals == list(range(vals[0], vals[0] + len(vals))):
                return min(inits, key=lambda o: o[2]), None
    return None


def loop_bound_from_facts(facts, var):
    """upper bound term b such that `var < b` is a must-fact"""
    for op, a, c, pos in cmp_facts(facts):
        if pos and op == "lt" and a == var: return c
        if (not pos) and op == "ge" and a == var: return c
    return None


def feval(t, env, eng, depth=0):
    """Read an extracted float / boolean formula at a point: exact evaluation of a small term on
    given values of its leaves (env: term -> float | bool).  Gated merges are followed through their
    gate.  No code of the crate is run: the term is what the abstract interpreter derived.
    Returns None when the term contains something else (calls other than abs/min/max, ungated merges)."""
    from mir import f64_from_bits
    if t in env: return env[t]
    if depth > 40: return None
    k = t[0]
    if k == 'c':
        if t[1] == 'f64': return f64_from_bits(t[2])
        if t[1] == 'bool': return bool(t[2])
        return t[2]
    if k == 'op':
        a, b = feval(t[3], env, eng, depth + 1), feval(t[4], env, eng, depth + 1)
        if a is None or b is None: return None
        op = t[1]
        from mir import INT_TYS
        from sym import wrap_int
        if t[2] in INT_TYS and isinstance(a, int) and isinstance(b, int) and not isinstance(a, bool) and not isinstance(b, bool):
            # integer arithmetic wraps at the width of its type (release semantics)
            if op == 'add': return wrap_int(t[2], a + b)
            if op == 'sub': return wrap_int(t[2], a - b)
            if op == 'mul': return wrap_int(t[2], a * b)
            if op == 'shl' and 0 <= b < INT_TYS[t[2]][0]: return wrap_int(t[2], a << b)
            if op == 'shr' and 0 <= b < INT_TYS[t[2]][0]: return a >> b
            if op == 'bitand': return a & b
            if op == 'bitor': return a | b
            if op == 'bitxor': return a ^ b
            if op in ('div', 'rem') and b != 0 and a >= 0 and b > 0: return a // b if op == 'div' else a % b
        try:
            if op == 'add': return a + b
            if op == 'sub': return a - b
            if op == 'mul': return a * b
            if op == 'div': return a / b if t[2] == 'f64' else None
            if op == 'rem' and t[2] == 'f64' and isinstance(a, float) and isinstance(b, float) and b != 0: return math.fmod(a, b)
            if op == 'lt': return a < b
            if op == 'le': return a <= b
            if op == 'gt': return a > b
            if op == 'ge': return a >= b
            if op == 'eq': return a == b
            if op == 'ne': return a != b
            if op == 'bitand' and isinstance(a, bool) and isinstance(b, bool): return a and b
            if op == 'bitor' and isinstance(a, bool) and isinstance(b, bool): return a or b
            if op == 'bitxor' and isinstance(a, bool) and isinstance(b, bool): return a != b
        except ZeroDivisionError:
            return None
        return None
    if k == 'un':
        a = feval(t[3], env, eng, depth + 1)
        if a is None: return None
        if t[1] == 'not' and isinstance(a, bool): return not a
        if t[1] == 'not' and isinstance(a, int):
            from mir import INT_TYS
            from sym import wrap_int
            ty = t[2] if t[2] in INT_TYS else term_ty(t[3])
            return wrap_int(ty, ~a) if ty in INT_TYS else None
        if t[1] == 'neg': return -a
        return None
    if k == 'cast':
        a = feval(t[3], env, eng, depth + 1)
        if a is None: return None
        if t[1] == 'int_to_float': return float(a)
        from mir import INT_TYS
        from sym import wrap_int
        if t[1] == 'int_to_int' and isinstance(a, bool): return int(a)
        if t[1] == 'int_to_int': return wrap_int(t[2], a) if t[2] in INT_TYS and isinstance(a, int) else a
        if t[1] == 'float_to_int' and t[2] in INT_TYS and isinstance(a, float):
            # `as` from float: truncation, saturating at the bounds of the type, NaN -> 0
            w, sg = INT_TYS[t[2]]
            lo, hi = (-(1 << (w - 1)), (1 << (w - 1)) - 1) if sg else (0, (1 << w) - 1)
            if a != a: return 0
            if a <= lo: return lo
            if a >= hi: return hi
            return int(a)
        return None
    if k == 'fld' and t[1][0] == 'call' and isinstance(t[1][1], str) and t[1][1].rsplit("::", 1)[-1] == 'sin_cos' and len(t[1][2]) == 1 and t[2] in (0, 1):
        a = feval(t[1][2][0], env, eng, depth + 1)
        if a is None: return None
        return math.sin(a) if t[2] == 0 else math.cos(a)
    if k == 'call' and isinstance(t[1], str):
        nm = t[1].rsplit("::", 1)[-1]
        args = [feval(x, env, eng, depth + 1) for x in t[2]]
        if any(x is None for x in args): return None
        if nm in ('leading_zeros', 'trailing_zeros') and len(args) == 1 and isinstance(args[0], int) and not isinstance(args[0], bool):
            from mir import INT_TYS
            ty = term_ty(t[2][0])
            if ty not in INT_TYS or args[0] < 0: return None
            w = INT_TYS[ty][0]
            if nm == 'leading_zeros': return w - args[0].bit_length()
            return w if args[0] == 0 else (args[0] & -args[0]).bit_length() - 1
        if nm == 'abs' and len(args) == 1: return abs(args[0])
        if nm == 'min' and len(args) == 2: return min(args)
        if nm == 'max' and len(args) == 2: return max(args)
        if nm == 'clamp' and len(args) == 3: return max(args[1], min(args[2], args[0]))
        import math as _m
        try:
            if nm == 'sin' and len(args) == 1: return _m.sin(args[0])
            if nm == 'cos' and len(args) == 1: return _m.cos(args[0])
            if nm == 'asin' and len(args) == 1: return _m.asin(args[0])
            if nm == 'acos' and len(args) == 1: return _m.acos(args[0])
            if nm == 'atan2' and len(args) == 2: return _m.atan2(args[0], args[1])
            if nm == 'tan' and len(args) == 1: return _m.tan(args[0])
            if nm == 'atan' and len(args) == 1: return _m.atan(args[0])
            if nm == 'sqrt' and len(args) == 1: return _m.sqrt(args[0])
        except ValueError:
            return None
        return None
    if k == 'phi':
        g = eng.phi_gate.get(t)
        if g is None: return None
        c = feval(g[0], env, eng, depth + 1)
        if c is None: return None
        return feval(g[1] if c else g[2], env, eng, depth + 1)
    return None


def ret_cases(crate, fn, args=None, **kw):
    """(engine, [(returned value, facts on that return edge)]) of the top frame of `fn` — for
    functions written with early returns, whose merged result has no gate to read"""
    eng = Engine(crate, **kw)
    cases = {}
    def eh(body, s_, t_, st, fk):
        if body.path != fn or len(fk) != 1: return
        if t_ == "return" or (t_ != "return" and body.blocks[t_]["term"]["k"] == "return"):
            cases[(s_, t_)] = (st.store.get((fk, 0)), st.facts)      # last visit of each edge
    eng.edge_hook = eh
    eng.run(fn, args)
    return eng, [c for c in cases.values() if c[0] is not None]


def feval_cases(cases, env, eng):
    """value of the function at a point: the returned value of the return edge(s) whose facts all
    hold there; None unless they agree"""
    vals = set()
    for v, facts in cases:
        ok = True
        for f in facts:
            if f[0] != 'b': continue
            c = feval(f[1], env, eng)
            if c is None: continue
            if bool(c) != bool(f[2]): ok = False; break
        if ok:
            x = feval(v, env, eng)
            if x is None: return None
            vals.add(x)
    return vals.pop() if len(vals) == 1 else None


def feval_leaves(leaves, env):
    """value of a function at a point from its leaves (explore_leaves): the leaf whose forced test
    outcomes are the ones the tests have at that point"""
    vals = set()
    for forced, eng, r in leaves:
        ok = True
        for t, c in forced.items():
            v = feval(t, env, eng)
            if v is None: ok = False; break
            if (bool(v) if c[1] == 'bool' else v) != (bool(c[2]) if c[1] == 'bool' else c[2]): ok = False; break
        if ok and r.returns:
            x = feval(r.ret, env, eng)
            if x is None: return None
            vals.add(x)
    return vals.pop() if len(vals) == 1 else None


def explore_leaves(crate, fn, opaque=(), args=None, max_tests=7, frames=None, models=None, subst0=None):
    """Every way through the non-constant two-way tests of `fn` (comparisons, boolean places, Option /
    two-variant discriminants), each forced in turn with Engine.subst.  Returns
    [(forced: {term: const}, engine, result)], or None when a test is not two-way / too many tests."""
    from mir import INT_TYS
    leaves = []
    state = {"ok": True}
    def kind(t):
        if t[0] == 'discr': return 'discr'
        if t[0] == 'op' and t[1] in CMP: return 'bool'
        ty = term_ty(t)
        if ty == 'bool' or ty is None: return 'bool'
        return None
    def go(sub, depth):
        if not state["ok"]: return
        e = Engine(crate, opaque=opaque, models=models); e.subst = dict(sub)
        r = e.run(fn, args)
        nxt = None
        for t, loc in e.branches:
            if t in sub: continue
            if frames is not None and loc[0] not in frames: continue
            nxt = t; break
        if nxt is None:
            leaves.append((dict(sub), e, r)); return
        k = kind(nxt)
        if k is None or depth >= max_tests + len(subst0 or {}):
            state["ok"] = False; return
        for v in (0, 1):
            s2 = dict(sub); s2[nxt] = ('c', 'bool' if k == 'bool' else 'isize', v)
            go(s2, depth + 1)
    go(dict(subst0 or {}), 0)
    return leaves if state["ok"] else None


def frange_facts(t, env, facts, assume_not_nan=True, eng=None):
    """frange, with every sub-term's range intersected with what the comparisons among `facts` say
    about it (a failed comparison is read as its negation when the inputs are known not to be NaN).
    With `eng`, gated merges are followed: each side is ranged under its side of the gate."""
    if eng is not None:
        env = dict(env); env['__eng__'] = eng; env['__facts__'] = frozenset(facts); env['__nan__'] = assume_not_nan
    def refine(x, r):
        lo, hi = r
        for op, a, b, pos in cmp_facts(facts):
            if a == x and cval(b) is not None: c = cval(b)
            elif b == x and cval(a) is not None: c = cval(a); op = SWAP[op]
            else: continue
            if not pos:
                if not assume_not_nan: continue
                op = {"lt": "ge", "le": "gt", "gt": "le", "ge": "lt", "eq": "ne", "ne": "eq"}[op]
            if op in ("le", "lt"): hi = min(hi, c)
            elif op in ("ge", "gt"): lo = max(lo, c)
            elif op == "eq": lo, hi = max(lo, c), min(hi, c)
        return (lo, hi)
    return frange(t, env, 0, refine)


def frange(t, env, depth=0, refine=None):
    r = _frange(t, env, depth, refine)
    if r is not None and refine is not None: r = refine(t, r)
    return r


def _frange(t, env, depth=0, refine=None):
    """Range of a float term over parameter ranges (env: term -> (lo, hi)), in real arithmetic, for
    the handful of operations range reductions are written with (+ - * / by constants, `%` by a
    positive constant — the sign of the result follows the dividend —, abs, min, max, neg).
    None if the term contains anything else."""
    import math
    from mir import f64_from_bits
    if t in env: return env[t]
    if depth > 30: return None
    k = t[0]
    if k == 'c' and t[1] == 'f64':
        v = f64_from_bits(t[2]); return (v, v)
    if k == 'un' and t[1] == 'neg':
        a = frange(t[3], env, depth + 1, refine); return None if a is None else (-a[1], -a[0])
    if k == 'phi' and env.get('__eng__') is not None:
        g = env['__eng__'].phi_gate.get(t)
        if g is None: return None
        rs = []
        for side, val in ((True, g[1]), (False, g[2])):
            r = frange_facts(val, {kk: vv for kk, vv in env.items() if not (isinstance(kk, str) and kk.startswith('__'))},
                             env['__facts__'] | {('b', g[0], side)}, env['__nan__'], env['__eng__'])
            if r is None: return None
            if r[0] <= r[1]: rs.append(r)          # an empty side is unreachable
        return (min(r[0] for r in rs), max(r[1] for r in rs)) if rs else None
    if k == 'call' and isinstance(t[1], str):
        nm = t[1].rsplit("::", 1)[-1]
        # bounded whatever the arguments
        if nm == 'atan2' and len(t[2]) == 2:
            den = frange(t[2][1], env, depth + 1, refine)
            if den is not None and den[0] >= 0: return (-math.pi / 2, math.pi / 2)      # atan2(y, x >= 0)
            return (-math.pi, math.pi)
        if nm == 'sqrt' and len(t[2]) == 1 and frange(t[2][0], env, depth + 1, refine) is None: return (0.0, float('inf'))
        if nm in ('sin', 'cos') and len(t[2]) == 1: return (-1.0, 1.0)
        if nm in ('asin', 'atan') and len(t[2]) == 1: return (-math.pi / 2, math.pi / 2)
        if nm == 'acos' and len(t[2]) == 1: return (0.0, math.pi)
        args = [frange(x, env, depth + 1, refine) for x in t[2]]
        if any(x is None for x in args): return None
        if nm == 'sqrt' and len(args) == 1 and args[0][1] >= 0: return (math.sqrt(max(args[0][0], 0.0)), math.sqrt(args[0][1]))
        if nm == 'abs':
            lo, hi = args[0]
            if lo >= 0: return (lo, hi)
            if hi <= 0: return (-hi, -lo)
            return (0.0, max(-lo, hi))
        if nm == 'min' and len(args) == 2: return (min(args[0][0], args[1][0]), min(args[0][1], args[1][1]))
        if nm == 'max' and len(args) == 2: return (max(args[0][0], args[1][0]), max(args[0][1], args[1][1]))
        return None
    if k == 'op' and t[2] == 'f64':
        a, b = frange(t[3], env, depth + 1, refine), frange(t[4], env, depth + 1, refine)
        if a is None or b is None: return None
        op = t[1]
        if op == 'add': return (a[0] + b[0], a[1] + b[1])
        if op == 'sub': return (a[0] - b[1], a[1] - b[0])
        if op == 'mul':
            ps = [x * y for x in a for y in b if not (math.isinf(x) and y == 0) and not (math.isinf(y) and x == 0)]
            return (min(ps), max(ps)) if ps else None
        if op == 'rem' and b[0] == b[1] and b[0] > 0:
            c = b[0]
            if a[0] >= 0: return (0.0, c) if a[1] >= c else a
            if a[1] <= 0: return (-c, 0.0) if a[0] <= -c else a
            return (-c, c)
        if op == 'div' and b[0] == b[1] and b[0] != 0:
            xs = [a[0] / b[0], a[1] / b[0]]; return (min(xs), max(xs))
    return None
