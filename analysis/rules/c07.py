"""C07 — BMOC operators as set algebra on plain MOCs: NECESSARY conditions decided on the code.
 N canonical form: `or` and `xor` return through pack; `and`/`not` need none (DESIGN appendix A);
 N full/full rules: the site table of C08 restricted to L.full = R.full = 1 (and -> full,
   or -> full, xor -> nothing emitted for equal cells, delegation for containment);
 N merge skeleton: every cycle of the main loop and of the drain loops advances a cursor
   (must-fact at every back edge), so no region can stall.
NOT decided: equality with the set operation for all pairs of trees."""
from sym import Engine, show
from rules.bmocops import OpSummary, M, plain
from rules.c08 import operator_table, fill_helpers


def progress(ctx, s):
    clause = "merge-skeleton"
    bad = [(a, b) for a, b, facts in s.back_edges if ('advanced',) not in facts]
    ctx.report(clause, "%s:every-loop-cycle-advances-a-cursor" % s.op, bool(s.back_edges) and not bad,
               "%d back edges; on each, a cursor advance (next / consume_while_* / not_in_cell_4_*) lies on every path of the cycle" % len(s.back_edges) if not bad else "cycles that can repeat without advancing either cursor: back edges %s" % bad,
               at=s.body.span, kind="N", sample={"operator": s.op, "back_edges": len(s.back_edges)})


def finaliser(ctx, crate, s, want):
    clause = "canonical-form"
    fins = {M + "BMOCBuilderUnsafe::to_bmoc": "to_bmoc", M + "BMOCBuilderUnsafe::to_bmoc_packing": "to_bmoc_packing"}
    prod = {ev.ret: fins[ev.callee] for ev in s.e.events.values() if ev.callee in fins}
    rets = s.e.phi_ops.get(s.r.ret, {s.r.ret}) if s.r.returns else set()
    got = sorted({prod.get(x, "?") for x in rets})
    ctx.report(clause, "%s:returns-through-%s" % (s.op, want), got == [want], "result built by %s" % got, at=s.body.span, kind="N")
    # and it is built once, after the merge: a second finaliser call is an early exit that answers
    # without walking the two operands (a "quick rejection" decided on raw values, first / last entries,
    # sizes ... — none of which says what the cells of two BMOCs have in common)
    nf = [ev for ev in s.e.events.values() if ev.callee in fins and len(ev.site) == 2]
    ctx.report(clause, "%s:single-exit-after-the-merge" % s.op, len(nf) == 1, "one finaliser call" if len(nf) == 1 else
               "%d finaliser calls in %s (%s): the operator can return before the merge loops have looked at the operands" % (len(nf), s.op, [ev.at for ev in nf]), at=s.body.span, kind="N")


def run(ctx):
    crate = ctx.crate("rel")
    for op, want in (("and", "to_bmoc"), ("or", "to_bmoc_packing"), ("xor", "to_bmoc_packing")):
        s = operator_table(ctx, crate, op, clause="full/full-rules", only_full=True)
        if s is None: continue
        progress(ctx, s)
        finaliser(ctx, crate, s, want)
    fill_helpers(ctx, crate)
    from rules.c08 import containment_test
    containment_test(ctx, crate)
    from rules.c08 import consume_tests
    consume_tests(ctx, crate)
    from rules.c08 import helper_loops_advance
    helper_loops_advance(ctx, crate)
    from rules import c07_goup
    c07_goup.run(ctx, crate)
    from rules.c15 import pack_rule
    pack_rule(ctx, crate)
    # not: returns to_bmoc; loop over entries advances by construction (for i in 1..len)
    ctx.not_decided("that the merges compute the set operation for all pairs of trees (tree shapes; no abstract domain in reach); that pack reaches a fixpoint")
    ctx.assume("DESIGN.md appendix A: `and` and `not` of packed inputs are packed (paper argument)")
    from rules import controls as _controls
    _controls.feval_controls(ctx)
