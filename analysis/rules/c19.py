"""C19 — bilinear interpolation (E6 polynomial identities per arm, for all (dx, dy)).

Arms = (outcome of dx > 0.5) x (outcome of dy > 0.5) x (diagonal neighbour present / absent).
For each arm the returned array [(cell, weight); 4] is extracted symbolically (the cell number,
dx and dy of `hash_with_dxdy` and the neighbour map stay opaque), then:
  D  sum of weights == 1 as a polynomial;   D each weight >= 0 on the arm's box;
  D  the cell of the position occurs, and its weight is 1 at (1/2, 1/2);
  D  present arms: sum w*(di + 1/2) == dx and sum w*(dj + 1/2) == dy with (di, dj) the offsets
     of each entry's direction (the four cells are the right ones in the right slots);
  D  absent arms: the slot of the missing neighbour is (h, 0.0)."""
from fractions import Fraction
from sym import Engine, show, walk
from poly import Poly, to_poly, interval_eval
from rules.common import strip_generics

FN = "nested::Layer::bilinear_interpolation"
HWD = "nested::Layer::hash_with_dxdy"
NEI = "nested::Layer::neighbours"
GET = "compass_point::MainWindMap::get"
OFFS = {"S": (-1, -1), "SE": (0, -1), "E": (1, -1), "SW": (-1, 0), "C": (0, 0), "NE": (1, 0), "W": (-1, 1), "NW": (0, 1), "N": (1, 1)}
DIAG = {0: "S", 1: "E", 2: "W", 3: "N"}


def direction_offsets(ctx, crate):
    """offsets of each MainWind from the crate's own tables (offset_se = di, offset_sw = dj)"""
    from sym import C
    names = crate.variant_names("compass_point::MainWind")
    out = {}
    for vi, n in enumerate(names):
        v = ('agg', 'adt:compass_point::MainWind', vi, ())
        vals = []
        for m in ("offset_se", "offset_sw"):
            e = Engine(crate); r = e.run("compass_point::MainWind::" + m, [('ref_t', ('tmp', 'dir'))], )
            # by-ref self: give the value through the heap
            e = Engine(crate)
            from sym import State
            b = crate.body("compass_point::MainWind::" + m)
            st = State(); st.heap[('tmp', 'dir')] = v
            arg = ('ref_t', ('tmp', 'dir')) if b.local_ty(1)["k"] == "ref" else v
            rr = e.run_body(b, [arg], st, fk=((b.path, -1),), stack=(b.path,))
            vals.append(rr.ret[2] if rr.returns and rr.ret[0] == 'c' else None)
        out[n] = tuple(vals)
    return out


def run(ctx):
    crate = ctx.crate("rel")
    b = ctx.anchor(crate, FN, "arms")
    if b is None: return
    offs = direction_offsets(ctx, crate)
    ok_off = all(offs.get(n) == OFFS[n] for n in OFFS)
    ctx.report("direction-offsets", "MainWind:offset_se/offset_sw", ok_off, "offsets from the crate: %s" % offs, kind="D")
    getname = [p for p in crate.bodies if strip_generics(p) == GET]
    eng = Engine(crate, opaque={HWD, NEI} | set(getname))
    arms = []
    def vh(v, loc, facts):
        lhs = eng.cur_lhs
        if loc[0] == FN and lhs["l"] == 0 and not lhs["p"] and v[0] == 'agg' and v[1] == 'array':
            arms.append((v, facts, loc))
    eng.value_hook = vh
    eng.run(FN)
    ctx.functions |= eng.visited_fns
    evs = list(eng.events.values())
    hw = [e for e in evs if e.callee == HWD]
    if len(hw) != 1:
        ctx.undecided("arms", FN + ":hash_with_dxdy", "expected exactly one call to hash_with_dxdy, found %d" % len(hw), at=b.span); return
    res = hw[0].ret
    h, dx, dy = ('fld', res, 0), ('fld', res, 1), ('fld', res, 2)
    names = {dx: "dx", dy: "dy"}
    get_ev = {e.ret: e for e in evs if strip_generics(e.callee) == GET}
    unwrap_ev = {e.ret: e for e in evs if e.callee and strip_generics(e.callee).endswith("Option::unwrap")}
    mw = crate.variant_names("compass_point::MainWind")

    def dir_of_get(sym):
        e = get_ev.get(sym)
        if e is None: return None
        d = e.args[1]
        if d[0] == 'agg' and d[1] == 'adt:compass_point::MainWind': return mw[d[2]]
        return None

    def cell_dir(t):
        if t == h: return "C"
        if t[0] == 'deref':
            x = t[1]
            if x in unwrap_ev: return dir_of_get(unwrap_ev[x].args[0])
            if x[0] == 'fld' and x[1][0] == 'dc': return dir_of_get(x[1][1])
        return None

    ctx.floor("arms", len(arms), 8)
    seen = set()
    for v, facts, loc in arms:
        # identify the arm
        q = None; present = None; diag_dir = None
        for f in facts:
            if f[0] == 'eqc' and f[3]:
                t = f[1]
                if t[0] == 'discr' and t[1] in get_ev:
                    present = f[2] == 1; diag_dir = dir_of_get(t[1])
                elif any(x == dx or x == dy for x in walk(t)):
                    q = f[2]
        # quarter 3 may be the `otherwise` edge: all of 0,1,2 excluded
        if q is None:
            ex = {f[2] for f in facts if f[0] == 'eqc' and not f[3] and any(x == dx or x == dy for x in walk(f[1]))}
            rest = [k for k in range(4) if k not in ex]
            if len(rest) == 1: q = rest[0]
        key = "arm(q=%s,%s)" % (q, "present" if present else "absent")
        if q is None or present is None or key in seen:
            ctx.undecided("arms", FN + ":" + key + "@" + loc[2], "cannot identify the arm of the array built at %s" % loc[2], at=loc[2]); continue
        seen.add(key)
        entries = []
        for tup in v[3]:
            if tup[0] != 'agg' or len(tup[3]) != 2:
                entries = None; break
            entries.append((tup[3][0], tup[3][1]))
        if entries is None or len(entries) != 4:
            ctx.undecided("arms", FN + ":" + key + ":shape", "unexpected entry shape", at=loc[2]); continue
        polys = [to_poly(w, names) for _, w in entries]
        if any(p is None for p in polys):
            ctx.undecided("arms", FN + ":" + key + ":weights", "weight is not a polynomial of (dx, dy): %s" % [show(w) for _, w in entries], at=loc[2]); continue
        dirs = [cell_dir(c) for c, _ in entries]
        box = {"dx": (Fraction(1, 2), Fraction(1)) if q & 1 else (Fraction(0), Fraction(1, 2)),
               "dy": (Fraction(1, 2), Fraction(1)) if q & 2 else (Fraction(0), Fraction(1, 2))}
        sample = {"arm": key, "slots": [(d, repr(p)) for d, p in zip(dirs, polys)], "box": {k: [float(a), float(b2)] for k, (a, b2) in box.items()}}
        at = "%s (%s)" % (FN, loc[2])
        total = polys[0] + polys[1] + polys[2] + polys[3]
        ctx.report("partition-of-unity", FN + ":" + key + ":sum==1", total.is_const(1), "sum of the four weights = %r" % total, at=at, sample=sample)
        neg = []
        for (c, w), d in zip(entries, dirs):
            iv = interval_eval(w, names, box)
            if iv is None or iv[0] < 0: neg.append((d, show(w), iv))
        ctx.report("non-negative", FN + ":" + key + ":weights>=0", not neg, "weights with a negative lower bound on the arm's box: %s" % neg if neg else "all four weights >= 0 for dx in %s, dy in %s" % (box["dx"], box["dy"]), at=at)
        # the position's own cell is present; weight 1 at (1/2, 1/2)
        half = {"dx": Fraction(1, 2), "dy": Fraction(1, 2)}
        cw = [p.subst(half) for d, p in zip(dirs, polys) if d == "C"]
        ow = [p.subst(half) for d, p in zip(dirs, polys) if d != "C"]
        okc = bool(cw) and sum((x.d.get((), 0) for x in cw), Fraction(0)) == 1 and all(x.is_const(0) for x in ow)
        ctx.report("centre-weight", FN + ":" + key + ":w(C)=1@centre", okc, "slots %s; weights at (1/2,1/2): C=%s others=%s" % (dirs, cw, ow), at=at)
        if any(d is None for d in dirs):
            ctx.undecided("slots", FN + ":" + key + ":directions", "cannot attribute a direction to every entry: %s" % dirs, at=at); continue
        if present:
            exp_dirs = {0: {"S", "SE", "SW", "C"}, 1: {"SE", "E", "C", "NE"}, 2: {"SW", "C", "W", "NW"}, 3: {"C", "NE", "NW", "N"}}[q]
            sx = Poly(); sy = Poly()
            for d, p in zip(dirs, polys):
                di, dj = OFFS[d]
                sx = sx + p * Poly.const(Fraction(2 * di + 1, 2)); sy = sy + p * Poly.const(Fraction(2 * dj + 1, 2))
            okb = sx == Poly.var("dx") and sy == Poly.var("dy") and set(dirs) == exp_dirs and diag_dir == DIAG[q]
            ctx.report("barycentre", FN + ":" + key + ":barycentre", okb,
                       "Σ w·(Δi+½) = %r, Σ w·(Δj+½) = %r over cells %s" % (sx, sy, dirs), at=at)
        else:
            # the slot of the missing diagonal neighbour must be (h, 0.0)
            zero = [(d, p) for d, p in zip(dirs, polys) if p.is_const(0)]
            okm = len(zero) == 1 and zero[0][0] == "C" and diag_dir == DIAG[q] and dirs.count("C") == 2
            ctx.report("missing-corner", FN + ":" + key + ":missing-corner-weight-0", okm,
                       "missing %s neighbour: slots %s, zero-weight slots %s" % (diag_dir, dirs, [d for d, _ in zero]), at=at)
    # the arm selector itself: the boxes above are an assumption on the term the match switches on;
    # read that term at the corners of the closed unit square (offsets of exactly 1.0 are returned
    # on forced borders, C03) and on both sides of 1/2
    import math
    from rules.common import feval
    sel = {f[1] for _, facts, _ in arms for f in facts if f[0] == 'eqc' and f[1][0] != 'discr' and any(x == dx or x == dy for x in walk(f[1]))}
    if len(sel) != 1:
        ctx.undecided("arms", FN + ":selector", "expected one selector term over (dx, dy), found %s" % [show(x) for x in sel], at=b.span)
    else:
        st = next(iter(sel))
        pts = [0.0, 5e-324, 0.25, math.nextafter(0.5, 0.0), 0.5, math.nextafter(0.5, 1.0), 0.75, math.nextafter(1.0, 0.0), 1.0]
        bad = []
        for vx in pts:
            for vy in pts:
                got = feval(st, {dx: vx, dy: vy}, eng)
                okx = {0, 1} if vx == 0.5 else ({1} if vx > 0.5 else {0})
                oky = {0, 1} if vy == 0.5 else ({1} if vy > 0.5 else {0})
                if got is None or isinstance(got, bool) or got not in {2 * y + x for x in okx for y in oky}:
                    bad.append((vx, vy, got))
        ctx.report("arms", FN + ":selector-picks-the-quarter-of-(dx,dy)", not bad,
                   "the selector %s read at %d points of [0,1]² (corners, 1.0, both sides of 1/2) gives the quarter whose box the arm's weights were checked on" % (show(st)[:120], len(pts) ** 2) if not bad else
                   "the selector %s does not give the quarter of (dx, dy) at %s (dx, dy, value; None = not evaluable) — the weights of the arm taken there were checked on another box, or no arm is taken" % (show(st)[:160], bad[:4]), at=b.span)
    missing = [k for k in ["arm(q=%d,%s)" % (q, p) for q in range(4) for p in ("present", "absent")] if k not in seen]
    ctx.report("arms", FN + ":all-8-arms-extracted", not missing, "arms not found: %s" % missing, at=b.span)
    from rules.c03_vertices import hash_with_dxdy_wrap, decomposition_chain
    hash_with_dxdy_wrap(ctx, crate, clause="input")
    decomposition_chain(ctx, crate, which=("hash_with_dxdy",), clause="input")
    ctx.not_decided("that hash_with_dxdy returns the right (h, dx, dy) in the first place (C03, float numerics)")
    ctx.assume("dx, dy in [0, 1] (C03's undecided float clause) for the sign claims")
    ctx.extra["exhaustive"] = True
    from rules import scale
    scale.run(ctx, ctx.crate("rel"), list(range(30)))
    from rules import cancellation
    cancellation.check(ctx, ctx.crate("rel"), ['nested::bilinear_interpolation', 'nested::Layer::bilinear_interpolation'], floor=32)
    from rules import controls as _controls
    _controls.feval_controls(ctx)
