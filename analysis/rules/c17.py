"""C17 — projection / de-projection.  D domain guards of proj/unproj (E1); N multi-turn longitude
reduction of proj (E8 floor-linear forms: odd offset, remainder in [-1,1])."""
import math
from sym import Engine, show
from rules.common import check_float_domain_guard
from rules.c01 import reduction
from floorlin import FloorLinear

HALF_PI = math.pi / 2


def run(ctx):
    cfgs = ["rel"] if ctx.tier == "quick" else ["rel", "dbg"]
    for cfg in cfgs:
        crate = ctx.crate(cfg)
        check_float_domain_guard(ctx, crate, "proj", "lat", -HALF_PI, HALF_PI, "domain-guard", key="proj:lat[%s]" % cfg)
        check_float_domain_guard(ctx, crate, "unproj", "y", -2.0, 2.0, "domain-guard", key="unproj:y[%s]" % cfg)
    crate = ctx.crate("rel")
    fn = "pm1_offset_decompose"
    b = ctx.anchor(crate, fn, "longitude-reduction")
    if b is not None:
        e = Engine(crate); r = e.run(fn); ctx.functions |= e.visited_fns
        x = ('p', b.param_names()[0])
        fl = FloorLinear(x, 64.0, e.phi_ops)
        ret = r.ret
        if ret[0] == 'agg' and len(ret[3]) == 2:
            for idx, f in enumerate(ret[3]):
                v = fl.ev(f)
                if v is None:
                    ctx.undecided("longitude-reduction", "%s:field%d" % (fn, idx), "cannot evaluate %s" % show(f), at=b.span); continue
                lo, hi = fl.conc(v)
                if v.is_int:
                    ctx.report("longitude-reduction", fn + ":offset-in-0..7", lo >= 0 and hi <= 7, "offset = %r ⊆ [%s, %s]" % (v, lo, hi), at=b.span, kind="N",
                               sample={"fn": fn, "offset_form": repr(v), "range": [lo, hi]})
                else:
                    ctx.report("longitude-reduction", fn + ":pm1-in-[-1,1]", lo >= -1 and hi <= 1, "pm1 = %r ⊆ [%s, %s] for x in [0, 64]" % (v, lo, hi), at=b.span, kind="N",
                               sample={"fn": fn, "pm1_form": repr(v), "range": [lo, hi]})
        else:
            ctx.undecided("longitude-reduction", fn + ":shape", "unexpected return %s" % show(ret), at=b.span)
    from rules import c17_table
    c17_table.run(ctx, crate)
    ctx.not_decided("the projection formulae, inverse property, 1e-14 accuracy (float numerics); base_cell_from_proj_coo on points exactly on a diagonal / facet seam (float ties)")
    from rules import cancellation
    cancellation.check(ctx, ctx.crate("rel"), ['proj', 'unproj', 'base_cell_from_proj_coo'], floor=8)
    from rules import controls
    controls.guard_controls(ctx)
