"""C17 — projection / de-projection.  D domain guards of proj/unproj (E1); N multi-turn longitude
reduction of proj (E8 floor-linear forms: odd offset, remainder in [-1,1])."""
import math
from sym import Engine, show
from rules.common import check_float_domain_guard
from rules.c01 import reduction
from floorlin import FloorLinear

HALF_PI = math.pi / 2


def edge_clamp(ctx, crate):
    """N: the clamp applied to the longitude offset on the edges of the polar facets is two-sided
    and keeps the sign: read at nine points, the value left in `*lon` is clamp(x, -1, 1).  (A
    one-sided or sign-losing clamp sends a one-ulp overshoot on the west edge of a facet to its
    east edge: unproj(proj(p)) comes back 90 degrees away.)"""
    from sym import Engine, show
    from rules.common import feval, param
    clause = "edge-clamp"
    fn = "deal_with_numerical_approx_in_edges"
    b = ctx.anchor(crate, fn, clause)
    if b is None: return
    e = Engine(crate); r = e.run(fn); ctx.functions |= e.visited_fns
    names = b.param_names()
    place = ('deref', ('p', names[0]))
    out = r.state.heap.get(place) if r.returns else None
    if out is None:
        # by-value form: fn(x) -> x'
        out = r.ret if r.returns else None
        place = ('p', names[0])
    if out is None:
        ctx.undecided(clause, fn + ":shape", "no value left in *%s" % names[0], at=b.span); return
    bad = []
    for x in (-3.0, -1.5, -1.0000000000000002, -1.0, -0.25, 0.0, 0.75, 1.0, 1.0000000000000002, 2.0):
        v = feval(out, {place: x}, e)
        want = max(-1.0, min(1.0, x))
        if v is None:
            ctx.undecided(clause, fn + ":eval", "cannot read %s at %r" % (show(out)[:80], x), at=b.span); return
        if v != want: bad.append((x, v, want))
    ctx.report(clause, fn + ":two-sided", not bad, "the value left in *%s is clamp(x, -1, 1) at 10 points on both sides" % names[0] if not bad else
               "clamp(%r) = %r, expected %r: an overshoot on one edge of a polar facet is moved to the opposite edge" % bad[0], at=b.span, kind="N")


def run(ctx):
    cfgs = ["rel"] if ctx.tier == "quick" else ["rel", "dbg"]
    for cfg in cfgs:
        crate = ctx.crate(cfg)
        check_float_domain_guard(ctx, crate, "proj", "lat", -HALF_PI, HALF_PI, "domain-guard", key="proj:lat[%s]" % cfg)
        check_float_domain_guard(ctx, crate, "unproj", "y", -2.0, 2.0, "domain-guard", key="unproj:y[%s]" % cfg)
    crate = ctx.crate("rel")
    fn = "pm1_offset_decompose"
    b = ctx.anchor(crate, fn, "longitude-reduction")
    if b is not None:
        e = Engine(crate); r = e.run(fn); ctx.functions |= e.visited_fns
        x = ('p', b.param_names()[0])
        fl = FloorLinear(x, 64.0, e.phi_ops)
        ret = r.ret
        if ret[0] == 'agg' and len(ret[3]) == 2:
            for idx, f in enumerate(ret[3]):
                v = fl.ev(f)
                if v is None:
                    ctx.undecided("longitude-reduction", "%s:field%d" % (fn, idx), "cannot evaluate %s" % show(f), at=b.span); continue
                lo, hi = fl.conc(v)
                if v.is_int:
                    ctx.report("longitude-reduction", fn + ":offset-in-0..7", lo >= 0 and hi <= 7, "offset = %r ⊆ [%s, %s]" % (v, lo, hi), at=b.span, kind="N",
                               sample={"fn": fn, "offset_form": repr(v), "range": [lo, hi]})
                else:
                    ctx.report("longitude-reduction", fn + ":pm1-in-[-1,1]", lo >= -1 and hi <= 1, "pm1 = %r ⊆ [%s, %s] for x in [0, 64]" % (v, lo, hi), at=b.span, kind="N",
                               sample={"fn": fn, "pm1_form": repr(v), "range": [lo, hi]})
        else:
            ctx.undecided("longitude-reduction", fn + ":shape", "unexpected return %s" % show(ret), at=b.span)
    from rules import c17_table
    c17_table.run(ctx, crate)
    edge_clamp(ctx, crate)
    ctx.not_decided("the projection formulae, inverse property, 1e-14 accuracy (float numerics); base_cell_from_proj_coo on points exactly on a diagonal / facet seam (float ties)")
    from rules import cancellation
    cancellation.check(ctx, ctx.crate("rel"), ['proj', 'unproj', 'base_cell_from_proj_coo'], floor=8)
    from rules import controls
    controls.guard_controls(ctx)
