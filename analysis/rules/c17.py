"""C17 — projection / de-projection.  D domain guards of proj/unproj (E1); N multi-turn longitude
reduction of proj (E8 floor-linear forms: odd offset, remainder in [-1,1])."""
import math
from sym import Engine, show
from rules.common import check_float_domain_guard
from rules.c01 import reduction
from floorlin import FloorLinear

HALF_PI = math.pi / 2


def edge_clamp(ctx, crate):
    """N: the clamp applied to the longitude offset on the edges of the polar facets is two-sided
    and keeps the sign: read at nine points, the value left in `*lon` is clamp(x, -1, 1).  (A
    one-sided or sign-losing clamp sends a one-ulp overshoot on the west edge of a facet to its
    east edge: unproj(proj(p)) comes back 90 degrees away.)"""
    from sym import Engine, show
    from rules.common import feval, param
    clause = "edge-clamp"
    fn = "deal_with_numerical_approx_in_edges"
    b = ctx.anchor(crate, fn, clause)
    if b is None: return
    e = Engine(crate); r = e.run(fn); ctx.functions |= e.visited_fns
    names = b.param_names()
    place = ('deref', ('p', names[0]))
    out = r.state.heap.get(place) if r.returns else None
    if out is None:
        # by-value form: fn(x) -> x'
        out = r.ret if r.returns else None
        place = ('p', names[0])
    if out is None:
        ctx.undecided(clause, fn + ":shape", "no value left in *%s" % names[0], at=b.span); return
    bad = []
    for x in (-3.0, -1.5, -1.0000000000000002, -1.0, -0.25, 0.0, 0.75, 1.0, 1.0000000000000002, 2.0):
        v = feval(out, {place: x}, e)
        want = max(-1.0, min(1.0, x))
        if v is None:
            ctx.undecided(clause, fn + ":eval", "cannot read %s at %r" % (show(out)[:80], x), at=b.span); return
        if v != want: bad.append((x, v, want))
    ctx.report(clause, fn + ":two-sided", not bad, "the value left in *%s is clamp(x, -1, 1) at 10 points on both sides" % names[0] if not bad else
               "clamp(%r) = %r, expected %r: an overshoot on one edge of a polar facet is moved to the opposite edge" % bad[0], at=b.span, kind="N")


def switch_continuity(ctx, crate):
    """N: where (un)proj switches between the cylindrical and the Collignon formulae the two must
    agree, or positions next to the transition latitude do not come back within 1e-14: the switch
    threshold is located on the extracted region test (bisection on the term, whatever its form),
    both branch formulae are read there at five longitude offsets, and must agree within 1e-14
    (the two formulae meet at |y| = 1, |z| = 2/3 only).  The plane threshold must also be the
    image of the sphere threshold."""
    import math
    from rules.common import feval, param
    clause = "region-switch"
    TOL = 1e-14
    thr = {}
    for test, fa, fb, lo, hi in (("is_in_equatorial_region", "proj_cea", "proj_collignon", 0.1, 1.5),
                                 ("is_in_projected_equatorial_region", "deproj_cea", "deproj_collignon", 0.1, 1.9)):
        bt = ctx.anchor(crate, test, clause)
        if bt is None: continue
        key = "%s:%s==%s-at-the-switch" % (test, fa, fb)
        e = Engine(crate); r = e.run(test); ctx.functions |= e.visited_fns
        pn = bt.param_names()
        f = lambda v: feval(r.ret, {param(pn[0]): v}, e) if r.returns and len(pn) == 1 else None
        a, b = lo, hi
        if f(a) is not True or f(b) is not False:
            ctx.undecided(clause, key, "the region test %s is not true at %r and false at %r" % (show(r.ret)[:80] if r.returns else "?", lo, hi), at=bt.span); continue
        while math.nextafter(a, b) < b:
            m = (a + b) / 2
            v = f(m)
            if v is None: break
            if v: a = m
            else: b = m
        T = a                                 # the largest value on the cylindrical side
        thr[test] = T
        vals = {}
        okx = True
        for fn in (fa, fb):
            bb = ctx.anchor(crate, fn, clause)
            if bb is None: okx = False; break
            e2 = Engine(crate); r2 = e2.run(fn); ctx.functions |= e2.visited_fns
            q = bb.param_names()[0]
            places = [('fld', ('deref', ('p', q)), 0), ('fld', ('deref', ('p', q)), 1)]
            outs = [r2.state.heap.get(pl, pl) for pl in places] if r2.returns else None
            if outs is None: okx = False; break
            vals[fn] = []
            for x0 in (-1.0, -0.6, 0.0, 0.35, 1.0):
                env = {places[0]: x0, places[1]: T}
                got = [feval(o, env, e2) for o in outs]
                if any(g is None for g in got):
                    ctx.undecided(clause, key, "cannot read %s at (%r, %r): %s" % (fn, x0, T, [show(o)[:60] for o in outs]), at=bb.span); okx = False; break
                vals[fn].append((x0, got))
            if not okx: break
        if not okx: continue
        bad = [(x0, va, vb) for (x0, va), (_, vb) in zip(vals[fa], vals[fb]) if abs(va[0] - vb[0]) > TOL or abs(va[1] - vb[1]) > TOL]
        ctx.report(clause, key, not bad,
                   "switch at %r: %s and %s agree within %g at 5 longitude offsets" % (T, fa, fb, TOL) if not bad else
                   "switch at %r: at longitude offset %r %s gives %r and %s gives %r — positions between the two formulae's meeting point and the threshold do not come back" % (T, bad[0][0], fa, bad[0][1], fb, bad[0][2]),
                   at=bt.span, kind="N", sample={"threshold": T, "values": {k: [list(map(float, g)) for _, g in v] for k, v in vals.items()}})
    if len(thr) == 2:
        Tl, Ty = thr["is_in_equatorial_region"], thr["is_in_projected_equatorial_region"]
        img = 1.5 * math.sin(Tl)
        ctx.report(clause, "unproj-threshold==image-of-proj-threshold", abs(img - Ty) <= TOL,
                   "plane threshold %r, image of the sphere threshold %r: %r" % (Ty, Tl, img), kind="N")


def wrap_x(ctx, crate):
    """N: `ensures_x_is_positive` brings x of [-8, 0) back into [0, 8) by adding 8 and leaves the rest
    alone (read at 8 points); every route that decomposes a projected position relies on it."""
    from rules.common import feval, param
    fn = "ensures_x_is_positive"
    b = ctx.anchor(crate, fn, "wrap-x")
    if b is None: return
    e = Engine(crate); r = e.run(fn); ctx.functions |= e.visited_fns
    pn = b.param_names()
    bad = []
    for x in (-8.0, -7.5, -2.0, -1e-16, 0.0, 1e-300, 3.25, 7.999):
        v = feval(r.ret, {param(pn[0]): x}, e) if r.returns else None
        want = x + 8.0 if x < 0.0 else x
        if v is None or v != want: bad.append((x, v, want))
    ctx.report("wrap-x", fn + ":x+8-iff-negative", not bad, "x + 8 for x < 0, x otherwise, at 8 points" if not bad else "ensures_x_is_positive(%r) = %r, expected %r" % bad[0], at=b.span, kind="N")


def collignon_table(ctx, crate):
    """N: `proj_collignon` computes sigma = sqrt(6) cos(lat / 2 + pi / 4) and returns (x sigma, 2 - sigma),
    read at 9 latitudes of the cap down to 1e-15 rad from the pole; `proj_cea` returns (x, 1.5 sin lat).
    A threshold that snaps positions next to a pole onto it moves them by more than the 1e-14 rad the
    round trip is allowed."""
    import math
    from rules.common import feval, param
    clause = "projection-formulae"
    for fn, f_ in (("proj_collignon", lambda x, b_: (x * (math.sqrt(6.0) * math.cos(0.5 * b_ + math.pi / 4)), 2.0 - math.sqrt(6.0) * math.cos(0.5 * b_ + math.pi / 4))),
                   ("proj_cea", lambda x, b_: (x, 1.5 * math.sin(b_)))):
        b = ctx.anchor(crate, fn, clause)
        if b is None: continue
        e = Engine(crate); r = e.run(fn); ctx.functions |= e.visited_fns
        q = b.param_names()[0]
        places = [('fld', ('deref', ('p', q)), 0), ('fld', ('deref', ('p', q)), 1)]
        if not r.returns:
            ctx.undecided(clause, fn + ":formula", "no value", at=b.span); continue
        outs = [r.state.heap.get(pl, pl) for pl in places]
        lats = [0.74, 1.0, 1.4, math.pi / 2 - 1e-6, math.pi / 2 - 1e-10, math.pi / 2 - 1e-12, math.pi / 2 - 3e-14, math.pi / 2 - 4e-15, math.pi / 2] if fn == "proj_collignon" else [0.0, 0.2, 0.5, 0.7297]
        bad = []
        for b_ in lats:
            for x0 in (-1.0, 0.4, 1.0):
                env = {places[0]: x0, places[1]: b_}
                got = [feval(o, env, e) for o in outs]
                want = f_(x0, b_)
                if any(g is None for g in got) or abs(got[0] - want[0]) > 2e-15 or abs(got[1] - want[1]) > 2e-15: bad.append(((x0, b_), got, want))
        ctx.report(clause, fn + ":formula", not bad, "%d latitudes x 3 offsets" % len(lats) if not bad else "%s(x, lat) at %s gives %s, the projection is %s" % (fn, bad[0][0], bad[0][1], bad[0][2]), at=b.span, kind="N")


def pole_guard(ctx, crate):
    """N: in `deproj_collignon` the longitude offset is divided by t = sqrt(3(1 - |z|)) unless t is
    below a threshold.  Where the division is skipped the returned longitude is the centre of the
    quarter whatever the input: the error on the sphere is up to colat * pi/4 with
    t = sqrt(6) sin(colat / 2), i.e. 0.6413 * threshold.  The property's 1e-14 rad bounds the
    threshold by 1.55e-14; and the division must stay guarded against t = 0."""
    import math
    from sym import Engine, show, walk
    from mir import f64_from_bits
    clause = "pole-guard"
    fn = "deproj_collignon"
    b = ctx.anchor(crate, fn, clause)
    if b is None: return
    e = Engine(crate); r = e.run(fn); ctx.functions |= e.visited_fns
    # the guard: a comparison of a value with a positive constant that dominates the float division
    divs = []
    def vh(v, loc, facts):
        if v[0] == 'op' and v[1] == 'div' and v[2] == 'f64': divs.append((v, set(facts)))
    e2 = Engine(crate); e2.value_hook = vh; e2.run(fn)
    if not divs:
        ctx.undecided(clause, fn + ":division", "no float division found", at=b.span); return
    ok = True; why = ""; thr = None
    for v, facts in divs:
        den = v[4]
        g = [f for f in facts if f[0] == 'b' and f[1][0] == 'op' and f[1][1] in ('gt', 'ge', 'lt', 'le') and den in (f[1][3], f[1][4]) and any(x[0] == 'c' and x[1] == 'f64' for x in (f[1][3], f[1][4]))]
        if not g:
            ok = False; why = "the division by %s is not guarded by a comparison of the divisor with a constant" % show(den)[:40]; break
        f = g[0]; c = f[1][3] if f[1][4] == den else f[1][4]
        thr = f64_from_bits(c[2])
        # normalise to: den OP thr  with the fact's truth
        op = f[1][1] if f[1][3] == den else {'gt': 'lt', 'ge': 'le', 'lt': 'gt', 'le': 'ge'}[f[1][1]]
        holds = f[2]
        excludes_zero = (op == 'gt' and holds and thr >= 0.0) or (op == 'ge' and holds and thr > 0.0) or (op == 'le' and not holds and thr >= 0.0) or (op == 'lt' and not holds and thr > 0.0)
        if not excludes_zero:
            ok = False; why = "the guard %s (%s) does not exclude a zero divisor" % (show(f[1])[:60], holds); break
        err = thr * (math.pi / 4) / math.sqrt(1.5)
        if err > 1e-14:
            ok = False; why = "threshold %g: inside it unproj returns the centre of the quarter, up to %.3g rad from the position on the sphere (colat * pi/4 with t = sqrt(6) sin(colat/2)) — the property allows 1e-14" % (thr, err); break
        why = "division guarded by t > %g: skipped zone costs at most %.2g rad on the sphere" % (thr, err)
    ctx.report(clause, fn + ":threshold", ok, why, at=b.span, kind="N", sample={"threshold": thr})


def run(ctx):
    cfgs = ["rel"] if ctx.tier == "quick" else ["rel", "dbg"]
    for cfg in cfgs:
        crate = ctx.crate(cfg)
        check_float_domain_guard(ctx, crate, "proj", "lat", -HALF_PI, HALF_PI, "domain-guard", key="proj:lat[%s]" % cfg)
        check_float_domain_guard(ctx, crate, "unproj", "y", -2.0, 2.0, "domain-guard", key="unproj:y[%s]" % cfg)
    crate = ctx.crate("rel")
    fn = "pm1_offset_decompose"
    b = ctx.anchor(crate, fn, "longitude-reduction")
    if b is not None:
        e = Engine(crate); r = e.run(fn); ctx.functions |= e.visited_fns
        x = ('p', b.param_names()[0])
        fl = FloorLinear(x, 64.0, e.phi_ops)
        ret = r.ret
        if ret[0] == 'agg' and len(ret[3]) == 2:
            for idx, f in enumerate(ret[3]):
                v = fl.ev(f)
                if v is None:
                    ctx.undecided("longitude-reduction", "%s:field%d" % (fn, idx), "cannot evaluate %s" % show(f), at=b.span); continue
                lo, hi = fl.conc(v)
                if v.is_int:
                    ctx.report("longitude-reduction", fn + ":offset-in-0..7", lo >= 0 and hi <= 7, "offset = %r ⊆ [%s, %s]" % (v, lo, hi), at=b.span, kind="N",
                               sample={"fn": fn, "offset_form": repr(v), "range": [lo, hi]})
                else:
                    ctx.report("longitude-reduction", fn + ":pm1-in-[-1,1]", lo >= -1 and hi <= 1, "pm1 = %r ⊆ [%s, %s] for x in [0, 64]" % (v, lo, hi), at=b.span, kind="N",
                               sample={"fn": fn, "pm1_form": repr(v), "range": [lo, hi]})
        else:
            ctx.undecided("longitude-reduction", fn + ":shape", "unexpected return %s" % show(ret), at=b.span)
    from rules import c17_table
    c17_table.run(ctx, crate)
    c17_table.run(ctx, ctx.crate("dbg"), tag="[dbg]")      # the dev profile keeps the debug assertions: a key that trips one has no value
    edge_clamp(ctx, crate)
    pole_guard(ctx, crate)
    switch_continuity(ctx, crate)
    wrap_x(ctx, crate)
    collignon_table(ctx, crate)
    ctx.not_decided("the projection formulae, inverse property, 1e-14 accuracy (float numerics); base_cell_from_proj_coo on points exactly on a diagonal / facet seam (float ties)")
    from rules import cancellation
    cancellation.check(ctx, ctx.crate("rel"), ['proj', 'unproj', 'base_cell_from_proj_coo'], floor=8)
    from rules import controls
    controls.guard_controls(ctx)
    from rules import controls as _controls
    _controls.feval_controls(ctx)
