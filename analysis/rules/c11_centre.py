"""C11 — `ring::center_of_projected_cell` puts the centre of every cell where `ring::hash` looks for
it, for every nside (E6' + exact rational polynomials).

The hash side (c11_ringhash.py) fixes, for the cell t of quarter q in ring r, the box of the
projection-plane grid that stands for it; the centre of that box is

  north cap   (r < n)          x = 2q + (2t + n - r) / n          y = 1 + (n - 1 - r) / n
  equatorial  (r = n - 1 + k)  x = (2i + [k even]) / n            y = (n - k) / n
  south cap   (r' from the south pole)  x as in the north cap,    y = -(1 + (n - 1 - r') / n)

`center_of_projected_cell` recovers (r, q, t) from the cell number by integer divisions; with the
cell number written as first-index(ring) + q * cells-per-quarter + t (the layout decided in
c11_forms / c11_ringhash) those divisions are exact, and the returned pair is compared with the
model as a polynomial in (n, r, q, t, 1/n) — on both parities of k in the equatorial region, which
is where "one ring out of two is shifted by half a cell" lives.  The ring index of the caps comes
from `polar_cap_ring_index` (decided by E7); here it is the unknown r."""
from fractions import Fraction
from sym import Engine, show, C, walk
from poly import Poly
from mir import INT_TYS, f64_from_bits
import floorpoly

FN = "ring::center_of_projected_cell"
PCRI = "ring::polar_cap_ring_index"


class Hints:
    """exact integer divisions the rule may rely on: divisor polynomial -> (quotient, remainder)"""
    def __init__(self): self.h = []
    def add(self, divisor, quotient, remainder): self.h.append((divisor, quotient, remainder))


def iev(t, env, atoms, hints):
    """floorpoly.ev + exact divisions by a non-constant divisor declared in `hints`"""
    if t in env: return env[t]
    if t[0] == 'op' and t[1] in ('div', 'rem') and not (t[4][0] == 'c'):
        pa, pb = iev(t[3], env, atoms, hints), iev(t[4], env, atoms, hints)
        for d, q, r in hints.h:
            if pb == d and pa == d * q + r: return q if t[1] == 'div' else r
        if t not in atoms: atoms[t] = "@%d" % len(atoms)
        return Poly.var(atoms[t])
    if t[0] == 'op' and t[1] in ('add', 'sub', 'mul'):
        a, b = iev(t[3], env, atoms, hints), iev(t[4], env, atoms, hints)
        return a + b if t[1] == 'add' else (a - b if t[1] == 'sub' else a * b)
    if t[0] == 'cast' and t[1] == 'int_to_int': return iev(t[3], env, atoms, hints)
    if t[0] == 'op' and t[1] in ('shl', 'shr', 'bitand') :
        # constant shift / mask of a sub-term evaluated with hints
        a = iev(t[3], env, atoms, hints)
        if t[4][0] == 'c' and t[1] == 'shl': return a * Poly.const(2 ** t[4][2])
        if t[4][0] == 'c' and t[1] == 'shr': return floorpoly.fdiv(a, 2 ** t[4][2])
        if t[4][0] == 'c' and t[1] == 'bitand' and floorpoly._pow2(t[4][2] + 1): return a - Poly.const(t[4][2] + 1) * floorpoly.fdiv(a, t[4][2] + 1)
    return floorpoly.ev(t, env, atoms)


def fev(t, env, atoms, hints, nside):
    """float term -> Poly in the unknowns and `u` = 1/n; None if it is something else"""
    k = t[0]
    if k == 'c' and t[1] == 'f64': return Poly.const(Fraction(f64_from_bits(t[2])))
    if k == 'cast' and t[1] == 'int_to_float': return iev(t[3], env, atoms, hints)
    if k == 'un' and t[1] == 'neg':
        a = fev(t[3], env, atoms, hints, nside); return None if a is None else Poly.const(0) - a
    if k == 'op' and t[2] == 'f64':
        if t[1] == 'div':
            a = fev(t[3], env, atoms, hints, nside); b = fev(t[4], env, atoms, hints, nside)
            if a is None or b is None: return None
            if b == env[nside]: return a * Poly.var("u")
            if b.is_const() and b.d.get((), 0) != 0: return a * Poly.const(1 / b.d[()])
            return None
        a, b = fev(t[3], env, atoms, hints, nside), fev(t[4], env, atoms, hints, nside)
        if a is None or b is None: return None
        if t[1] == 'add': return a + b
        if t[1] == 'sub': return a - b
        if t[1] == 'mul': return a * b
    return None


def run(ctx, crate):
    clause = "centre-vs-hash"
    b = ctx.anchor(crate, FN, clause)
    if b is None: return
    opq = {PCRI, "ring::check_hash"}
    e0 = Engine(crate, opaque=opq); r0 = e0.run(FN); ctx.functions |= e0.visited_fns
    names = b.param_names()
    nside, hsh = ('p', names[0]), ('p', names[1])
    n, H = Poly.var("n"), Poly.var("H")
    two = Poly.const(2)
    # region tests: hash < 2n(n-1) (north), hash >= 2n(5n+1) (south), any orientation
    role = {}
    for t, loc in e0.branches:
        if loc[0] != FN or t[0] != 'op' or t[1] not in ('lt', 'ge', 'gt', 'le'): continue
        try:
            pa = floorpoly.ev(t[3], {nside: n, hsh: H}, {}); pb = floorpoly.ev(t[4], {nside: n, hsh: H}, {})
        except Exception:
            continue
        op = t[1]
        if op in ('gt', 'le'): pa, pb, op = pb, pa, {'gt': 'lt', 'le': 'ge'}[op]
        d = pa - pb
        if d == H - two * n * (n - Poly.const(1)): role["north"] = (t, op == 'lt')
        elif d == H - two * n * (Poly.const(5) * n + Poly.const(1)): role["south"] = (t, op == 'ge')
    if set(role) != {"north", "south"}:
        ctx.undecided(clause, FN + ":region-tests", "cannot identify hash < 2n(n-1) / hash >= 2n(5n+1) among the tests", at=b.span); return
    def forced(**kw):
        sub = {}
        for k, v in kw.items():
            t, pos = role[k]
            sub[t] = C('bool', 1 if v == pos else 0)
        e = Engine(crate, opaque=opq); e.subst = sub
        r = e.run(FN)
        return e, (r.ret if r.returns else None)
    u = Poly.var("u")
    one = Poly.const(1)
    results = []
    # ---- caps -----------------------------------------------------------------------------------
    for cap, kw in (("north", dict(north=True)), ("south", dict(north=False, south=True))):
        e, ret = forced(**kw)
        if ret is None or ret[0] != 'agg' or len(ret[3]) != 2:
            ctx.report(clause, "%s:%s" % (FN, cap), None, "no value in that region", at=b.span); continue
        pc = [ev for ev in e.events.values() if ev.callee == PCRI]
        if len(pc) != 1:
            ctx.report(clause, "%s:%s" % (FN, cap), None, "expected one call of polar_cap_ring_index, found %d" % len(pc), at=b.span); continue
        r, q, t = Poly.var("r"), Poly.var("q"), Poly.var("t")
        per_quarter = r + one
        idx = q * per_quarter + t
        if cap == "north": hpoly = two * r * (r + one) + idx
        else: hpoly = Poly.const(12) * n * n - two * (r + one) * (r + two) + idx
        env = {nside: n, hsh: hpoly, pc[0].ret: r}
        hints = Hints(); hints.add(per_quarter, q, t)
        # the argument handed to polar_cap_ring_index must be the cell number counted from the pole of the cap
        atoms = {}
        try:
            arg = iev(pc[0].args[0], env, atoms, hints)
        except Exception as ex:
            arg = None
        want_arg = hpoly if cap == "north" else Poly.const(12) * n * n - one - hpoly
        okarg = arg == want_arg
        px = fev(ret[3][0], env, atoms, hints, nside); py = fev(ret[3][1], env, atoms, hints, nside)
        wx = two * q + (two * t + n - r) * u
        wy = one + (n - one - r) * u
        if cap == "south": wy = Poly.const(0) - wy
        ok = okarg and px == wx and py == wy
        ctx.report(clause, "%s:%s-cap" % (FN, cap), ok,
                   "cell (ring r, quarter q, t): centre = (2q + (2t + n - r)/n, %s(1 + (n - 1 - r)/n)), ring index asked for the cell number counted from the pole" % ("-" if cap == "south" else "") if ok else
                   "centre of cell (r, q, t) is (%r, %r), the box of ring::hash is centred at (%r, %r)%s" % (px, py, wx, wy, "" if okarg else "; polar_cap_ring_index is asked for %r instead of %r" % (arg, want_arg)),
                   at=b.span, sample={"x": repr(px), "y": repr(py)})
    # ---- equatorial --------------------------------------------------------------------------------
    e, ret = forced(north=False, south=False)
    if ret is None or ret[0] != 'agg' or len(ret[3]) != 2:
        ctx.report(clause, FN + ":equatorial", None, "no value in that region", at=b.span); return
    bad = []
    for rho in (0, 1):                      # parity of k = ring - (n - 1)
      for sig in (0, 1):                    # parity of nside (a correct form does not depend on it; a wrong one may)
        nn = two * Poly.var("m") + Poly.const(sig)
        kk = two * Poly.var("k") + Poly.const(rho); i = Poly.var("i")
        hpoly = two * nn * (nn - one) + Poly.const(4) * nn * kk + i
        env = {nside: nn, hsh: hpoly}
        hints = Hints(); hints.add(Poly.const(4) * nn, kk, i)
        atoms = {}
        try:
            px = fev(ret[3][0], env, atoms, hints, nside); py = fev(ret[3][1], env, atoms, hints, nside)
        except floorpoly.NeedModulus:
            px = py = None
        wx = (two * i + Poly.const(1 - rho)) * u
        wy = (nn - kk) * u
        if px != wx or py != wy: bad.append((rho, sig, repr(px), repr(py), repr(wx), repr(wy)))
    ctx.report(clause, FN + ":equatorial", not bad,
               "cell i of ring n - 1 + k: centre = ((2i + [k even])/n, (n - k)/n) for both parities of k and of nside" if not bad else
               "for k %s and nside %s: centre = (%s, %s), the box of ring::hash is centred at (%s, %s) — the half-cell shift of alternate rings depends on the parity of the ring counted from the transition ring, not on nside" % ((("even" if bad[0][0] == 0 else "odd"), ("even" if bad[0][1] == 0 else "odd")) + tuple(bad[0][2:])),
               at=b.span, sample={"mismatches": [list(x) for x in bad]})
