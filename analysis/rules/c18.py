"""C18 — z-order interleaving and uniq numbers (proof level; engines E4 + E5 + E1).

For every `impl ZOrderCurve` compiled in the analysed configuration (default build, +bmi2 build,
and in the thorough tier the cfg(test) build that contains the XOR variants) the rule derives, for
ALL inputs of the implementation's width W, the GF(2) bit-vector of
   i02h(i), oj2h(j), ij2h(i, j), ij2i(h2ij(h)), ij2j(h2ij(h))
and compares it with the specification (bit k of i at 2k, bit k of j at 2k+1, and the inverse).
W is the largest depth for which get_zoc() selects the implementation (extracted per depth from
get_zoc itself), so "the implementation selected for depth d is exact on d-bit coordinates".
Uniq numbers: per depth 0..=29 (and per top nibble for the IVOA form, whose addition carries) the
composition from_uniq(to_uniq(d, h)) is evaluated symbolically in h and must be (d, h)."""
from sym import Engine, show, C, walk
from bits import Bits, sym_bits, spread_bits, fmt, ZERO, ONE, as_const, const_bits
from rules.common import run_fn, int_upper_facts, param, cmp_facts, cval

TRAIT = "nested::zordercurve::ZOrderCurve"
GET_ZOC = "nested::zordercurve::get_zoc"


def dispatcher(crate, imp):
    def disp(tr, m):
        if tr != TRAIT: return None
        return imp["methods"].get(m, "%s::%s" % (tr, m))
    return disp


def method_term(crate, imp, method, args):
    e = Engine(crate, unroll=64); e.trait_dispatch = dispatcher(crate, imp)
    path = e.trait_dispatch(TRAIT, method)
    if crate.body(path) is None: return None, e, path
    r = e.run(path, [('p', 'self')] + args)
    return (r.ret if r.returns else None), e, path


def dispatch_table(ctx, crate, cfg):
    """depth -> impl self type selected by get_zoc; also the > 29 guard"""
    clause = "dispatch"
    b = ctx.anchor(crate, GET_ZOC, clause)
    if b is None: return {}
    table = {}
    for d in range(30):
        e, r = run_fn(crate, GET_ZOC, [C('u8', d)])
        ctx.functions |= e.visited_fns
        if not r.returns or r.ret[0] != 'ref_t' or r.ret[1][0] != 'static':
            ctx.undecided(clause, "get_zoc:depth%d[%s]" % (d, cfg), "cannot extract the curve selected for depth %d: %s" % (d, show(r.ret) if r.returns else "panics"), at=b.span); continue
        st = crate.statics.get(r.ret[1][1])
        table[d] = st["ty"].get("path") if st else None
    e, r = run_fn(crate, GET_ZOC)
    ups = [(op, cval(n)) for op, n in int_upper_facts(r.facts, param("depth")) if cval(n) is not None]
    ok = any((op == "le" and n <= 29) or (op == "lt" and n <= 30) for op, n in ups)
    ctx.report(clause, "get_zoc:rejects>29[%s]" % cfg, ok, "at every normal return of get_zoc: depth %s" % ups, at=b.span)
    return table


def check_impl(ctx, crate, cfg, imp, W, selected_for):
    T = imp["self_ty"]
    tag = "%s[%s]" % (T.rsplit("::", 1)[-1], cfg)
    clause = "interleave"
    n_ok = 0
    def rep(name, ok, detail, sample=None, v=None):
        nonlocal n_ok
        if ok: n_ok += 1
        verdict = ok
        if not ok and (not isinstance(v, list) or any(x is None for x in v)):
            verdict = None        # the bit-vector could not be derived (e.g. a loop): not a refutation
            detail = "cannot derive the bit-vector (the implementation is outside the forms the GF(2) domain evaluates, e.g. a loop over the bytes): " + detail
        ctx.report(clause, "%s:%s" % (tag, name), verdict, detail, at=imp_span(crate, imp), sample=sample)
    pi, pj, ph = ('p', 'i'), ('p', 'j'), ('p', 'h')
    # i02h
    t, e, path = method_term(crate, imp, "i02h", [pi]); ctx.functions |= e.visited_fns
    bi = Bits(crate, {pi: sym_bits('i', 32, W)}, e.phi_ops)
    v = bi.ev(t) if t is not None else None
    spec = spread_bits(sym_bits('i', 32, W), 64, 0)
    rep("i02h", isinstance(v, list) and v == spec,
        "i02h(i) on %d-bit i: %s" % (W, "= spread(i) for all i" if v == spec else "derived %s, expected %s (%s)" % (fmt(v) if isinstance(v, list) else v, fmt(spec), bi.why_top[:2])),
        sample={"impl": T, "config": cfg, "method": "i02h", "W": W, "bits": fmt(v)[:200] if isinstance(v, list) else None}, v=v)
    # oj2h
    t, e, path = method_term(crate, imp, "oj2h", [pj]); ctx.functions |= e.visited_fns
    bj = Bits(crate, {pj: sym_bits('j', 32, W)}, e.phi_ops)
    v = bj.ev(t) if t is not None else None
    spec = spread_bits(sym_bits('j', 32, W), 64, 1)
    rep("oj2h", isinstance(v, list) and v == spec, "oj2h(j) on %d-bit j: %s" % (W, "= spread(j) << 1 for all j" if v == spec else "derived %s" % (fmt(v) if isinstance(v, list) else v)), v=v)
    # ij2h
    t, e, path = method_term(crate, imp, "ij2h", [pi, pj]); ctx.functions |= e.visited_fns
    bij = Bits(crate, {pi: sym_bits('i', 32, W), pj: sym_bits('j', 32, W)}, e.phi_ops)
    v = bij.ev(t) if t is not None else None
    si, sj = spread_bits(sym_bits('i', 32, W), 64, 0), spread_bits(sym_bits('j', 32, W), 64, 1)
    spec = [a if b == ZERO else b for a, b in zip(si, sj)]
    rep("ij2h", isinstance(v, list) and v == spec, "ij2h(i, j): %s" % ("bit k of i at 2k, bit k of j at 2k+1, for all (i, j) < 2^%d" % W if v == spec else "derived %s expected %s (%s)" % (fmt(v) if isinstance(v, list) else v, fmt(spec), bij.why_top[:2])),
        sample={"impl": T, "config": cfg, "method": "ij2h", "W": W, "bits": fmt(v)[:200] if isinstance(v, list) else None}, v=v)
    # h2ij then ij2i / ij2j
    th, eh, path = method_term(crate, imp, "h2ij", [ph]); ctx.functions |= eh.visited_fns
    hb = sym_bits('h', 64, 2 * W)
    for m, off in (("ij2i", 0), ("ij2j", 1)):
        if th is None:
            rep("%s∘h2ij" % m, False, "h2ij has no extractable return value"); continue
        t, e, path = method_term(crate, imp, m, [th]); ctx.functions |= e.visited_fns
        phis = dict(eh.phi_ops); phis.update(e.phi_ops)
        b = Bits(crate, {ph: hb}, phis)
        v = b.ev(t) if t is not None else None
        spec = [hb[2 * k + off] if k < W else ZERO for k in range(32)]
        rep("%s∘h2ij" % m, isinstance(v, list) and v == spec,
            "%s(h2ij(h)) on %d-bit h: %s" % (m, 2 * W, ("= %s bits of h for all h" % ("even" if off == 0 else "odd")) if v == spec else "derived %s expected %s (%s)" % (fmt(v) if isinstance(v, list) else v, fmt(spec), b.why_top[:2])),
            sample={"impl": T, "config": cfg, "method": m + "(h2ij(h))", "W": W, "bits": fmt(v)[:160] if isinstance(v, list) else None}, v=v)
    return n_ok


def imp_span(crate, imp):
    for m in imp["methods"].values():
        b = crate.body(m)
        if b: return b.span
    return None


def width_class(T):
    n = T.rsplit("::", 1)[-1]
    if n.startswith("Small"): return 8
    if n.startswith("Mediu"): return 16
    if n.startswith("Large"): return 32
    return 0


def check_tables(ctx, crate, cfg):
    """lookup tables as data: GF(2)-linear in the index"""
    b = Bits(crate)
    n = 0
    for p, s in sorted(crate.statics.items()):
        if s["ty"]["k"] == "array" and s["ty"]["elem"]["k"] == "int" and "zordercurve" in p:
            lin = b.table_linear(p)
            n += 1
            ctx.report("tables", "%s:linear[%s]" % (p, cfg), lin is not None, "table %s (%s entries) is %sa GF(2)-linear map of its index" % (p, len(crate.static_table(p)), "" if lin else "NOT "), at=s["span"])
    return n


def zoc_config(ctx, cfg, require_selected=True):
    crate = ctx.crate(cfg)
    table = dispatch_table(ctx, crate, cfg)
    check_tables(ctx, crate, cfg)
    impls = crate.impls_of(TRAIT)
    by_ty = {i["self_ty"]: i for i in impls}
    sel = {}
    for d, T in table.items():
        sel.setdefault(T, []).append(d)
    n_impl = 0
    for T, imp in sorted(by_ty.items()):
        ds = sel.get(T, [])
        if T.endswith("EmptyZOC"):
            # constant-zero curve: only legal for depth 0
            ok = ds == [0] or not ds
            ctx.report("dispatch", "EmptyZOC:only-depth0[%s]" % cfg, ok, "the constant-0 curve is selected for depths %s" % ds)
            for m in ("ij2h", "i02h", "h2ij", "ij2i", "ij2j"):
                t, e, path = method_term(crate, imp, m, [('p', 'a'), ('p', 'b')][:2 if m == "ij2h" else 1])
                ctx.functions |= e.visited_fns
                ctx.report("interleave", "EmptyZOC[%s]:%s" % (cfg, m), t is not None and t[0] == 'c' and t[2] == 0, "%s returns the constant %s" % (m, show(t) if t else None))
            continue
        W = max(ds) if ds else width_class(T)
        if W == 0:
            ctx.undecided("interleave", "%s[%s]:width" % (T, cfg), "implementation is neither selected by get_zoc nor of a known width class"); continue
        if ds and W > width_class(T) and width_class(T):
            pass
        n_impl += 1
        check_impl(ctx, crate, cfg, imp, W, ds)
        if ds:
            ctx.holds("dispatch", "%s:selected-for[%s]" % (T.rsplit("::", 1)[-1], cfg), "selected by get_zoc for depths %d..=%d; identities proved on %d-bit coordinates" % (min(ds), max(ds), W))
    # every depth has an implementation that was checked
    missing = [d for d in range(30) if table.get(d) not in by_ty]
    ctx.report("dispatch", "get_zoc:all-depths-covered[%s]" % cfg, not missing, "depths without a verified implementation: %s" % missing)
    return n_impl


def uniq(ctx, crate):
    clause = "uniq"
    fns = {n: ctx.anchor(crate, "nested::" + n, clause) for n in ("to_uniq", "from_uniq", "to_uniq_ivoa", "from_uniq_ivoa")}
    if any(v is None for v in fns.values()): return 0
    n = 0
    ph = ('p', 'hash')
    for d in range(30):
        # sentinel form: all h < 16*4^d
        e1, r1 = run_fn(crate, "nested::to_uniq", [C('u8', d), ph])
        e2, r2 = run_fn(crate, "nested::from_uniq", [r1.ret])
        ctx.functions |= e1.visited_fns | e2.visited_fns
        hb = sym_bits('h', 64, 2 * d + 4)
        b = Bits(crate, {ph: hb}, {**e1.phi_ops, **e2.phi_ops})
        ok = False; detail = ""
        if r2.returns and r2.ret[0] == 'agg':
            vd, vh = b.ev(r2.ret[3][0]), b.ev(r2.ret[3][1])
            ok = isinstance(vd, list) and as_const(vd) == d and vh == hb
            detail = "from_uniq(to_uniq(%d, h)) = (%s, %s)" % (d, as_const(vd) if isinstance(vd, list) else vd, "h" if vh == hb else (fmt(vh) if isinstance(vh, list) else vh))
        ctx.report(clause, "uniq:roundtrip:depth%d" % d, ok, detail + " for all h < 16*4^%d" % d, at=fns["from_uniq"].span,
                   sample={"depth": d, "form": "sentinel", "uniq_term": show(r1.ret)} if d in (0, 29) else None)
        n += 1
        # IVOA form: h = b*4^d + low, b in 0..12 (carry of the addition is constant per b)
        allok = True; bad = None
        for top in range(12):
            low = sym_bits('h', 64, 2 * d)
            hv = [low[k] if k < 2 * d else (ONE if (top >> (k - 2 * d)) & 1 and k - 2 * d < 4 else ZERO) for k in range(64)]
            e1, r1 = run_fn(crate, "nested::to_uniq_ivoa", [C('u8', d), ph])
            e2, r2 = run_fn(crate, "nested::from_uniq_ivoa", [r1.ret])
            b = Bits(crate, {ph: hv}, {**e1.phi_ops, **e2.phi_ops})
            if not (r2.returns and r2.ret[0] == 'agg'): allok = False; bad = (top, "no value"); break
            vd, vh = b.ev(r2.ret[3][0]), b.ev(r2.ret[3][1])
            if not (isinstance(vd, list) and as_const(vd) == d and vh == hv):
                allok = False; bad = (top, as_const(vd) if isinstance(vd, list) else vd, fmt(vh)[:120] if isinstance(vh, list) else vh, b.why_top[:2]); break
        ctx.functions |= e1.visited_fns | e2.visited_fns
        ctx.report(clause, "uniq_ivoa:roundtrip:depth%d" % d, allok,
                   "from_uniq_ivoa(to_uniq_ivoa(%d, h)) = (%d, h) for all h < 12*4^%d (12 base-cell classes, low bits symbolic)" % (d, d, d) if allok else "fails for base cell %s" % (bad,),
                   at=fns["from_uniq_ivoa"].span, sample={"depth": d, "form": "ivoa", "uniq_term": show(r1.ret)} if d in (0, 29) else None)
        n += 1
    # depth > 29 rejected
    for fn in ("nested::to_uniq", "nested::to_uniq_ivoa"):
        e, r = run_fn(crate, fn); ctx.functions |= e.visited_fns
        ups = [(op, cval(n2)) for op, n2 in int_upper_facts(r.facts, param("depth")) if cval(n2) is not None]
        ok = any((op == "le" and v <= 29) or (op == "lt" and v <= 30) for op, v in ups)
        ctx.report(clause, "%s:rejects-depth>29" % fn, ok, "at every normal return: depth %s" % ups, at=crate.body(fn).span)
        n += 1
    return n


def uniq_methods(ctx, crate):
    """Every other function of the crate that produces a uniq number (name contains `uniq`, takes a
    hash): its result, with the receiver's fields read from Layer::new(d), is bit-for-bit the free
    function's, for every depth and all hashes (same symbolic classes as the round trip)."""
    from rules.c03 import layer_constants
    clause = "uniq"
    free = {"nested::to_uniq": None, "nested::to_uniq_ivoa": None}
    cands = []
    for path in sorted(crate.bodies):
        last = path.rsplit("::", 1)[-1]
        if "uniq" not in last or "{" in path or path.startswith("nested::tests") or "::tests::" in path: continue
        if path in ("nested::to_uniq", "nested::to_uniq_ivoa", "nested::from_uniq", "nested::from_uniq_ivoa"): continue
        if last.endswith("_unsafe") and path.startswith("nested::"): continue      # reached through the free functions above
        cands.append(path)
    consts = layer_constants(ctx, crate, clause="uniq-layer-constants") if any(p.startswith("nested::Layer::") for p in cands) else {}
    fields = [f["name"] for f in crate.adts["nested::Layer"]["variants"][0]["fields"]]
    n = 0
    for path in cands:
        b = crate.body(path)
        last = path.rsplit("::", 1)[-1]
        ref = "nested::to_uniq_ivoa" if "ivoa" in last else "nested::to_uniq"
        pn = b.param_names()
        if not (path.startswith("nested::Layer::") and last.startswith("to_uniq") and pn[:1] == ["self"] and "hash" in pn):
            ctx.undecided(clause, "%s:agrees-with-free-function" % path, "a function named like a uniq conversion that this rule does not know how to compare (parameters %s)" % pn, at=b.span); continue
        bad = None
        for d in range(30):
            if d not in consts: bad = (d, "no Layer::new constants"); break
            sub = {('fld', ('deref', ('p', 'self')), i): consts[d][f] for i, f in enumerate(fields) if consts[d][f][0] == 'c'}
            e1 = Engine(crate); e1.subst = sub
            r1 = e1.run(path, [('p', 'self'), ('p', 'hash')])
            e2, r2 = run_fn(crate, ref, [C('u8', d), ('p', 'hash')])
            ctx.functions |= e1.visited_fns | e2.visited_fns
            if not (r1.returns and r2.returns): bad = (d, "no value"); break
            tops = range(12) if "ivoa" in last else [None]
            for top in tops:
                if top is None: hv = sym_bits('h', 64, 2 * d + 4)
                else:
                    low = sym_bits('h', 64, 2 * d)
                    hv = [low[k] if k < 2 * d else (ONE if (top >> (k - 2 * d)) & 1 and k - 2 * d < 4 else ZERO) for k in range(64)]
                bb = Bits(crate, {('p', 'hash'): hv}, {**e1.phi_ops, **e2.phi_ops})
                v1, v2 = bb.ev(r1.ret), bb.ev(r2.ret)
                if not (isinstance(v1, list) and v1 == v2):
                    bad = (d, "base cell %s: %s vs %s" % (top, fmt(v1)[:80] if isinstance(v1, list) else v1, fmt(v2)[:80] if isinstance(v2, list) else v2)); break
            if bad: break
        ctx.report(clause, "%s:agrees-with-free-function" % path, bad is None,
                   "with the receiver's fields of Layer::new(d), %s(hash) = %s(d, hash) bit for bit, d = 0..=29, all hashes" % (path, ref) if bad is None else
                   "%s differs from %s at depth %s: %s" % (path, ref, bad[0], bad[1]), at=b.span)
        n += 1
    return n


def run(ctx):
    n = zoc_config(ctx, "rel")
    n2 = zoc_config(ctx, "bmi2")
    ctx.floor("zoc-impls[rel]", n, 4)
    ctx.floor("zoc-impls[bmi2]", n2, 7)
    if ctx.tier == "thorough":
        n3 = zoc_config(ctx, "test")
        ctx.floor("zoc-impls[test]", n3, 6)
    nu = uniq(ctx, ctx.crate("rel"))
    ctx.floor("uniq-obligations", nu, 62)
    ctx.floor("uniq-methods", uniq_methods(ctx, ctx.crate("rel")), 2)
    ctx.assume("x86-64 little-endian target for transmute between integers and byte arrays (asserted from the target data layout)")
    ctx.assume("semantics of _pdep/_pext as bit scatter/gather under a constant mask (Intel SDM)")
    ctx.extra["exhaustive"] = True
    from rules import controls
    controls.bits_controls(ctx)
