"""C11 — RING scheme for any nside.  D out-of-range cell numbers / latitudes / offsets rejected
(E1); N exact integer square root in center_of_projected_cell (E7); N closed forms of the ring
layout helpers (polynomial identities in nside, E6)."""
import math
from sym import Engine, show
from rules.common import check_hash_range_guard, check_float_domain_guard, float_interval, param, run_fn
from rules import e7

HALF_PI = math.pi / 2


def ring_offsets(ctx, crate):
    """N: the point of in-cell offsets (dx, dy) of a RING cell is centre + ((dx - dy), (dx + dy - 1)) / nside
    in the projection plane (the same affine map as the NESTED `sph_coo`, C03), read at sample
    points on the extracted arguments of `unproj`; and the constant offsets `hash_with_dldh` returns
    on its early exits (the north pole) are offsets, i.e. in [0, 1]."""
    from sym import Engine
    from rules.common import feval
    from mir import f64_from_bits
    clause = "offset-map"
    fn = "ring::sph_coo"; cpc = "ring::center_of_projected_cell"
    b = ctx.anchor(crate, fn, clause)
    if b is not None:
        e = Engine(crate, opaque={cpc, "unproj", "ensures_x_is_positive"}); e.run(fn); ctx.functions |= e.visited_fns
        cen = [ev for ev in e.events.values() if ev.callee == cpc]; un = [ev for ev in e.events.values() if ev.callee == "unproj"]
        ens = {ev.ret: ev for ev in e.events.values() if ev.callee == "ensures_x_is_positive"}
        if len(cen) != 1 or len(un) != 1:
            ctx.undecided(clause, fn + ":affine-map", "expected one centre and one unproj call", at=b.span)
        else:
            X = un[0].args[0]; Y = un[0].args[1]
            if X in ens: X = ens[X].args[0]
            bad = []
            for cx, cy, dx, dy, n in ((1.0, 0.5, 0.25, 0.75, 4), (3.5, -1.25, 0.0, 0.0, 1), (0.125, 0.0, 0.5, 0.5, 3), (7.0, 1.5, 0.875, 0.125, 1024), (2.0, 0.25, 0.75, 0.5, 2)):
                env = {('fld', cen[0].ret, 0): cx, ('fld', cen[0].ret, 1): cy, param("dx"): dx, param("dy"): dy, param("nside"): n}
                gx, gy = feval(X, env, e), feval(Y, env, e)
                wx, wy = cx + (dx - dy) / n, cy + (dx + dy - 1.0) / n
                if gx is None or gy is None or abs(gx - wx) > 1e-14 or abs(gy - wy) > 1e-14: bad.append(((cx, cy, dx, dy, n), (gx, gy), (wx, wy)))
            ctx.report(clause, fn + ":affine-map", not bad, "unproj receives centre + ((dx - dy), (dx + dy - 1)) / nside at 5 sample points" if not bad else
                       "at (cx, cy, dx, dy, nside) = %s unproj receives %s, the offset map gives %s" % bad[0], at=b.span, kind="N")
    # ring::vertices: [S, E, N, W] = unproj(centre + (0,-1), (1,0), (0,1), (-1,0) / nside), W wrapped
    fnv = "ring::vertices"
    bv = ctx.anchor(crate, fnv, clause)
    if bv is not None:
        e = Engine(crate, opaque={cpc, "unproj", "ensures_x_is_positive"}); r = e.run(fnv); ctx.functions |= e.visited_fns
        cen = [ev for ev in e.events.values() if ev.callee == cpc]; un = {ev.ret: ev for ev in e.events.values() if ev.callee == "unproj"}
        ens = {ev.ret: ev for ev in e.events.values() if ev.callee == "ensures_x_is_positive"}
        slots = list(r.ret[3]) if r.returns and r.ret[0] == 'agg' and len(r.ret[3]) == 4 else None
        if len(cen) != 1 or slots is None or any(sl not in un for sl in slots):
            ctx.undecided(clause, fnv + ":vertex-offsets", "expected an array of four unproj results around one centre", at=bv.span)
        else:
            bad = []; wrapped = True
            for (cx, cy, n) in ((1.0, 0.5, 4), (0.125, -1.5, 1), (7.75, 0.0, 1024), (3.0, 1.25, 3)):
                env = {('fld', cen[0].ret, 0): cx, ('fld', cen[0].ret, 1): cy, param("nside"): n}
                for k, (ox, oy) in enumerate(((0, -1), (1, 0), (0, 1), (-1, 0))):
                    X, Y = un[slots[k]].args
                    if k == 3 and X not in ens: wrapped = False
                    if X in ens: X = ens[X].args[0]
                    gx, gy = feval(X, env, e), feval(Y, env, e)
                    if gx is None or gy is None or abs(gx - (cx + ox / n)) > 1e-14 or abs(gy - (cy + oy / n)) > 1e-14: bad.append(("SENW"[k], (cx, cy, n), (gx, gy)))
            ctx.report(clause, fnv + ":vertex-offsets", not bad and wrapped, "slots S, E, N, W = centre + (0,-1), (1,0), (0,1), (-1,0) / nside at 4 sample centres; the W abscissa is wrapped into [0, 8)" if not bad and wrapped else
                       ("the W abscissa is not wrapped (x - 1/nside is negative for the first cells of a ring)" if not bad else "vertex %s of the cell centred at %s is taken at %s" % bad[0]), at=bv.span, kind="N")
    # ring::hash_with_dxdy returns (h, dx, dy) with (dx, dy) = dldh_to_dxdy(dl, dh) of the same call
    fnh = "ring::hash_with_dxdy"
    bh = ctx.anchor(crate, fnh, clause)
    if bh is not None:
        e = Engine(crate, opaque={"ring::hash_with_dldh", "ring::dldh_to_dxdy"}); r = e.run(fnh); ctx.functions |= e.visited_fns
        hd = [ev for ev in e.events.values() if ev.callee == "ring::hash_with_dldh"]; cv = [ev for ev in e.events.values() if ev.callee == "ring::dldh_to_dxdy"]
        okr = False; why = "expected one hash_with_dldh and one dldh_to_dxdy call"
        if len(hd) == 1 and len(cv) == 1 and r.returns:
            R, D = hd[0].ret, cv[0].ret
            okr = hd[0].args == [param("nside"), param("lon"), param("lat")] and cv[0].args == [('fld', R, 1), ('fld', R, 2)] and r.ret == ('agg', 'tuple', 0, (('fld', R, 0), ('fld', D, 0), ('fld', D, 1)))
            why = "returns (h, dx, dy) with (dx, dy) = dldh_to_dxdy(dl, dh)" if okr else "returns %s from hash_with_dldh%s, dldh_to_dxdy%s" % (show(r.ret)[:80], [show(a) for a in hd[0].args], [show(a) for a in cv[0].args])
        ctx.report(clause, fnh + ":returns-(h,dx,dy)", okr, why, at=bh.span, kind="N")
    fn2 = "ring::hash_with_dldh"
    b2 = crate.body(fn2)
    if b2 is not None:
        e = Engine(crate); rets = []
        def vh(v, loc, facts):
            lhs = e.cur_lhs
            if loc[0] == fn2 and lhs["l"] == 0 and not lhs["p"] and v[0] == 'agg' and len(v[3]) == 3: rets.append(v)
        e.value_hook = vh
        e.run(fn2); ctx.functions |= e.visited_fns
        # the half-box shift of the offsets (F15): (dl - 1/2, dh + 1/2) exactly when the facet step says "moved
        # from the box West of the base cell" (-1), in the north cap
        MOV = "ring::move_inside_polar_cap_facet"
        e3 = Engine(crate, opaque={MOV, "proj", "ensures_x_is_positive", "ring::deal_with_1x1_box"}); rets3 = []
        def vh3(v, loc, facts):
            lhs = e3.cur_lhs
            if loc[0] == fn2 and lhs["l"] == 0 and not lhs["p"] and v[0] == 'agg' and len(v[3]) == 3: rets3.append(v)
        e3.value_hook = vh3
        e3.run(fn2)
        mv = [ev.ret for ev in e3.events.values() if ev.callee == MOV and ev.ret is not None]
        half = lambda t: t[0] == 'c' and t[1] == 'f64' and f64_from_bits(t[2]) == 0.5
        found = {"sub": [], "add": []}
        for v in rets3:
            for slot, op in ((1, "sub"), (2, "add")):
                x = v[3][slot]
                g = e3.phi_gate.get(x) if x[0] == 'phi' else None
                if g is None: continue
                for tv, fv, pol in ((g[1], g[2], True), (g[2], g[1], False)):
                    if tv[0] == 'op' and tv[1] == op and tv[3] == fv and half(tv[4]):
                        truth = []
                        for m in mv:
                            vals = [feval(g[0], {m: k}, e3) for k in (-1, 0, 1)]
                            if None not in vals: truth.append([bool(b_) == pol for b_ in vals])
                        found[op].append(truth)
        oks = all(len(found[op]) == 1 and found[op][0] == [[True, False, False]] for op in ("sub", "add"))
        ctx.report(clause, fn2 + ":half-box-shift-iff-moved-from-the-west", oks,
                   "dl - 1/2 and dh + 1/2 are taken exactly when move_inside_polar_cap_facet returned -1 (read at -1, 0, 1)" if oks else
                   "the half-box shift of the offsets is not tied to the return value -1 of move_inside_polar_cap_facet: %s" % found, at=b2.span, kind="N")
        consts = [(i, f64_from_bits(v[3][i][2])) for v in rets for i in (1, 2) if v[3][i][0] == 'c' and v[3][i][1] == 'f64']
        badc = [c for c in consts if not (0.0 <= c[1] <= 1.0)]
        ctx.report(clause, fn2 + ":constant-offsets-in-[0,1]", bool(rets) and not badc, "%d returned tuples, constant offsets %s" % (len(rets), sorted(set(c[1] for c in consts))) if not badc else
                   "an early exit returns the constant %r as an in-cell offset" % badc[0][1], at=b2.span, kind="N")


def run(ctx):
    crate = ctx.crate("rel")
    e0, r0 = run_fn(crate, "ring::n_hash"); ctx.functions |= e0.visited_fns
    nh = r0.ret
    pred = lambda op, n: op == "lt" and n == nh
    k = 0
    for fn in ("ring::center", "ring::sph_coo", "ring::vertices", "ring::center_of_projected_cell"):
        if check_hash_range_guard(ctx, crate, fn, "hash", pred, "n_hash(nside) = " + show(nh), "hash-guard") is not None: k += 1
    ctx.floor("hash-guarded-ring-accessors", k, 4)
    for fn in ("ring::hash", "ring::hash_with_dxdy"):
        check_float_domain_guard(ctx, crate, fn, "lat", -HALF_PI, HALF_PI, "latitude-guard")
    fn = "ring::sph_coo"
    b = ctx.anchor(crate, fn, "offset-guard")
    if b is not None:
        e, r = run_fn(crate, fn); ctx.functions |= e.visited_fns
        for p in ("dx", "dy"):
            lo, los, hi, his = float_interval(r.facts, param(p))
            ok = lo >= 0.0 and (hi < 1.0 or (hi == 1.0 and his))
            ctx.report("offset-guard", "%s:%s" % (fn, p), ok, "%s ∈ [%r, %r%s at every normal return" % (p, lo, hi, ")" if his else "]"), at=b.span)
    ring_offsets(ctx, crate)
    n = e7.check_fn(ctx, crate, "ring::center_of_projected_cell", "exact-integer-sqrt")
    e7.isqrt_table(ctx, crate)
    ctx.floor("sqrt-chains-in-center_of_projected_cell", n, 1)
    try:
        from rules import c11_forms
        c11_forms.run(ctx, crate)
    except ImportError:
        pass
    from rules import c11_ringhash
    c11_ringhash.run(ctx, crate)
    from rules import c11_centre
    c11_centre.run(ctx, crate)
    ns = (1, 2, 3, 4) if ctx.tier == "quick" else (1, 2, 3, 4, 5, 6, 7)
    for cfg in ("rel", "dbg"):
        c11_ringhash.table(ctx, ctx.crate(cfg), cfg, ns)
    ctx.not_decided("ring hash lands in the containing cell; centre round trip; polar-cap index correction at lon = k*pi/2 (float tie-breaks)")
    from rules import cancellation
    cancellation.check(ctx, ctx.crate("rel"), ['ring::hash', 'ring::hash_with_dxdy', 'ring::center', 'ring::sph_coo', 'ring::vertices'], floor=17)
    from rules import controls
    controls.guard_controls(ctx)
    controls.isqrt_controls(ctx)
