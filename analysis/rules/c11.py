"""C11 — RING scheme for any nside.  D out-of-range cell numbers / latitudes / offsets rejected
(E1); N exact integer square root in center_of_projected_cell (E7); N closed forms of the ring
layout helpers (polynomial identities in nside, E6)."""
import math
from sym import Engine, show
from rules.common import check_hash_range_guard, check_float_domain_guard, float_interval, param, run_fn
from rules import e7

HALF_PI = math.pi / 2


def run(ctx):
    crate = ctx.crate("rel")
    e0, r0 = run_fn(crate, "ring::n_hash"); ctx.functions |= e0.visited_fns
    nh = r0.ret
    pred = lambda op, n: op == "lt" and n == nh
    k = 0
    for fn in ("ring::center", "ring::sph_coo", "ring::vertices", "ring::center_of_projected_cell"):
        if check_hash_range_guard(ctx, crate, fn, "hash", pred, "n_hash(nside) = " + show(nh), "hash-guard") is not None: k += 1
    ctx.floor("hash-guarded-ring-accessors", k, 4)
    for fn in ("ring::hash", "ring::hash_with_dxdy"):
        check_float_domain_guard(ctx, crate, fn, "lat", -HALF_PI, HALF_PI, "latitude-guard")
    fn = "ring::sph_coo"
    b = ctx.anchor(crate, fn, "offset-guard")
    if b is not None:
        e, r = run_fn(crate, fn); ctx.functions |= e.visited_fns
        for p in ("dx", "dy"):
            lo, los, hi, his = float_interval(r.facts, param(p))
            ok = lo >= 0.0 and (hi < 1.0 or (hi == 1.0 and his))
            ctx.report("offset-guard", "%s:%s" % (fn, p), ok, "%s ∈ [%r, %r%s at every normal return" % (p, lo, hi, ")" if his else "]"), at=b.span)
    n = e7.check_fn(ctx, crate, "ring::center_of_projected_cell", "exact-integer-sqrt")
    ctx.floor("sqrt-chains-in-center_of_projected_cell", n, 1)
    try:
        from rules import c11_forms
        c11_forms.run(ctx, crate)
    except ImportError:
        pass
    from rules import c11_ringhash
    c11_ringhash.run(ctx, crate)
    from rules import c11_centre
    c11_centre.run(ctx, crate)
    ns = (1, 2, 3, 4) if ctx.tier == "quick" else (1, 2, 3, 4, 5, 6, 7)
    for cfg in ("rel", "dbg"):
        c11_ringhash.table(ctx, ctx.crate(cfg), cfg, ns)
    ctx.not_decided("ring hash lands in the containing cell; centre round trip; polar-cap index correction at lon = k*pi/2 (float tie-breaks)")
    from rules import cancellation
    cancellation.check(ctx, ctx.crate("rel"), ['ring::hash', 'ring::hash_with_dxdy', 'ring::center', 'ring::sph_coo', 'ring::vertices'], floor=17)
    from rules import controls
    controls.guard_controls(ctx)
    controls.isqrt_controls(ctx)
