"""E7 — lossy integer -> f64 -> sqrt -> integer chains used as an exact integer square root.

A chain is accepted iff (a) the integer operand is bounded below 2^52 by interval analysis of its
term under the facts holding at the site (then the f64 conversion is exact and a correctly rounded
sqrt cannot cross an integer), or (b) the truncated result is *checked against the integer it was
derived from*: some integer comparison that controls a branch of the same analysis contains both a
value derived from the truncated result and a source leaf of the operand.  Otherwise the float
estimate is used as if it were exact: reported."""
from sym import Engine, walk, show, CMP, term_ty
from intervals import Intervals
from mir import INT_TYS

SQRT = ("std::f64::<impl f64>::sqrt", "core::f64::<impl f64>::sqrt")


def find_chain(t):
    """t = cast float_to_int(X): return the int_to_float operand Z under a sqrt inside X, or None"""
    if t[0] != 'cast' or t[1] != 'float_to_int': return None
    for x in walk(t[3]):
        if x[0] == 'call' and x[1] in SQRT:
            for y in walk(x[2][0]):
                if y[0] == 'cast' and y[1] == 'int_to_float':
                    return y[3]
    return None


def leaves(t):
    return {x for x in walk(t) if x[0] in ('p', 'phi', 'sym', 'fld')}


def derived_closure(eng, r):
    """phi symbols whose operands (transitively) contain r"""
    derived = set()
    changed = True
    while changed:
        changed = False
        for p, ops in eng.phi_ops.items():
            if p in derived: continue
            for o in ops:
                if any(x == r or x in derived for x in walk(o)):
                    derived.add(p); changed = True; break
    return derived


def check_fn(ctx, crate, fn, clause, tyof=None, expected_min=0):
    b = ctx.anchor(crate, fn, clause)
    if b is None: return 0
    eng = Engine(crate)
    sites = {}
    ret_edges = []     # (frame path, returned value, facts) on every edge into a Return block
    def eh(body, s_, t_, st, fk):
        if t_ != "return" and body.blocks[t_]["term"]["k"] == "return":
            ret_edges.append((body.path, fk, st.store.get((fk, 0)), st.facts))
        elif t_ == "return":
            ret_edges.append((body.path, fk, st.store.get((fk, 0)), st.facts))
    eng.edge_hook = eh
    def vh(v, loc, facts):
        z = find_chain(v)
        if z is not None:
            key = (loc[0], loc[2])
            prev = sites.get(key)
            sites[key] = (v, z, facts if prev is None else prev[2] & facts, loc)
    eng.value_hook = vh
    eng.run(fn)
    ctx.functions |= eng.visited_fns
    n = 0
    ptys = {}
    for path in eng.visited_fns:
        bb = crate.body(path)
        for i, nme in enumerate(bb.param_names()):
            t = bb.local_ty(i + 1)
            if t["k"] == "int": ptys[nme] = t["n"]
    def tyof_default(t):
        if t[0] == 'p': return ptys.get(t[1])
        return None
    occ = {}
    for (path, at), (v, z, facts, loc) in sorted(sites.items()):
        n += 1
        k = occ.get(path, 0); occ[path] = k + 1
        key = "%s:sqrt-chain#%d" % (path, k)
        iv = Intervals(eng.phi_ops, facts, tyof or tyof_default).ival(z)
        bounded = iv is not None and iv[1] < (1 << 52) and iv[0] >= 0
        derived = derived_closure(eng, v)
        zl = leaves(z)
        checked = None
        for d, bloc in eng.branches:
            if d[0] == 'op' and d[1] in CMP and term_ty(d[3]) in INT_TYS or (d[0] == 'op' and d[1] in CMP and term_ty(d[4]) in INT_TYS):
                sub = set(walk(d))
                if (v in sub or sub & derived) and (sub & zl):
                    checked = (d, bloc); break
        ok = bounded or checked is not None
        # every path on which the function holding the chain RETURNS a value derived from the raw
        # estimate must either have the operand bounded (under the facts of that path) or have gone
        # through the integer check (a fact of either polarity on a comparison involving the
        # estimate and a source leaf of the operand)
        unchecked_path = None
        if ok and not bounded:
            for rpath, rfk, rval, rfacts in ret_edges:
                if rpath != path or rval is None: continue
                sub = set(walk(rval))
                if not (v in sub or (sub & derived)): continue
                iv2 = Intervals(eng.phi_ops, rfacts, tyof or tyof_default).ival(z)
                if iv2 is not None and 0 <= iv2[0] and iv2[1] < (1 << 52): continue
                went = False
                for f in rfacts:
                    if f[0] in ('b', 'tested') and f[1][0] == 'op' and f[1][1] in CMP:
                        fs = set(walk(f[1]))
                        if (v in fs or fs & derived) and (fs & zl): went = True; break
                if not went:
                    unchecked_path = (show(rval)[:80], iv2); break
            if unchecked_path is not None: ok = False
        if unchecked_path is not None:
            why = ("on a returning path the float estimate %s is handed back without the integer correction while the operand is only bounded by %s (>= 2^52: the f64 conversion is inexact there)"
                   % (unchecked_path[0], "2^%d" % unchecked_path[1][1].bit_length() if unchecked_path[1] else "its type"))
        elif bounded: why = "operand %s ∈ [%d, %d] < 2^52: conversion to f64 is exact" % (show(z), iv[0], iv[1])
        elif checked: why = "float estimate is checked against the integer operand by `%s` (%s)" % (show(checked[0]), checked[1][2])
        else: why = ("inexact integer square root: `%s` (up to %s) is converted to f64 (53-bit mantissa), square-rooted and truncated, and the result is used as an exact ring index without any integer correction"
                     % (show(z), "2^%d" % (iv[1].bit_length()) if iv else "unknown"))
        ctx.report(clause, key, ok, why, at="%s (%s)" % (path, at), kind="N",
                   sample={"fn": path, "at": at, "operand": show(z), "interval": list(iv) if iv else None, "accepted_by": "bound" if bounded else ("integer check" if checked else None)})
    return n


def isqrt_table(ctx, crate, fn="ring::polar_cap_ring_index", clause="exact-integer-sqrt"):
    """N: the ring index of a polar-cap cell number, n = max{n : 2 n (n + 1) <= hash}, read off the
    extracted term (float estimate, then the integer correction, gated merges followed) at every
    hash below 3 000, and at the first / last cell of 3 000 rings with n up to 2^29 — including the
    ones where the float estimate alone is one too large (counted: the table is only worth something
    if it contains such rows).  Reading, not running: rules.common.feval on the term."""
    import math, random
    from sym import Engine, show
    from rules.common import feval, param
    b = ctx.anchor(crate, fn, clause)
    if b is None: return
    e = Engine(crate); r = e.run(fn); ctx.functions |= e.visited_fns
    pn = b.param_names()
    if not r.returns or len(pn) != 1:
        ctx.undecided(clause, fn + ":table", "no value", at=b.span); return
    T = lambda n: 2 * n * (n + 1)
    def exact(h):
        n = (math.isqrt(1 + 2 * h) - 1) // 2
        while T(n) > h: n -= 1
        while T(n + 1) <= h: n += 1
        return n
    est = lambda h: (int(math.sqrt(float(1 + 2 * h))) - 1) >> 1
    rnd = random.Random(11)
    ns = [(1 << k) + j for k in range(20, 30) for j in range(-3, 4) if (1 << k) + j < (1 << 29)] + [rnd.randrange(1 << 26, 1 << 29) for _ in range(3000)]
    hs = list(range(3000)) + [h for n in ns for h in (T(n) - 1, T(n), T(n) + 1, T(n + 1) - 1)]
    bad = []; off = 0; cases = None; ce = None; leaves = None
    from rules.common import feval_cases, feval_leaves
    for h in hs:
        want = exact(h)
        if est(h) != want: off += 1
        got = feval(r.ret, {param(pn[0]): h}, e)
        if got is None:
            if cases is None:
                from rules.common import ret_cases
                ce, cases = ret_cases(crate, fn)
            got = feval_cases(cases, {param(pn[0]): h}, ce)
        if got is None:
            if leaves is None:
                from rules.common import explore_leaves
                leaves = explore_leaves(crate, fn, max_tests=6) or []
            got = feval_leaves(leaves, {param(pn[0]): h})
        if got is None:
            ctx.undecided(clause, fn + ":table", "cannot read %s at %d" % (show(r.ret)[:80], h), at=b.span); return
        if got != want and len(bad) < 4: bad.append((h, got, want))
    ctx.report(clause, fn + ":table", not bad and off >= 1000,
               "%d cell numbers (all below 3000; first / last cells of %d rings up to n = 2^29), %d of them where the float estimate alone is off by one: the corrected index is the exact one" % (len(hs), len(ns), off) if not bad else
               "hash %d: ring index %d, the exact one is %d (first of %d)" % (bad[0][0], bad[0][1], bad[0][2], len(bad)), at=b.span, kind="N")
