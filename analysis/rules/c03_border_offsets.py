"""C03 — `Layer::hash_with_dxdy`: on the NW / NE borders of the north polar cap base cells (lon = k*pi/2)
and at the north pole the base-cell step (`depth0_bits`, cases k = -1 and k = -2) forces a coordinate
of the cell to its last row / column; the position is then on the UPPER border of that cell, so the
offset on that axis is 1, not the 0 left by the discretisation.  Decided per finite key: the
rotated base-cell coordinates (i, j) in 0..=4, the outcome of the one float test of case -1.

For every key: mask forced into the cell number (y_mask / x_mask / xy_mask, read off the argument of
`build_hash`)  <=>  offset returned on that axis is the constant 1.0."""
from sym import Engine, show, walk, C
from rules.common import explore_leaves

FN = "nested::Layer::hash_with_dxdy"
BCC = "nested::Layer::base_cell_coos"
OPQ = {BCC, "proj", "ensures_x_is_positive", "nested::Layer::build_hash", "nested::discretize", "nested::Layer::to_coos_in_base_cell", "nested::Layer::shift_rotate_scale"}


def run(ctx, crate, clause="border-offsets"):
    b = ctx.anchor(crate, FN, clause)
    if b is None: return
    e0 = Engine(crate, opaque=OPQ); r0 = e0.run(FN); ctx.functions |= e0.visited_fns
    bc = [ev for ev in e0.events.values() if ev.callee == BCC]
    if len(bc) != 1 or not r0.returns:
        ctx.undecided(clause, FN + ":shape", "expected one call of base_cell_coos", at=b.span); return
    R = bc[0].ret
    fld = lambda n: ('fld', ('deref', ('p', 'self')), crate.field_index("nested::Layer", n))
    XM, YM, XYM = fld("x_mask"), fld("y_mask"), fld("xy_mask")
    one = None
    bad = []; n = 0; forced_cases = 0
    for i in range(5):
        for j in range(5):
            k = 5 - (i + j)
            if k < -2 or k > 2: continue          # 3, 4: rounding cases resolved by a recursive step, not keys of their own
            leaves = explore_leaves(crate, FN, opaque=OPQ, max_tests=4, subst0={('fld', R, 0): C('u8', i), ('fld', R, 1): C('u8', j)})
            if leaves is None:
                ctx.undecided(clause, FN + ":key(%d,%d)" % (i, j), "tests other than two-way tests on that key", at=b.span); return
            for sub, e, r in leaves:
                if not r.returns or r.ret[0] != 'agg' or len(r.ret[3]) != 3: continue
                bh = [ev for ev in e.events.values() if ev.callee == "nested::Layer::build_hash"]
                if len(bh) != 1: continue
                bits = bh[0].args[1]
                # read the base-cell bits at depth 2 (twice_depth = 4, masks 0101 / 1010 / 1111): a coordinate is
                # forced iff all its bits are set in the value handed to build_hash
                from rules.common import feval
                envm = {XM: 0b0101, YM: 0b1010, XYM: 0b1111, fld("twice_depth"): 4, fld("depth"): 2}
                vbits = feval(bits, envm, e)
                if vbits is None:
                    has = lambda m: any(x == m for x in walk(bits))
                    fx, fy = has(XM) or has(XYM), has(YM) or has(XYM)
                else:
                    fx, fy = (vbits & 0b0101) == 0b0101, (vbits & 0b1010) == 0b1010
                    if not (0 <= (vbits >> 4) <= 11): bad.append(((i, j), "base cell %d" % (vbits >> 4), "", ""))
                dx, dy = r.ret[3][1], r.ret[3][2]
                is1 = lambda t: t[0] == 'c' and t[1] == 'f64' and t[2] == 0x3FF0000000000000
                n += 1
                if fx or fy: forced_cases += 1
                if fx != is1(dx) or fy != is1(dy):
                    bad.append(((i, j), "x" * fx + "y" * fy or "none", show(dx)[:40], show(dy)[:40]))
    ctx.report(clause, FN + ":offset-1-on-forced-border", not bad and forced_cases >= 3,
               "%d keys (rotated base-cell coordinates x float test): wherever the base-cell step forces the last row / column (%d keys: the NW / NE borders of the north polar base cells and the north pole) the offset returned on that axis is 1.0, and only there" % (n, forced_cases) if not bad else
               "key (i, j) = %s: coordinate forced to the last row/column on axis [%s] but offsets returned are (dx, dy) = (%s, %s) — for a position with lon = k*pi/2 in the north polar cap the pair (cell, dx, dy) denotes the opposite border of the cell" % bad[0],
               at=b.span, kind="N", sample={"keys": n, "forced": forced_cases, "mismatches": [list(map(str, x)) for x in bad[:4]]})


def tiebreaks(ctx, crate, depths=(0, 2, 7, 29), clause="border-offsets"):
    """The tie-breaks of the base-cell step, per finite key and for a few depths (Layer constants folded):

    * scale invariance: the one float test that decides which axis is forced (k = -1) or which
      coordinate is pushed over the border (k = 3) compares the position with BASE-CELL quantities
      only (x' - i*nside against y' - j*nside).  If it reads the cell coordinates `ij` (the floor at
      this depth) its answer changes with the depth as soon as the position is a cell corner: the
      cell returned at one depth is no longer inside the cell returned at a shallower one, and it
      does not contain the position.
    * k = 3, 4 (a rounding put x' or y' just below the border of a south polar cap base cell): the
      coordinate that is pushed over is the LARGER one at base-cell level (read at two sample
      points), and the cell coordinates handed to `to_coos_in_base_cell` / `build_hash` are the
      pushed ones (a correction made on a copy is lost)."""
    from rules.common import feval
    b = ctx.anchor(crate, FN, clause)
    if b is None: return
    DISC = "nested::discretize"; SRS = "nested::Layer::shift_rotate_scale"; TCO = "nested::Layer::to_coos_in_base_cell"
    bad_scale = []; bad_push = []; n_keys = 0; n_push = 0
    for d in depths:
        e0 = Engine(crate); r0 = e0.run("nested::Layer::new", [C('u8', d)])
        if not r0.returns:
            ctx.undecided(clause, FN + ":tiebreaks", "Layer::new(%d) has no value" % d, at=b.span); return
        selfv = r0.ret; nside = 1 << d
        e1 = Engine(crate, opaque=OPQ); r1 = e1.run_method(FN, selfv)
        bc = [ev for ev in e1.events.values() if ev.callee == BCC]; dc = [ev for ev in e1.events.values() if ev.callee == DISC]
        if len(bc) != 1 or len(dc) != 1:
            ctx.undecided(clause, FN + ":tiebreaks", "expected one call of base_cell_coos and one of discretize", at=b.span); return
        R, D = bc[0].ret, dc[0].ret
        XY = dc[0].args[0]                     # the rotated, scaled position handed to discretize
        X, Y = ('fld', XY, 0), ('fld', XY, 1)
        # x' - y' = x - 4 lies in [-4, 4): i and j go up to 5 ((5, 1) is lon just below 2pi, (1, 5) lon just above 0)
        for i in range(6):
            for j in range(6):
                k = 5 - (i + j)
                if k not in (-1, 3): continue
                n_keys += 1
                sub0 = {('fld', R, 0): C('u8', i), ('fld', R, 1): C('u8', j)}
                e = Engine(crate, opaque=OPQ); e.subst = dict(sub0); e.run_method(FN, selfv)
                tests = [t for t in dict.fromkeys(t for t, loc in e.branches) if t[0] == 'op' and t[1] in ('lt', 'le', 'gt', 'ge') and (any(x == X for x in walk(t)) or any(x == Y for x in walk(t)))]
                if len(tests) != 1:
                    bad_scale.append((d, (i, j), "%d float tests on that key" % len(tests))); continue
                t = tests[0]
                if any(x == D for x in walk(t)):
                    bad_scale.append((d, (i, j), "the test reads the cell coordinates: %s" % show(t)[:90])); continue
                # semantic reading: x' - i*nside > y' - j*nside, in any orientation / strictness
                pts = [((i + 0.75) * nside, (j + 0.25) * nside, True), ((i + 0.25) * nside, (j + 0.75) * nside, False)]
                vals = [feval(t, {X: px, Y: py}, e) for px, py, _ in pts]
                if any(v is None for v in vals) or vals[0] == vals[1]:
                    bad_scale.append((d, (i, j), "not a comparison of x' - i*nside with y' - j*nside: %s" % show(t)[:90])); continue
                x_larger_when_true = bool(vals[0])
                if k != 3: continue
                # which coordinate is pushed, on each outcome of the test
                for outcome in (0, 1):
                    e2 = Engine(crate, opaque=OPQ, max_recursion=2); e2.subst = dict(sub0); e2.subst[t] = C('bool', outcome)
                    r2 = e2.run_method(FN, selfv)
                    tc = [ev for ev in e2.events.values() if ev.callee == TCO]
                    n_push += 1
                    if len(tc) != 1 or not tc[0].argvals or tc[0].argvals[-1] is None:
                        bad_push.append((d, (i, j), "cannot see the coordinates handed to to_coos_in_base_cell")); continue
                    v = tc[0].argvals[-1]
                    inc = lambda idx: v[0] == 'agg' and v[3][idx] == ('op', 'add', 'u64', ('fld', D, idx), C('u64', 1))
                    same = lambda idx: v[0] == 'agg' and v[3][idx] == ('fld', D, idx)
                    x_is_larger = (bool(outcome) == x_larger_when_true)
                    ok = (inc(0) and same(1)) if x_is_larger else (inc(1) and same(0))
                    if not ok:
                        bad_push.append((d, (i, j), "with %s the larger coordinate, the cell coordinates used afterwards are %s" % ("x" if x_is_larger else "y", show(v)[:80])))
    ctx.report(clause, FN + ":tie-breaks-at-base-cell-level", not bad_scale and n_keys >= 32,
               "%d keys (k = -1 and k = 3, depths %s): the deciding test compares x' - i*nside with y' - j*nside and does not read the cell coordinates" % (n_keys, list(depths)) if not bad_scale else
               "depth %s key %s: %s — the choice of the base cell depends on the depth when the position is a cell corner (e.g. lon = 0, sqrt(3(1 - sin lat)) = 1/2)" % bad_scale[0],
               at=b.span, kind="N", sample={"keys": n_keys, "mismatches": [list(map(str, x)) for x in bad_scale[:3]]})
    ctx.report(clause, FN + ":pushed-coordinate-used", not bad_push and n_push >= 12,
               "%d (key, outcome) cases of k = 3: the larger coordinate is pushed over the base-cell border and the pushed cell coordinates are the ones decoded afterwards" % n_push if not bad_push else
               "depth %s key %s: %s" % bad_push[0], at=b.span, kind="N", sample={"cases": n_push, "mismatches": [list(map(str, x)) for x in bad_push[:3]]})


def recursion_args(ctx, crate, clause="border-offsets"):
    """N: the rounding cases k = 3 and k = 4 of `depth0_bits` call it again on the box the position is
    pushed into: (i + 1, j), (i, j + 1) or (i + 1, j + 1) — each coordinate of the recursive call is the
    caller's own coordinate, possibly plus one (no i / j mix-up), and the cell coordinates handed on
    are incremented on the same axes."""
    D0B = "nested::Layer::depth0_bits"
    b = ctx.anchor(crate, D0B, clause)
    if b is None: return
    e = Engine(crate, opaque={D0B, "nested::Layer::x_in_d0c_gt_y_in_d0c"}); e.run(D0B); ctx.functions |= e.visited_fns
    rec = [ev for ev in e.events.values() if ev.callee == D0B and len(ev.site) == 2]
    I, J = ('p', 'i'), ('p', 'j')
    one = lambda t: t[0] == 'c' and t[2] == 1
    def inc_of(t, base):
        if t == base: return 0
        if t[0] == 'op' and t[1] == 'add' and ((t[3] == base and one(t[4])) or (t[4] == base and one(t[3]))): return 1
        return None
    kinds = []
    bad = []
    for ev in rec:
        a, c_ = inc_of(ev.args[1], I), inc_of(ev.args[2], J)
        if a is None or c_ is None or a + c_ == 0: bad.append((show(ev.args[1])[:30], show(ev.args[2])[:30]))
        else: kinds.append((a, c_))
    ok = not bad and sorted(kinds) == [(0, 1), (1, 0), (1, 1)]
    ctx.report(clause, D0B + ":rounding-cases-recurse-on-the-next-box", ok, "recursive calls on (i + 1, j), (i, j + 1), (i + 1, j + 1)" if ok else
               "recursive calls of depth0_bits on %s" % (bad or kinds), at=b.span, kind="N")
