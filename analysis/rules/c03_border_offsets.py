"""C03 — `Layer::hash_with_dxdy`: on the NW / NE borders of the north polar cap base cells (lon = k*pi/2)
and at the north pole the base-cell step (`depth0_bits`, cases k = -1 and k = -2) forces a coordinate
of the cell to its last row / column; the position is then on the UPPER border of that cell, so the
offset on that axis is 1, not the 0 left by the discretisation.  Decided per finite key: the
rotated base-cell coordinates (i, j) in 0..=4, the outcome of the one float test of case -1.

For every key: mask forced into the cell number (y_mask / x_mask / xy_mask, read off the argument of
`build_hash`)  <=>  offset returned on that axis is the constant 1.0."""
from sym import Engine, show, walk, C
from rules.common import explore_leaves

FN = "nested::Layer::hash_with_dxdy"
BCC = "nested::Layer::base_cell_coos"
OPQ = {BCC, "proj", "ensures_x_is_positive", "nested::Layer::build_hash", "nested::discretize", "nested::Layer::to_coos_in_base_cell", "nested::Layer::shift_rotate_scale"}


def run(ctx, crate, clause="border-offsets"):
    b = ctx.anchor(crate, FN, clause)
    if b is None: return
    e0 = Engine(crate, opaque=OPQ); r0 = e0.run(FN); ctx.functions |= e0.visited_fns
    bc = [ev for ev in e0.events.values() if ev.callee == BCC]
    if len(bc) != 1 or not r0.returns:
        ctx.undecided(clause, FN + ":shape", "expected one call of base_cell_coos", at=b.span); return
    R = bc[0].ret
    fld = lambda n: ('fld', ('deref', ('p', 'self')), crate.field_index("nested::Layer", n))
    XM, YM, XYM = fld("x_mask"), fld("y_mask"), fld("xy_mask")
    one = None
    bad = []; n = 0; forced_cases = 0
    for i in range(5):
        for j in range(5):
            k = 5 - (i + j)
            if k < -2 or k > 2: continue          # 3, 4: rounding cases resolved by a recursive step, not keys of their own
            leaves = explore_leaves(crate, FN, opaque=OPQ, max_tests=4, subst0={('fld', R, 0): C('u8', i), ('fld', R, 1): C('u8', j)})
            if leaves is None:
                ctx.undecided(clause, FN + ":key(%d,%d)" % (i, j), "tests other than two-way tests on that key", at=b.span); return
            for sub, e, r in leaves:
                if not r.returns or r.ret[0] != 'agg' or len(r.ret[3]) != 3: continue
                bh = [ev for ev in e.events.values() if ev.callee == "nested::Layer::build_hash"]
                if len(bh) != 1: continue
                bits = bh[0].args[1]
                has = lambda m: any(x == m for x in walk(bits))
                fx, fy = has(XM) or has(XYM), has(YM) or has(XYM)
                dx, dy = r.ret[3][1], r.ret[3][2]
                is1 = lambda t: t[0] == 'c' and t[1] == 'f64' and t[2] == 0x3FF0000000000000
                n += 1
                if fx or fy: forced_cases += 1
                if fx != is1(dx) or fy != is1(dy):
                    bad.append(((i, j), "x" * fx + "y" * fy or "none", show(dx)[:40], show(dy)[:40]))
    ctx.report(clause, FN + ":offset-1-on-forced-border", not bad and forced_cases >= 3,
               "%d keys (rotated base-cell coordinates x float test): wherever the base-cell step forces the last row / column (%d keys: the NW / NE borders of the north polar base cells and the north pole) the offset returned on that axis is 1.0, and only there" % (n, forced_cases) if not bad else
               "key (i, j) = %s: coordinate forced to the last row/column on axis [%s] but offsets returned are (dx, dy) = (%s, %s) — for a position with lon = k*pi/2 in the north polar cap the pair (cell, dx, dy) denotes the opposite border of the cell" % bad[0],
               at=b.span, kind="N", sample={"keys": n, "forced": forced_cases, "mismatches": [list(map(str, x)) for x in bad[:4]]})
