"""Haversine argument consistency (sibling agreement between all call sites of one helper).

`squared_half_segment(dlon, dlat, cos_lat1, cos_lat2)` computes sin^2(dlat/2) + cos_lat1*cos_lat2*
sin^2(dlon/2).  At every call site of the crate: dlat must be a difference B1 - B2 and the two
cosine arguments must be the cosines of exactly B1 and B2 (directly, or through a captured /
passed value whose every actual is `cos` of the matching latitude actual).  A site that passes the
cosine of anything else computes a distance that is not the angular distance the cone thresholds
are compared with — a necessary condition of C05/C06 (and of C16's constants)."""
from sym import Engine, show, walk, State
from rules.common import strip_generics

SHS = "squared_half_segment"


def is_cos(t):
    return t[0] == 'call' and t[1].endswith("<impl f64>::cos")


def sites(crate):
    out = []
    for b in crate.bodies.values():
        for bb, t in b.calls():
            f = t["func"]
            if f["k"] == "fn" and f.get("resolved", f["path"]) == SHS:
                out.append((b.path, bb, t["at"]))
    return out


def analyse_site(ctx, crate, path, clause):
    """returns list of (ok, detail, at) for the calls to squared_half_segment inside `path`"""
    body = crate.body(path)
    res = []
    if body.kind == "Closure":
        parent = body.j.get("parent_fn")
        pe = Engine(crate); pr = pe.run(parent)
        clo = pr.ret if pr.returns else None
        if clo is None or clo[0] != 'agg' or not clo[1].startswith('closure:'):
            return [(None, "cannot extract the closure value returned by %s" % parent, body.span)]
        e = Engine(crate, opaque={SHS, "nested::Layer::center"})
        st = State()
        if body.local_ty(1)["k"] == "ref":
            st.heap[('tmp', 'env')] = clo; env = ('ref_t', ('tmp', 'env'))
        else: env = clo
        args = [env] + [('p', 'arg%d' % i) for i in range(1, body.arg_count)]
        e.run_body(body, args, st, fk=((path, -1),), stack=(path,))
        ctx.functions |= e.visited_fns | {parent}
        outer = parent
    else:
        e = Engine(crate, opaque={SHS}); e.run(path); ctx.functions |= e.visited_fns
        outer = None
    for ev in e.events.values():
        if ev.callee != SHS: continue
        dlon, dlat, c1, c2 = ev.args
        if not (dlat[0] == 'op' and dlat[1] == 'sub'):
            # a latitude difference computed earlier (ConstantsC2V::new passes d_min): look through
            res.append((None, "dlat argument %s is not a difference" % show(dlat)[:80], ev.at)); continue
        lats = [dlat[3], dlat[4]]
        # dlon is the difference of the longitudes of the same two points, in the same order: the
        # longitude of a point is the sibling component of its latitude (the other field of the same
        # tuple / closure environment), or, for bare parameters, another bare value
        okl = dlon[0] == 'op' and dlon[1] == 'sub'
        if not all(B[0] in ('fld', 'p', 'sym') for B in lats):
            okl = True            # latitudes computed in place (the per-depth constants): no two named points
        elif okl:
            for A, B in zip((dlon[3], dlon[4]), lats):
                if B[0] == 'fld': okl = okl and A[0] == 'fld' and A[1] == B[1] and A[2] != B[2]
                else: okl = okl and A[0] != 'fld' and A != B and A not in lats
        if not okl:
            res.append((False, "squared_half_segment(dlon=%s, dlat=%s, ..) — dlon is not the difference of the longitudes of the two points whose latitudes make dlat (same order)" % (show(dlon)[:60], show(dlat)[:60]), ev.at)); continue
        pending = []   # (param term, latitude term) obligations for the call sites of the parent
        okc = True; used = []
        for c in (c1, c2):
            if is_cos(c):
                x = c[2][0]
                if x in lats and x not in used: used.append(x)
                else: okc = False
            elif c[0] == 'p' or c[0] == 'c':
                pending.append(c)
            else:
                okc = False
        rest = [l for l in lats if l not in used]
        detail = "squared_half_segment(dlon=%s, dlat=%s, %s, %s)" % (show(dlon)[:50], show(dlat)[:50], show(c1)[:40], show(c2)[:40])
        if not okc or len(pending) != len(rest):
            res.append((False, detail + " — a cosine argument is not the cosine of one of the two latitudes whose difference is dlat", ev.at)); continue
        for c, l in zip(pending, rest):
            if c[0] == 'c':
                # a constant cosine must be cos of a constant latitude
                import math
                from rules.common import cval
                ok = l[0] == 'c' and abs(math.cos(cval(l)) - cval(c)) < 1e-15
                if not ok: okc = False
                continue
            # c is a parameter of the parent: every caller must pass cos(actual of l)
            if l[0] != 'p' or outer is None and body.kind != "Closure":
                pass
            fnname = outer or path
            callers = crate.callers().get(fnname, [])
            pb = crate.body(fnname); names = pb.param_names()
            if c[1] not in names or l[0] != 'p' or l[1] not in names:
                okc = False; continue
            ci, li = names.index(c[1]), names.index(l[1])
            def callers_pass_cos(fname, ci_, li_, depth_=0):
                # every caller of fname passes cos(actual of the latitude) for the cosine parameter; a caller
                # that forwards its own (cosine, latitude) parameters is checked at its own callers in turn
                bad_ = []
                for cpath, cbb in crate.callers().get(fname, []):
                    ce = Engine(crate, opaque={fname}, max_depth=2, inline=lambda n, d: False)
                    ce.run(cpath)
                    cb_ = crate.body(cpath)
                    for cev in ce.events.values():
                        if cev.callee == fname and len(cev.site) == 2:
                            a_c, a_l = cev.args[ci_], cev.args[li_]
                            if is_cos(a_c) and a_c[2][0] == a_l: continue
                            pn_ = cb_.param_names() if cb_ is not None else []
                            if depth_ < 2 and a_c[0] == 'p' and a_l[0] == 'p' and a_c[1] in pn_ and a_l[1] in pn_:
                                bad_ += callers_pass_cos(cpath, pn_.index(a_c[1]), pn_.index(a_l[1]), depth_ + 1); continue
                            bad_.append((cev.at, show(a_c)[:40], show(a_l)[:40]))
                return bad_
            for at_, sc_, sl_ in callers_pass_cos(fnname, ci, li):
                okc = False
                detail += " — at %s the parameter `%s` receives %s, not cos(%s)" % (at_, c[1], sc_, sl_)
        res.append((okc, detail, ev.at))
    return res


def check_all(ctx, crate, clause="haversine-arguments"):
    ss = sites(crate)
    n = 0
    seen = set()
    for path, bb, at in ss:
        if path in seen: continue
        seen.add(path)
        for ok, detail, where in analyse_site(ctx, crate, path, clause):
            n += 1
            ctx.report(clause, "%s:squared_half_segment" % path, ok, detail, at="%s (%s)" % (path, where), kind="N",
                       sample={"site": path, "call": detail[:160]})
    return n
