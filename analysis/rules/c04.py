"""C04 — neighbours.  Pass-1 clause: D out-of-range cell number rejected by neighbours / neighbour /
nested::neighbours (E1).  Further clauses are added by c04 tables (E4) below when available."""
from rules.common import check_hash_range_guard
from rules.c03 import layer_n_hash_pred


def guards(ctx, crate, tag=""):
    pred = layer_n_hash_pred(crate)
    n = 0
    for fn in ("nested::Layer::neighbours", "nested::Layer::neighbour", "nested::neighbours"):
        key = "%s:hash%s" % (fn, tag)
        if check_hash_range_guard(ctx, crate, fn, "hash", pred, "self.n_hash", "hash-guard", key=key) is not None: n += 1
    return n


def base_cell_guard(ctx, crate):
    """D: the depth-0 helper `neighbour(base_cell, direction)` has a value exactly for base_cell < 12,
    for each of the 9 directions (the centre `C` included): all 256 x 9 cases, each folded."""
    from sym import Engine, C, show
    clause = "hash-guard"
    fn = "neighbour"
    b = ctx.anchor(crate, fn, clause)
    if b is None: return
    names = crate.variant_names("compass_point::MainWind")
    bad = []; n = 0
    for base in range(256):
        for v, nm in enumerate(names):
            e = Engine(crate); r = e.run(fn, [C('u8', base), ('agg', 'adt:compass_point::MainWind', v, ())])
            n += 1
            if (base < 12) != bool(r.returns): bad.append((base, nm, "returns %s" % show(r.ret)[:30] if r.returns else "panics"))
    ctx.functions.add(fn)
    ctx.report(clause, "neighbour(base_cell, direction):base_cell<12", not bad and n == 256 * len(names),
               "%d cases (every u8 x %d directions): a value exactly for base_cell < 12" % (n, len(names)) if not bad else
               "%d of %d cases: e.g. neighbour(%d, %s) %s — an out-of-range base cell is accepted" % ((len(bad), n) + bad[0]), at=b.span, sample={"cases": n})


def run(ctx):
    crate = ctx.crate("rel")
    base_cell_guard(ctx, crate)
    n = guards(ctx, crate)
    ctx.floor("guarded-entry-points", n, 3)
    try:
        from rules import c04_tables
    except ImportError:
        c04_tables = None
    if c04_tables is not None:
        c04_tables.run(ctx, crate)
    if ctx.tier == "thorough":
        guards(ctx, ctx.crate("dbg"), "[dbg]")
    from rules import controls
    controls.guard_controls(ctx)
