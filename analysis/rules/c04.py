"""C04 — neighbours.  Pass-1 clause: D out-of-range cell number rejected by neighbours / neighbour /
nested::neighbours (E1).  Further clauses are added by c04 tables (E4) below when available."""
from rules.common import check_hash_range_guard
from rules.c03 import layer_n_hash_pred


def guards(ctx, crate, tag=""):
    pred = layer_n_hash_pred(crate)
    n = 0
    for fn in ("nested::Layer::neighbours", "nested::Layer::neighbour", "nested::neighbours"):
        key = "%s:hash%s" % (fn, tag)
        if check_hash_range_guard(ctx, crate, fn, "hash", pred, "self.n_hash", "hash-guard", key=key) is not None: n += 1
    return n


def run(ctx):
    crate = ctx.crate("rel")
    n = guards(ctx, crate)
    ctx.floor("guarded-entry-points", n, 3)
    try:
        from rules import c04_tables
    except ImportError:
        c04_tables = None
    if c04_tables is not None:
        c04_tables.run(ctx, crate)
    if ctx.tier == "thorough":
        guards(ctx, ctx.crate("dbg"), "[dbg]")
    from rules import controls
    controls.guard_controls(ctx)
