"""C10 — NESTED <-> RING.  N exact integer square root in from_ring (E7); N region boundaries of
to_ring and from_ring are the same expressions (use-def identity)."""
from sym import Engine, show, walk, CMP
from rules import e7


def boundaries(ctx, crate):
    """from_ring compares the ring hash with first_hash_in_eqr and n_hash - first_hash_in_eqr;
    to_ring places the first equatorial ring at first_hash_in_eqr and the south cap at
    n_hash - 4*T(h+1): the same two boundary terms must appear on both sides."""
    clause = "shared-region-boundaries"
    fr, tr = "nested::Layer::from_ring", "nested::Layer::to_ring"
    bf, bt = ctx.anchor(crate, fr, clause), ctx.anchor(crate, tr, clause)
    if bf is None or bt is None: return
    ef = Engine(crate); ef.run(fr); et = Engine(crate); rt = et.run(tr)
    ctx.functions |= ef.visited_fns | et.visited_fns
    e0 = Engine(crate); r0 = e0.run("nested::Layer::first_hash_in_eqr")
    fh = r0.ret
    nh = ('fld', ('deref', ('p', 'self')), crate.field_index("nested::Layer", "n_hash"))
    cmp_terms = [d for d, loc in ef.branches if loc[0] == fr and d[0] == 'op' and d[1] in CMP]
    from rules.common import is_cmp
    has_north = any(is_cmp(d, 'lt', ('p', 'hash'), fh) for d in cmp_terms)
    south = ('op', 'sub', 'u64', nh, fh)
    has_south = any(is_cmp(d, 'ge', ('p', 'hash'), south) for d in cmp_terms)
    ctx.report(clause, fr + ":north-boundary", has_north, "from_ring: north cap iff hash < %s" % show(fh), at=bf.span, kind="N")
    ctx.report(clause, fr + ":south-boundary", has_south, "from_ring: south cap iff hash >= %s" % show(south), at=bf.span, kind="N")
    # to_ring: the equatorial branch adds first_hash_in_eqr, the south branch starts from n_hash
    ret_terms = set()
    def collect(t, seen):
        if t in seen: return
        seen.add(t)
        for x in walk(t):
            ret_terms.add(x)
            if x[0] == 'phi':
                for o in et.phi_ops.get(x, ()): collect(o, seen)
    collect(rt.ret, set())
    uses_fh = fh in ret_terms
    uses_nh = any(x[0] == 'op' and x[1] == 'sub' and x[3] == nh for x in ret_terms)
    ctx.report(clause, tr + ":eqr-offset", uses_fh, "to_ring: equatorial indices are offset by the same first_hash_in_eqr term", at=bt.span, kind="N")
    ctx.report(clause, tr + ":spc-offset", uses_nh, "to_ring: south-cap indices count back from self.n_hash", at=bt.span, kind="N")
    # triangular_number_x4 single shared definition used by both directions
    callers = crate.callers().get("ring::triangular_number_x4", [])
    users = {c[0] for c in callers}
    ok = tr in users and (fr in users or "ring::polar_cap_ring_index" in users)
    ctx.report(clause, "triangular_number_x4:shared", ok, "ring::triangular_number_x4 is used by %s" % sorted(users), kind="N")


def no_32bit_wrap(ctx, crate, clause="64-bit-ring-arithmetic"):
    """N: ring indices reach 12*4^29 ~ 2^62 and ring numbers 4*2^29 = 2^31: products / shifts /
    sums of them must be carried out in 64 bits.  Every u32/i32 mul, shl or add computed by
    to_ring / from_ring (helpers analysed in place) must fit its type for depth <= 29,
    nside <= 2^29, i, j < 2^29, under interval analysis."""
    from intervals import Intervals
    from mir import INT_TYS
    for fn in ("nested::Layer::to_ring", "nested::Layer::from_ring"):
        b = ctx.anchor(crate, fn, clause)
        if b is None: continue
        vals = []
        e = Engine(crate, opaque={"nested::Layer::decode_hash"})
        e.value_hook = lambda v, loc, facts: vals.append((v, loc, facts)) if v[0] == 'op' and v[2] in ("u32", "i32") and v[1] in ("mul", "shl", "add") else None
        e.run(fn); ctx.functions |= e.visited_fns
        st = ('deref', ('p', 'self'))
        fld = lambda n: ('fld', st, crate.field_index("nested::Layer", n))
        bounds = {fld("depth"): (0, 29), fld("nside"): (1, 1 << 29), fld("nside_minus_1"): (0, (1 << 29) - 1), fld("twice_depth"): (0, 58),
                  ('p', 'hash'): (0, (12 << 58) - 1)}
        dec = [ev for ev in e.events.values() if ev.callee == "nested::Layer::decode_hash"]
        for d in dec:
            bounds[('fld', d.ret, 0)] = (0, 11); bounds[('fld', d.ret, 1)] = (0, (1 << 29) - 1); bounds[('fld', d.ret, 2)] = (0, (1 << 29) - 1)
        ptys = {}
        for pth in e.visited_fns:
            bb = crate.body(pth)
            for i, nme in enumerate(bb.param_names()):
                t = bb.local_ty(i + 1)
                if t["k"] == "int": ptys[nme] = t["n"]
        bad = []
        for v, loc, facts in vals:
            iv = Intervals(e.phi_ops, facts, lambda t: ptys.get(t[1]) if t[0] == 'p' else None, bounds=bounds)
            ra, rb = iv.ival(v[3]), iv.ival(v[4])
            if ra is None or rb is None: continue
            if v[1] == "mul": hi = max(abs(ra[0]), abs(ra[1])) * max(abs(rb[0]), abs(rb[1]))
            elif v[1] == "add": hi = ra[1] + rb[1]
            else: hi = ra[1] << min(rb[1], 64) if ra[1] >= 0 and rb[1] >= 0 else 0
            w, sgn = INT_TYS[v[2]]
            if hi >= (1 << (w - (1 if sgn else 0))):
                bad.append("%s at %s (%s): operands up to %s and %s" % (show(v)[:70], loc[0], loc[2], ra[1], rb[1]))
        ctx.report(clause, fn + ":no-32-bit-overflow", not bad, "%d 32-bit mul/shl/add terms, all within range for depth <= 29" % len(vals) if not bad else
                   "32-bit arithmetic can wrap: %s" % bad[:2], at=b.span, kind="N")


def ring_index_form(ctx, crate, depths, clause="ring-index"):
    """D: the ring number to_ring assigns to cell (b, i, j) is the model's: the centre of the cell
    has y = 1 - b/4 + (i + j + 1 - n)/n in the projection plane and ring k (0-based from the north
    pole) is the parallel y = 2 - (k + 1)/n, hence k = n (2 + b div 4) - (i + j + 2).  Checked as a
    polynomial identity in (i, j) for every base cell and depth."""
    from rules.c11_forms import ipoly
    from poly import Poly
    from sym import C
    fn = "nested::Layer::to_ring"
    b = ctx.anchor(crate, fn, clause)
    if b is None: return
    fields = [f["name"] for f in crate.adts["nested::Layer"]["variants"][0]["fields"]]
    bad = []; n_ok = 0
    for d in depths:
        n = 1 << d
        vals = {"depth": C('u8', d), "nside": C('u32', n), "n_hash": C('u64', 12 * n * n), "twice_depth": C('u8', 2 * d)}
        selfv = ('agg', 'adt:nested::Layer', 0, tuple(vals.get(f, ('sym', ('self', f))) for f in fields))
        e0 = Engine(crate, opaque={"nested::Layer::decode_hash"}); e0.run_method(fn, selfv)
        dec = [ev for ev in e0.events.values() if ev.callee == "nested::Layer::decode_hash"]
        if len(dec) != 1:
            bad.append((d, "decode_hash calls: %d" % len(dec))); continue
        d0h_t, i_t, j_t = ('fld', dec[0].ret, 0), ('fld', dec[0].ret, 1), ('fld', dec[0].ret, 2)
        for base in range(12):
            e = Engine(crate, opaque={"nested::Layer::decode_hash"}); e.subst = {d0h_t: C('u8', base)}
            e.run_method(fn, selfv)
            # the ring index is the term compared with nside to select the region
            cand = [t[3] for t, loc in e.branches if t[0] == 'op' and t[1] in ('lt', 'ge') and t[4] == C('u64', n)] + \
                   [t[4] for t, loc in e.branches if t[0] == 'op' and t[1] in ('gt', 'le') and t[3] == C('u64', n)]
            if not cand:
                bad.append((d, base, "region test not found")); continue
            p = ipoly(cand[0], {i_t: "i", j_t: "j"})
            want = Poly.const(n * (2 + base // 4) - 2) - Poly.var("i") - Poly.var("j")
            if p == want: n_ok += 1
            else: bad.append((d, base, repr(p)))
    ctx.functions.add(fn)
    ctx.report(clause, fn + ":ring=n(2+b/4)-(i+j+2)", not bad, "for depths %s and the 12 base cells the ring index is the model's linear form (%d identities)" % (depths if len(depths) < 8 else "0..=29", n_ok) if not bad else "differs: %s" % bad[:3], at=b.span,
               sample={"identities": n_ok})


def region_forcing(tests, lin, n, row):
    """{region: substitution of every region test by its truth value at a representative cell of that
    region} — the tests are comparisons of a linear form in (i, j) with a constant, in any number, order
    and orientation (early returns, De Morgan): ring k = n(2 + row) - 2 - (i + j) is in the north cap for
    k < n, in the south cap for k >= 3n - 1, in the equatorial band otherwise."""
    import operator
    from sym import C
    OPS = {'lt': operator.lt, 'le': operator.le, 'gt': operator.gt, 'ge': operator.ge}
    reps = {}
    if row == 0: reps["npc"] = 0
    reps["eqr"] = {0: n, 1: 2 * n - 1, 2: 3 * n - 2}[row]
    if row == 2: reps["spc"] = 4 * n - 2
    out = {}
    for name, k in reps.items():
        ssum = n * (2 + row) - 2 - k
        if ssum < 0 or ssum > 2 * n - 2: continue
        i = min(ssum, n - 1); j = ssum - i
        sub = {}
        for t in tests:
            cright = t[4][0] == 'c'
            pl = lin(t); cv = (t[4] if cright else t[3])[2]
            val = sum(cf * (i ** dict(m).get("i", 0)) * (j ** dict(m).get("j", 0)) for m, cf in pl.d.items())
            truth = OPS[t[1]](val, cv) if cright else OPS[t[1]](cv, val)
            sub[t] = C('bool', 1 if truth else 0)
        out[name] = sub
    return out


def first_index_forms(ctx, crate, depths, clause="first-index-of-ring"):
    """D: in each of the three regions the index to_ring adds to the position inside the ring is the
    number of cells of all the rings before ring k (4(m+1) cells in polar ring m, 4n in equatorial
    rings): north cap 2k(k+1); equatorial 2n(n+1) + (k-n) 4n; south cap 12n^2 - 2(h+1)(h+2) with
    h = i + j.  Polynomial identities in (i, j) per depth and base cell; the region is selected by
    substituting the outcome of the two region tests (a finite key)."""
    from rules.c11_forms import ipoly
    from poly import Poly
    from sym import C
    fn = "nested::Layer::to_ring"
    b = ctx.anchor(crate, fn, clause)
    if b is None: return
    fields = [f["name"] for f in crate.adts["nested::Layer"]["variants"][0]["fields"]]
    bad = []; n_ok = 0
    I, J = Poly.var("i"), Poly.var("j")
    for d in depths:
        n = 1 << d
        vals = {"depth": C('u8', d), "nside": C('u32', n), "n_hash": C('u64', 12 * n * n), "twice_depth": C('u8', 2 * d)}
        selfv = ('agg', 'adt:nested::Layer', 0, tuple(vals.get(f, ('sym', ('self', f))) for f in fields))
        e0 = Engine(crate, opaque={"nested::Layer::decode_hash"}); e0.run_method(fn, selfv)
        dec = [ev for ev in e0.events.values() if ev.callee == "nested::Layer::decode_hash"]
        if len(dec) != 1: bad.append((d, "decode")); continue
        d0h_t, i_t, j_t = ('fld', dec[0].ret, 0), ('fld', dec[0].ret, 1), ('fld', dec[0].ret, 2)
        names = {i_t: "i", j_t: "j"}
        for base in (0, 3, 4, 6, 7, 8, 11):
            row = base // 4
            e1 = Engine(crate, opaque={"nested::Layer::decode_hash"}); e1.subst = {d0h_t: C('u8', base)}
            e1.run_method(fn, selfv)
            tests = [t for t, loc in e1.branches if loc[0] == fn and t[0] == 'op' and t[1] in ('lt', 'ge', 'gt', 'le') and (t[3][0] == 'c' or t[4][0] == 'c')
                     and ipoly(t[3] if t[4][0] == 'c' else t[4], names) is not None and not (ipoly(t[3] if t[4][0] == 'c' else t[4], names)).is_const()]
            if len(tests) < 1: bad.append((d, base, "region tests: %d" % len(tests))); continue
            def lin_(t): return ipoly(t[3] if t[4][0] == 'c' else t[4], names)
            forced = region_forcing(tests, lin_, n, row)
            k = Poly.const(n * (2 + row) - 2) - I - J
            regions = []
            if row == 0 and "npc" in forced: regions.append(("npc", forced["npc"], Poly.const(2) * k * (k + Poly.const(1))))
            if "eqr" in forced: regions.append(("eqr", forced["eqr"], Poly.const(2 * n * (n + 1)) + (k - Poly.const(n)) * Poly.const(4 * n)))
            if row == 2 and "spc" in forced:
                h = I + J
                regions.append(("spc", forced["spc"], Poly.const(12 * n * n) - Poly.const(2) * (h + Poly.const(1)) * (h + Poly.const(2))))
            for rname, sub, want in regions:
                if d == 0 and rname == "eqr" and row != 1: continue          # depth 0: polar base cells are a single polar ring
                e = Engine(crate, opaque={"nested::Layer::decode_hash"}); e.subst = dict(sub); e.subst[d0h_t] = C("u8", base)
                r = e.run_method(fn, selfv)
                t = r.ret if r.returns else None
                polys = []
                if t is not None and t[0] == 'op' and t[1] == 'add':
                    polys = [p for p in (ipoly(t[3], names), ipoly(t[4], names)) if p is not None]
                if any(p == want for p in polys): n_ok += 1
                else: bad.append((d, base, rname, [repr(p) for p in polys] or (show(t)[:80] if t else None)))
    ctx.functions.add(fn)
    ctx.report(clause, fn + ":cells-before-ring", not bad, "%d identities (depths %s x 7 base cells x reachable regions): the first index of a ring is the number of cells of the rings before it" % (n_ok, depths if len(depths) < 8 else "0..=29") if not bad else "differs: %s" % bad[:3],
               at=b.span, sample={"identities": n_ok})


def model_in_ring_positions(n):
    """{(b, i, j): position of the cell in its ring} from the reference model (topology.py): the cells whose
    centre has the same y are one ring; inside it they are numbered by increasing longitude of the centre
    (x mod 8 in the equatorial band, the exact longitude fraction of the facet in the caps)."""
    from fractions import Fraction as F
    from topology import base_centre
    rings = {}
    for b in range(12):
        cx, cy = base_centre(b)
        for i in range(n):
            for j in range(n):
                x = cx + F(i - j, n); y = cy + F(i + j + 1 - n, n)
                if abs(y) <= 1: lon = (x % 8) / 2            # in quarter turns
                else:
                    q = b % 4; dx = x - F(2 * q + 1)
                    lon = (q + F(1, 2) + dx / (2 * (2 - abs(y)))) % 4
                rings.setdefault(y, []).append((lon, (b, i, j)))
    out = {}
    for y, cells in rings.items():
        cells.sort()
        for p, (lon, c) in enumerate(cells): out[c] = p
    return out


def closed_in_ring_position(n, b, i, j):
    """the closed forms the rule compares the code with (validated against the model by a control)"""
    q, row = b % 4, b // 4
    k = n * (2 + row) - 2 - i - j; h = i + j
    if k < n: return (n - 1 - j) + (k + 1) * q
    if k >= 3 * n - 1: return i + (h + 1) * q
    s = 0 if row == 1 else 1
    return (((2 * q + s) * n + (i - j)) // 2) % (4 * n)


def in_ring_position_forms(ctx, crate, depths, clause="position-in-ring"):
    """D: the cell number `to_ring` returns is (cells of the rings before) + (position of the cell in its
    ring, west to east from longitude 0): north cap (n-1-j) + (k+1) q, south cap i + (i+j+1) q, equatorial
    band floor(((2q+s) n + i - j) / 2) mod 4n (q = b mod 4, s = 0 for the equatorial base cells, 1 for the
    polar ones; the mod only acts for b = 4, i < j).  The closed forms are first checked against the
    reference model (ranks by exact longitude, nside 1, 2, 4, 8); the code's returned term — floor halves
    (`div2_quotient`) evaluated on the four parity classes of (i, j) — is then compared with
    first-index + closed form as a polynomial identity, per depth, base cell and region."""
    import floorpoly
    from poly import Poly
    from sym import C
    from mir import callee_name
    fn = "nested::Layer::to_ring"
    b = ctx.anchor(crate, fn, clause)
    if b is None: return
    # control: closed forms == model ranks
    okc = True
    for n in (1, 2, 4, 8):
        m = model_in_ring_positions(n)
        okc = okc and all(closed_in_ring_position(n, *c) == p for c, p in m.items())
    ctx.control("closed forms of the in-ring position == ranks by longitude in the reference model (nside 1, 2, 4, 8)", okc)
    if not okc: return
    D2 = "nested::div2_quotient"
    bd2 = crate.body(D2)
    shr1 = bd2 is not None and any((callee_name(t["func"]) or "").endswith("::shr") for _, t in bd2.calls()) or (bd2 is not None and any(s["k"] == "assign" and "Shr" in str(s) for _, _, s in bd2.assigns()))
    fields = [f["name"] for f in crate.adts["nested::Layer"]["variants"][0]["fields"]]
    bad = []; n_ok = 0
    for d in depths:
        n = 1 << d
        vals = {"depth": C('u8', d), "nside": C('u32', n), "n_hash": C('u64', 12 * n * n), "twice_depth": C('u8', 2 * d)}
        selfv = ('agg', 'adt:nested::Layer', 0, tuple(vals.get(f, ('sym', ('self', f))) for f in fields))
        e0 = Engine(crate, opaque={"nested::Layer::decode_hash"}); e0.run_method(fn, selfv)
        dec = [ev for ev in e0.events.values() if ev.callee == "nested::Layer::decode_hash"]
        if len(dec) != 1: bad.append((d, "decode")); continue
        d0h_t, i_t, j_t = ('fld', dec[0].ret, 0), ('fld', dec[0].ret, 1), ('fld', dec[0].ret, 2)
        names = {i_t: "i", j_t: "j"}
        from rules.c11_forms import ipoly
        for base in range(12):
            row, q = base // 4, base % 4
            e1 = Engine(crate, opaque={"nested::Layer::decode_hash"}); e1.subst = {d0h_t: C('u8', base)}
            e1.run_method(fn, selfv)
            def lin(t):
                o = t[3] if t[4][0] == 'c' else t[4]
                return ipoly(o, names)
            tests = [t for t, loc in e1.branches if loc[0] == fn and t[0] == 'op' and t[1] in ('lt', 'ge', 'gt', 'le') and (t[3][0] == 'c' or t[4][0] == 'c')
                     and lin(t) is not None and not lin(t).is_const()]
            if len(tests) < 1: bad.append((d, base, "region tests: %d" % len(tests))); continue
            forced = region_forcing(tests, lin, n, row)
            # base cell 4: the sign of l = i - j — any comparison whose two sides differ by +-(i - j) + c
            def diff(t):
                a_, b_ = ipoly(t[3], names), ipoly(t[4], names)
                return None if a_ is None or b_ is None else a_ - b_
            lpoly = Poly.var("i") - Poly.var("j")
            def sign_of(t):
                dd = diff(t)
                if dd is None: return None
                for sg in (1, -1):
                    rest = dd - Poly.const(sg) * lpoly
                    if rest.is_const(): return sg, int(rest.d.get((), 0))
                return None
            t_neg = [t for t, loc in e1.branches if loc[0] == fn and t[0] == 'op' and t[1] in ('lt', 'le', 'gt', 'ge') and t not in tests and sign_of(t) is not None]
            regions = []
            if row == 0 and "npc" in forced: regions.append(("npc", forced["npc"], None))
            if "eqr" in forced and not (d == 0 and row != 1):
                if base == 4 and t_neg:
                    # which way is "l < 0"?  the test is on i - j against 0: read its orientation
                    # the test must be true exactly for l = i - j < 0 (or exactly for l >= 0): read it on l = -2..2
                    tn = t_neg[0]; op = tn[1]; sgn, c0 = sign_of(tn)
                    neg_when = None
                    if sgn is not None:
                        import operator
                        f = {'lt': operator.lt, 'le': operator.le, 'gt': operator.gt, 'ge': operator.ge}[op]
                        pat = [f(sgn * l_ + c0, 0) for l_ in (-2, -1, 0, 1, 2)]
                        if pat == [True, True, False, False, False]: neg_when = True
                        elif pat == [False, False, True, True, True]: neg_when = False
                        else:
                            bad.append((d, base, "the wrap of base cell 4 is taken for l = i - j in %s of (-2..2): it must be taken exactly for l < 0 (cells west of the meridian 0)" % [l_ for l_, t_ in zip((-2, -1, 0, 1, 2), pat) if t_])); continue
                    if neg_when is None: bad.append((d, base, "sign test of l not recognised")); continue
                    if d > 0:       # at depth 0 the only cell has i = j = 0
                        regions.append(("eqr,l<0", dict(forced["eqr"], **{t_neg[0]: C('bool', 1 if neg_when else 0)}), 4 * n))
                    regions.append(("eqr,l>=0", dict(forced["eqr"], **{t_neg[0]: C('bool', 0 if neg_when else 1)}), 0))
                else:
                    regions.append(("eqr", forced["eqr"], 0))
            if row == 2 and "spc" in forced: regions.append(("spc", forced["spc"], None))
            for rname, sub, wrap in regions:
                e = Engine(crate, opaque={"nested::Layer::decode_hash"}); e.subst = dict(sub); e.subst[d0h_t] = C("u8", base)
                r = e.run_method(fn, selfv)
                if not r.returns: bad.append((d, base, rname, "diverges")); continue
                halves = [ev for ev in e.events.values() if ev.callee == D2]
                for ri in range(2):
                    for rj in range(2):
                        if d == 0 and (ri or rj): continue
                        I = Poly.const(2) * Poly.var("I") + Poly.const(ri) if d > 0 else Poly.const(0)
                        J = Poly.const(2) * Poly.var("J") + Poly.const(rj) if d > 0 else Poly.const(0)
                        env = {i_t: I, j_t: J}; atoms = {}
                        try:
                            for ev in halves:
                                env[ev.ret] = floorpoly.fdiv(floorpoly.ev(ev.args[0], env, atoms), 2)
                            got = floorpoly.ev(r.ret, env, atoms)
                        except (floorpoly.NeedModulus, floorpoly.Refused) as ex:
                            bad.append((d, base, rname, "not a floor-polynomial: %s" % ex)); continue
                        k = Poly.const(n * (2 + row) - 2) - I - J; h = I + J; Q = Poly.const(q); one = Poly.const(1)
                        if rname == "npc":
                            want = Poly.const(2) * k * (k + one) + (Poly.const(n - 1) - J) + (k + one) * Q
                        elif rname == "spc":
                            want = Poly.const(12 * n * n) - Poly.const(2) * (h + one) * (h + Poly.const(2)) + I + (h + one) * Q
                        else:
                            s = 0 if row == 1 else 1
                            try: pos = floorpoly.fdiv(Poly.const((2 * q + s) * n) + I - J, 2) + Poly.const(wrap)
                            except floorpoly.NeedModulus: bad.append((d, base, rname, "model form")); continue
                            want = Poly.const(2 * n * (n + 1)) + (k - Poly.const(n)) * Poly.const(4 * n) + pos
                        if atoms or got != want:
                            bad.append((d, base, rname, "i mod 2 = %d, j mod 2 = %d: returns %r, first index + position = %r" % (ri, rj, got, want)))
                        else: n_ok += 1
    ctx.functions.add(fn)
    ctx.report(clause, fn + ":position-west-to-east", not bad and shr1, "%d identities (depths %s x 12 base cells x reachable regions x parity classes of (i, j)): returned number = cells before the ring + rank of the cell by longitude" % (n_ok, depths if len(depths) < 8 else "0..=29") if not bad and shr1 else
               ("div2_quotient is not a shift by one" if not bad else "differs: %s" % (bad[:2],)), at=b.span, sample={"identities": n_ok})


def run(ctx):
    crate = ctx.crate("rel")
    no_32bit_wrap(ctx, crate)
    first_index_forms(ctx, crate, list(range(30)) if ctx.tier == "thorough" else [0, 1, 2, 13, 29])
    ring_index_form(ctx, crate, list(range(30)) if ctx.tier == "thorough" else [0, 1, 2, 13, 29])
    in_ring_position_forms(ctx, crate, list(range(30)) if ctx.tier == "thorough" else [0, 1, 2, 13, 29])
    try:
        from rules import c11_forms
        c11_forms.run(ctx, crate)
    except ImportError:
        pass
    n = e7.check_fn(ctx, crate, "nested::Layer::from_ring", "exact-integer-sqrt")
    e7.isqrt_table(ctx, crate)
    ctx.floor("sqrt-chains-in-from_ring", n, 1)
    boundaries(ctx, crate)
    if ctx.tier == "thorough":
        e7.check_fn(ctx, ctx.crate("dbg"), "nested::Layer::from_ring", "exact-integer-sqrt[dbg]")
    ctx.not_decided("bijectivity and ring ordering of to_ring/from_ring (quadratic integer arithmetic over depth-dependent shifts: out of reach without a solver)")
    from rules import controls
    controls.isqrt_controls(ctx)
