"""C10 — NESTED <-> RING.  N exact integer square root in from_ring (E7); N region boundaries of
to_ring and from_ring are the same expressions (use-def identity)."""
from sym import Engine, show, walk, CMP
from rules import e7


def boundaries(ctx, crate):
    """from_ring compares the ring hash with first_hash_in_eqr and n_hash - first_hash_in_eqr;
    to_ring places the first equatorial ring at first_hash_in_eqr and the south cap at
    n_hash - 4*T(h+1): the same two boundary terms must appear on both sides."""
    clause = "shared-region-boundaries"
    fr, tr = "nested::Layer::from_ring", "nested::Layer::to_ring"
    bf, bt = ctx.anchor(crate, fr, clause), ctx.anchor(crate, tr, clause)
    if bf is None or bt is None: return
    ef = Engine(crate); ef.run(fr); et = Engine(crate); rt = et.run(tr)
    ctx.functions |= ef.visited_fns | et.visited_fns
    e0 = Engine(crate); r0 = e0.run("nested::Layer::first_hash_in_eqr")
    fh = r0.ret
    nh = ('fld', ('deref', ('p', 'self')), crate.field_index("nested::Layer", "n_hash"))
    cmp_terms = [d for d, loc in ef.branches if loc[0] == fr and d[0] == 'op' and d[1] in CMP]
    from rules.common import is_cmp
    has_north = any(is_cmp(d, 'lt', ('p', 'hash'), fh) for d in cmp_terms)
    south = ('op', 'sub', 'u64', nh, fh)
    has_south = any(is_cmp(d, 'ge', ('p', 'hash'), south) for d in cmp_terms)
    ctx.report(clause, fr + ":north-boundary", has_north, "from_ring: north cap iff hash < %s" % show(fh), at=bf.span, kind="N")
    ctx.report(clause, fr + ":south-boundary", has_south, "from_ring: south cap iff hash >= %s" % show(south), at=bf.span, kind="N")
    # to_ring: the equatorial branch adds first_hash_in_eqr, the south branch starts from n_hash
    ret_terms = set()
    def collect(t, seen):
        if t in seen: return
        seen.add(t)
        for x in walk(t):
            ret_terms.add(x)
            if x[0] == 'phi':
                for o in et.phi_ops.get(x, ()): collect(o, seen)
    collect(rt.ret, set())
    uses_fh = fh in ret_terms
    uses_nh = any(x[0] == 'op' and x[1] == 'sub' and x[3] == nh for x in ret_terms)
    ctx.report(clause, tr + ":eqr-offset", uses_fh, "to_ring: equatorial indices are offset by the same first_hash_in_eqr term", at=bt.span, kind="N")
    ctx.report(clause, tr + ":spc-offset", uses_nh, "to_ring: south-cap indices count back from self.n_hash", at=bt.span, kind="N")
    # triangular_number_x4 single shared definition used by both directions
    callers = crate.callers().get("ring::triangular_number_x4", [])
    users = {c[0] for c in callers}
    ok = tr in users and (fr in users or "ring::polar_cap_ring_index" in users)
    ctx.report(clause, "triangular_number_x4:shared", ok, "ring::triangular_number_x4 is used by %s" % sorted(users), kind="N")


def run(ctx):
    crate = ctx.crate("rel")
    n = e7.check_fn(ctx, crate, "nested::Layer::from_ring", "exact-integer-sqrt")
    ctx.floor("sqrt-chains-in-from_ring", n, 1)
    boundaries(ctx, crate)
    if ctx.tier == "thorough":
        e7.check_fn(ctx, ctx.crate("dbg"), "nested::Layer::from_ring", "exact-integer-sqrt[dbg]")
    ctx.not_decided("bijectivity and ring ordering of to_ring/from_ring (quadratic integer arithmetic over depth-dependent shifts: out of reach without a solver)")
    from rules import controls
    controls.isqrt_controls(ctx)
