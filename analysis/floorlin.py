"""E8' — floor-linear forms for range reduction of a non-negative float x:
value = a*x + b*floor(x) + [lo, hi]   (a, b integers; lo, hi rationals as Python numbers).
Sound for x in [0, xmax] with xmax < 256 (so that `x as u8` is floor(x) without saturation)."""
from mir import INT_TYS, f64_from_bits
from sym import is_const


class FL:
    __slots__ = ("a", "b", "lo", "hi", "is_int")

    def __init__(self, a, b, lo, hi, is_int):
        self.a, self.b, self.lo, self.hi, self.is_int = a, b, lo, hi, is_int

    def __repr__(self):
        return "%d*x + %d*floor(x) + [%s, %s]" % (self.a, self.b, self.lo, self.hi)


class FloorLinear:
    def __init__(self, x_term, xmax, phi_ops=None):
        self.x = x_term; self.xmax = xmax; self.phi_ops = phi_ops or {}

    def conc(self, v):
        """concrete interval of a form for x in [0, xmax]; upper end of frac part is open but we
        return the closed hull"""
        N = int(self.xmax)
        # a*x + b*n = (a+b)*n + a*f, n in [0,N], f in [0,1)
        s = v.a + v.b
        cands_n = [0, N]
        lo = min(s * n for n in cands_n) + min(0, v.a) + v.lo
        hi = max(s * n for n in cands_n) + max(0, v.a) + v.hi
        return lo, hi

    def ev(self, t):
        if t == self.x: return FL(1, 0, 0, 0, False)
        k = t[0]
        if k == 'c':
            if t[1] == 'f64': c = f64_from_bits(t[2]); return FL(0, 0, c, c, False)
            if t[1] in INT_TYS or t[1] == 'bool': return FL(0, 0, t[2], t[2], True)
            return None
        if k == 'cast':
            kind, to, a = t[1], t[2], t[3]
            v = self.ev(a)
            if v is None: return None
            if kind == 'float_to_int':
                # truncation toward zero of a non-negative value: floor.  Only for the designated x.
                if a == self.x and to in INT_TYS:
                    w, s = INT_TYS[to]
                    if self.xmax < (1 << (w - (1 if s else 0))): return FL(0, 1, 0, 0, True)
                return None
            if kind == 'int_to_float': return FL(v.a, v.b, v.lo, v.hi, False)
            if kind == 'int_to_int':
                lo, hi = self.conc(v)
                w, s = INT_TYS.get(to, (0, False))
                tlo, thi = (-(1 << (w - 1)), (1 << (w - 1)) - 1) if s else (0, (1 << w) - 1)
                if w and lo >= tlo and hi <= thi: return v
                return None
            return None
        if k == 'op':
            op, ty, a, b = t[1], t[2], t[3], t[4]
            va, vb = self.ev(a), self.ev(b)
            if va is None or vb is None: return None
            if op == 'add': return FL(va.a + vb.a, va.b + vb.b, va.lo + vb.lo, va.hi + vb.hi, va.is_int and vb.is_int)
            if op == 'sub': return FL(va.a - vb.a, va.b - vb.b, va.lo - vb.hi, va.hi - vb.lo, va.is_int and vb.is_int)
            if op == 'bitor' and va.is_int and vb.a == 0 and vb.b == 0 and vb.lo == vb.hi and vb.lo >= 0:
                # n | c  in  [n, n + c]
                return FL(va.a, va.b, va.lo, va.hi + vb.hi, True)
            if op == 'bitand' and va.is_int and vb.a == 0 and vb.b == 0 and vb.lo == vb.hi and vb.lo >= 0:
                m = int(vb.lo)
                lo, hi = self.conc(va)
                if lo >= 0 and hi <= m and (m & (m + 1)) == 0: return va      # mask keeps every bit
                return FL(0, 0, 0, m, True)
            if op == 'shr' and va.is_int and va.a == 0 and va.b == 0 and vb.lo == vb.hi and va.lo >= 0:
                s = int(vb.lo); return FL(0, 0, int(va.lo) >> s, int(va.hi) >> s, True)
            if op == 'div' and va.is_int and va.a == 0 and va.b == 0 and vb.a == 0 and vb.b == 0 and vb.lo == vb.hi and vb.lo > 0 and va.lo >= 0:
                s_ = int(vb.lo); return FL(0, 0, int(va.lo) // s_, int(va.hi) // s_, True)
            if op == 'rem' and va.is_int and vb.a == 0 and vb.b == 0 and vb.lo == vb.hi and vb.lo > 0:
                m = int(vb.lo); lo, hi = self.conc(va)
                if lo >= 0 and hi < m: return va
                return FL(0, 0, 0, m - 1, True)
            return None
        if k == 'un' and t[1] == 'neg':
            v = self.ev(t[3])
            if v is None: return None
            return FL(-v.a, -v.b, -v.hi, -v.lo, v.is_int)
        if k == 'phi':
            ops = self.phi_ops.get(t)
            if not ops: return None
            vs = [self.ev(o) for o in ops]
            if any(v is None for v in vs): return None
            a, b = vs[0].a, vs[0].b
            if all(v.a == a and v.b == b for v in vs):
                return FL(a, b, min(v.lo for v in vs), max(v.hi for v in vs), all(v.is_int for v in vs))
            los, his = zip(*[self.conc(v) for v in vs])
            return FL(0, 0, min(los), max(his), all(v.is_int for v in vs))
        return None
