"""E6' — unsigned integer terms with floor divisions by constants, decided by residue classes.

A term built from +, -, *, `<< c`, `>> c`, `/ c`, `% c`, `& (2^j - 1)` over integer unknowns is, on
each residue class of its unknowns modulo a suitable m, a polynomial: with v = m*k_v + rho_v every
`floor(L / d)` whose dividend L is linear with coefficients divisible by d becomes
`L' + floor(const / d)`.  Two terms are equal for all (non-wrapping) integer values iff their
polynomials are equal on every residue class — a finite case split followed by polynomial identity,
exact, no search over values.  (What is *not* modelled: wrap-around of the machine type — the
result is "equal / different as integer expressions when nothing wraps", the same reading as
`ipoly` — and signed division, which truncates instead of flooring: refused.)

Unknown sub-terms (calls, divisions by a non-constant, symbols) are atoms: opaque integer
variables keyed by the term itself, never split.
"""
from fractions import Fraction
from itertools import product
from math import gcd
from poly import Poly
from mir import INT_TYS

UNSIGNED = ('u8', 'u16', 'u32', 'u64', 'u128', 'usize')


class NeedModulus(Exception):
    pass


class Refused(Exception):
    pass


def _pow2(c):
    return c > 0 and (c & (c - 1)) == 0


def fdiv(p, d):
    """floor(p / d) for a Poly whose unknowns are integers; needs every non-constant coefficient divisible by d"""
    out = {}
    for mono, c in p.d.items():
        if mono == ():
            out[mono] = Fraction((c.numerator // c.denominator) // d) if c.denominator == 1 else None
            if out[mono] is None: raise Refused("non-integer constant")
        else:
            q = c / d
            if q.denominator != 1: raise NeedModulus(d)
            out[mono] = q
    return Poly({k: v for k, v in out.items() if v != 0})


def divisors(t, acc=None):
    """constant divisors appearing in the term (to choose the modulus)"""
    if acc is None: acc = []
    if isinstance(t, tuple) and t and t[0] == 'op':
        n, a, b = t[1], t[3], t[4]
        if b[0] == 'c' and b[1] in INT_TYS:
            if n == 'shr': acc.append(2 ** b[2])
            elif n in ('div', 'rem') and b[2] > 0: acc.append(b[2])
            elif n == 'bitand' and _pow2(b[2] + 1): acc.append(b[2] + 1)
        if a[0] == 'c' and a[1] in INT_TYS and n == 'bitand' and _pow2(a[2] + 1): acc.append(a[2] + 1)
        divisors(a, acc); divisors(b, acc)
    elif isinstance(t, tuple) and t and t[0] in ('cast', 'un'):
        divisors(t[3], acc)
    return acc


def ev(t, env, atoms):
    """Poly of term t; env: term -> Poly for the unknowns (already in residue form)"""
    if t in env: return env[t]
    k = t[0]
    if k == 'c' and t[1] in INT_TYS: return Poly.const(t[2])
    if k == 'cast' and t[1] == 'int_to_int': return ev(t[3], env, atoms)
    if k == 'op':
        n = t[1]
        if n in ('add', 'sub', 'mul'):
            a, b = ev(t[3], env, atoms), ev(t[4], env, atoms)
            return a + b if n == 'add' else (a - b if n == 'sub' else a * b)
        cb = t[4] if t[4][0] == 'c' and t[4][1] in INT_TYS else None
        ca = t[3] if t[3][0] == 'c' and t[3][1] in INT_TYS else None
        if n == 'shl' and cb is not None: return ev(t[3], env, atoms) * Poly.const(2 ** cb[2])
        if n in ('shr', 'div', 'rem') and cb is not None and t[2] not in UNSIGNED: raise Refused("signed %s" % n)
        if n == 'shr' and cb is not None: return fdiv(ev(t[3], env, atoms), 2 ** cb[2])
        if n == 'div' and cb is not None and cb[2] > 0: return fdiv(ev(t[3], env, atoms), cb[2])
        if n == 'rem' and cb is not None and cb[2] > 0:
            a = ev(t[3], env, atoms); return a - Poly.const(cb[2]) * fdiv(a, cb[2])
        if n == 'bitand':
            for c, o in ((cb, t[3]), (ca, t[4])):
                if c is not None and _pow2(c[2] + 1):
                    a = ev(o, env, atoms); return a - Poly.const(c[2] + 1) * fdiv(a, c[2] + 1)
    # opaque integer atom
    if t not in atoms: atoms[t] = "@%d" % len(atoms)
    return Poly.var(atoms[t])


def decide_equal(ta, tb, unknowns, env_a=None, env_b=None, max_modulus=64):
    """Are ta and tb the same function of the integer unknowns?
    unknowns: list of names; env_a / env_b: functions base -> {term: Poly} building the term
    environment of each side from base = {name: Poly of that unknown in residue form}.
    Returns (True, info) | (False, witness) | (None, reason)."""
    ds = divisors(ta) + divisors(tb)
    L = 1
    for d in ds: L = L * d // gcd(L, d)
    m = L
    while m <= max_modulus:
        try:
            cases = 0
            for rho in product(range(m), repeat=len(unknowns)):
                base = {v: Poly.const(m) * Poly.var(v) + Poly.const(r) for v, r in zip(unknowns, rho)}
                atoms = {}
                pa = ev(ta, env_a(base), atoms); pb = ev(tb, env_b(base), atoms)
                cases += 1
                if pa != pb:
                    return False, {"modulus": m, "residues": dict(zip(unknowns, rho)), "left": repr(pa), "right": repr(pb)}
            return True, {"modulus": m, "cases": cases}
        except NeedModulus:
            m *= max(L, 2)
        except Refused as ex:
            return None, str(ex)
    return None, "no modulus <= %d makes every division exact" % max_modulus


def poly_on_classes(t, unknowns, env, max_modulus=64, atoms=None):
    """{residue tuple: Poly} of t, or None; `atoms` (term -> name) is shared by the caller between
    the terms it wants to compare"""
    if atoms is None: atoms = {}
    ds = divisors(t); L = 1
    for d in ds: L = L * d // gcd(L, d)
    m = L
    while m <= max_modulus:
        try:
            out = {}
            for rho in product(range(m), repeat=len(unknowns)):
                base = {v: Poly.const(m) * Poly.var(v) + Poly.const(r) for v, r in zip(unknowns, rho)}
                out[rho] = (ev(t, env(base), atoms), base)
            return m, out
        except NeedModulus:
            m *= max(L, 2)
        except Refused:
            return None
    return None
