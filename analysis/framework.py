"""Check driver: runs the rule module of a property, matches reports against known_findings.json,
writes evidence and replay files, prints VIOLATION / KNOWN-FINDING lines, sets the exit code."""
import argparse, importlib, json, os, sys, time, traceback

HERE = os.path.dirname(os.path.abspath(__file__))
VERIF = os.path.dirname(HERE)
sys.path.insert(0, HERE)
import extract
from sym import show

EVID = os.path.join(VERIF, "evidence")
REPLAY = os.path.join(EVID, "replay")
KNOWN = os.path.join(VERIF, "known_findings.json")


class Machinery(Exception):
    """The checker itself is broken (control failed); not a verdict about /repo."""


class Ctx:
    def __init__(self, pid, tier, repo=None):
        self.pid = pid; self.tier = tier; self.repo = repo
        self.instances = []      # dicts: key, clause, status, detail, at, kind(D/N)
        self.functions = set()
        self.configs = set()
        self.samples = []
        self.undecided_clauses = []   # clauses of the property this machinery does not decide
        self.assumptions = []
        self.floors = []         # (name, measured, floor)
        self.extra = {}
        self.controls = []       # (name, ok)
        self.t0 = time.time()

    # -- inputs --------------------------------------------------------------------------------
    def crate(self, config="rel"):
        c = extract.extract(config, repo=self.repo)
        self.configs.add(config)
        return c

    def fixtures(self, config="rel"):
        c = extract.extract(config, repo=os.path.join(VERIF, "fixtures"), crate_name="hpx_fixtures")
        return c

    # -- verdicts ------------------------------------------------------------------------------
    def report(self, clause, key, ok, detail="", at=None, kind="D", sample=None):
        """One rule instance.  ok: True (holds) / False (violated) / None (cannot decide)."""
        status = "holds" if ok is True else ("violated" if ok is False else "undecided")
        inst = {"clause": clause, "key": key, "status": status, "detail": detail, "at": at, "kind": kind}
        self.instances.append(inst)
        if sample is not None and len(self.samples) < 40:
            self.samples.append(sample)
        return ok is True

    def holds(self, clause, key, detail="", at=None, kind="D", sample=None):
        return self.report(clause, key, True, detail, at, kind, sample)

    def violated(self, clause, key, detail="", at=None, kind="D"):
        return self.report(clause, key, False, detail, at, kind)

    def undecided(self, clause, key, detail="", at=None, kind="D"):
        return self.report(clause, key, None, detail, at, kind)

    def anchor(self, crate, path, clause="anchor"):
        b = crate.body(path)
        if b is None:
            self.undecided(clause, "anchor:" + path, "anchor function %s not found in the crate (moved or renamed?)" % path)
        else:
            self.functions.add(path)
        return b

    def floor(self, name, measured, floor):
        self.floors.append((name, measured, floor))
        if measured < floor:
            self.undecided("floor", "floor:" + name,
                           "rule matched %d instances, fewer than the %d confirmed by hand when it was armed" % (measured, floor))

    def control(self, name, ok, detail=""):
        self.controls.append((name, bool(ok), detail))
        if not ok:
            raise Machinery("control '%s' failed: %s" % (name, detail))

    def not_decided(self, text):
        self.undecided_clauses.append(text)

    def assume(self, text):
        if text not in self.assumptions: self.assumptions.append(text)


def load_known():
    if not os.path.exists(KNOWN): return {"open": [], "fixed": []}
    with open(KNOWN) as fh: return json.load(fh)


LEVELS = {}   # pid -> (category, explanation) filled from MANIFEST.json


def manifest_level(pid):
    try:
        with open(os.path.join(VERIF, "MANIFEST.json")) as fh: m = json.load(fh)
        for c in m["checks"]:
            if c["property_id"] == pid: return c["level_claimed"]["category"], c["level_claimed"]["text"], c.get("technique", "")
    except Exception:
        pass
    return "other", "", ""


def run_property(pid, tier, repo=None, quiet=False, write=True):
    mod = importlib.import_module("rules." + pid.lower())
    ctx = Ctx(pid, tier, repo)
    machinery_error = None
    try:
        mod.run(ctx)
    except extract.ExtractError as e:
        ctx.undecided("build", "build", "fact extraction failed: %s" % str(e)[-1500:])
    except Machinery as e:
        machinery_error = str(e)
    except Exception as e:
        # an analysis crash on an edited tree must not pass silently: fail closed, labelled
        ctx.undecided("analysis", "analysis-crash", "analysis raised %s: %s\n%s" % (type(e).__name__, e, traceback.format_exc()[-1500:]))
    known = load_known()
    open_keys = {(k["property"], k["key"]): k for k in known.get("open", [])}
    bad = [i for i in ctx.instances if i["status"] != "holds"]
    viol_lines = []; known_lines = []
    os.makedirs(REPLAY, exist_ok=True)
    seen = set()
    for i in bad:
        if i["key"] in seen: continue
        seen.add(i["key"])
        kf = open_keys.get((pid, i["key"]))
        if kf is not None and i["status"] == "violated":
            known_lines.append("KNOWN-FINDING: property=%s %s — %s" % (pid, i["key"], kf.get("what", i["detail"])))
            continue
        safe = "".join(ch if ch.isalnum() or ch in "-_." else "_" for ch in i["key"])[:120]
        rp = os.path.join(REPLAY, "%s-%s.json" % (pid, safe))
        if write:
            with open(rp, "w") as fh:
                json.dump({"property": pid, "verdict": "VIOLATED" if i["status"] == "violated" else "UNDECIDED",
                           "clause": i["clause"], "key": i["key"], "construct": i["at"], "detail": i["detail"],
                           "tier": tier, "how_to_rerun": "./check %s --tier %s" % (pid, tier)}, fh, indent=1)
        viol_lines.append("VIOLATION property=%s replay=%s" % (pid, rp))
        if not quiet:
            print("%s %s [%s] %s: %s" % ("VIOLATED " if i["status"] == "violated" else "UNDECIDED", pid, i["clause"], i["key"], i["detail"]))
            if i["at"]: print("    at %s" % i["at"])
    wall = time.time() - ctx.t0
    if write:
        write_evidence(ctx, pid, tier, wall, len(viol_lines), known_lines, machinery_error)
    if not quiet:
        for l in known_lines: print(l)
        for l in viol_lines: print(l)
        n_ok = sum(1 for i in ctx.instances if i["status"] == "holds")
        print("%s tier=%s: %d rule instances hold, %d reported, %d known; %d functions analysed; configs=%s; %.1fs"
              % (pid, tier, n_ok, len(viol_lines), len(known_lines), len(ctx.functions), sorted(ctx.configs), wall))
    if machinery_error:
        print("MACHINERY-BROKEN %s: %s" % (pid, machinery_error))
        return 2, ctx
    return (1 if viol_lines else 0), ctx


def write_evidence(ctx, pid, tier, wall, nviol, known_lines, machinery_error):
    os.makedirs(EVID, exist_ok=True)
    level, ltext, technique = manifest_level(pid)
    insts = ctx.instances
    decided = [i for i in insts if i["status"] in ("holds", "violated")]
    distinct = len({(i["clause"], i["key"]) for i in decided})
    n_hold = sum(1 for i in insts if i["status"] == "holds")
    by_clause = {}
    for i in insts:
        d = by_clause.setdefault(i["clause"], {"kind": i["kind"], "holds": 0, "violated": 0, "undecided": 0})
        d[i["status"]] += 1
    samples = list(ctx.samples)
    if not samples:
        samples = [{"clause": i["clause"], "instance": i["key"], "status": i["status"], "detail": i["detail"][:300]} for i in insts[:12]]
    cov = {
        "evaluations": max(1, len(insts)),
        "distinct_nontrivial": max(distinct, 0),
        "rule": "one evaluation = one rule instance (a function, call site, table entry, bit-vector identity or path condition) decided from the MIR of /repo's current tree; distinct = distinct (clause, instance key); an instance is non-trivial iff the rule had to inspect a construct of the crate to decide it (anchors and floors are not counted)",
        "samples": samples[:40],
        "explanation": ltext or "static analysis of the compiler's MIR; see DESIGN.md",
        "obligations": len(insts),
        "discharged": n_hold,
        "checker_cmd": "./check %s --tier %s" % (pid, tier),
        "trusted_base": ["rustc nightly front end, MIR construction and constant evaluator", "analysis/*.py (this checker)"] + ctx.assumptions,
        "functions_analysed": sorted(ctx.functions),
        "n_functions_analysed": len(ctx.functions),
        "configs": sorted(ctx.configs),
        "clauses": by_clause,
        "clauses_not_decided": ctx.undecided_clauses,
        "floors": [{"name": n, "measured": m, "floor": f} for n, m, f in ctx.floors],
        "controls": [{"name": n, "ok": ok} for n, ok, _ in ctx.controls],
        "known_findings_reported": known_lines,
        "technique": technique,
        "exhaustive": False,
    }
    cov.update(ctx.extra)
    if machinery_error: cov["machinery_error"] = machinery_error
    ev = {"property_id": pid, "tier": tier, "seed": int(os.environ.get("VERIF_SEED", "0") or 0), "level": level,
          "coverage": cov, "assumptions": ctx.assumptions, "wall_s": round(wall, 2), "violations": nviol}
    with open(os.path.join(EVID, pid + ".json"), "w") as fh:
        json.dump(ev, fh, indent=1, default=str)


def main(argv=None):
    ap = argparse.ArgumentParser()
    ap.add_argument("pid")
    ap.add_argument("--tier", default=os.environ.get("VERIF_TIER", "quick"), choices=["quick", "thorough"])
    ap.add_argument("--repo", default=None, help="analyse another checkout (mutant testing); evidence is not written")
    ap.add_argument("--no-write", action="store_true")
    a = ap.parse_args(argv)
    pids = ["C%02d" % i for i in range(1, 21)] if a.pid.lower() == "all" else [a.pid.upper()]
    rc = 0
    for pid in pids:
        r, _ = run_property(pid, a.tier, repo=a.repo, write=not (a.repo or a.no_write))
        rc = max(rc, r)
    return rc


if __name__ == "__main__":
    sys.exit(main())
