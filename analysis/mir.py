"""Loader for fact files produced by /verif/driver + CFG utilities (dominators, post-dominators,
control dependence, reachability, def/use) over the compiler's MIR.  Nothing here executes code of
the analysed crate."""
import json, os, struct

INT_TYS = {"u8": (8, False), "u16": (16, False), "u32": (32, False), "u64": (64, False),
           "u128": (128, False), "usize": (64, False), "i8": (8, True), "i16": (16, True),
           "i32": (32, True), "i64": (64, True), "i128": (128, True), "isize": (64, True)}


def tykey(t):
    """Short string for a driver type descriptor."""
    k = t["k"]
    if k == "int": return t["n"]
    if k == "float": return "f%d" % t["w"]
    if k in ("bool", "char", "str", "never"): return k
    if k in ("adt", "dyn", "param", "other", "deep"): return t["s"]
    if k == "ref": return "&%s%s" % ("mut " if t["mut"] else "", tykey(t["to"]))
    if k == "ptr": return "*%s%s" % ("mut " if t["mut"] else "const ", tykey(t["to"]))
    if k == "array": return "[%s; %s]" % (tykey(t["elem"]), t["len"])
    if k == "slice": return "[%s]" % tykey(t["elem"])
    if k == "tuple": return "(%s)" % ", ".join(tykey(x) for x in t["elems"])
    if k in ("fndef", "closure"): return "%s{%s}" % (k, t["path"])
    return k


class Body:
    def __init__(self, j, crate):
        self.j = j
        self.crate = crate
        self.path = j.get("path")
        self.kind = j.get("kind")
        self.vis = j.get("vis")
        self.span = j["span"]
        self.arg_count = j["arg_count"]
        self.locals = j["locals"]
        self.blocks = j["blocks"]
        self.debug = j["debug"]
        self.promoted = [Body(dict(p, path="%s[promoted %d]" % (self.path, i)), crate)
                         for i, p in enumerate(j.get("promoted", []))]
        self._succ = None
        self._dom = None
        self._pdom = None

    # -- names ---------------------------------------------------------------------------------
    def param_names(self):
        names = {}
        for d in self.debug:
            if d["arg"] is not None and "l" in d["val"] and not d["val"]["p"]:
                names[d["val"]["l"]] = d["name"]
        return [names.get(i, "arg%d" % i) for i in range(1, self.arg_count + 1)]

    def local_names(self):
        names = {}
        for d in self.debug:
            if "l" in d["val"] and not d["val"]["p"]:
                names.setdefault(d["val"]["l"], d["name"])
        return names

    def local_ty(self, l):
        return self.locals[l]["ty"]

    # -- CFG -----------------------------------------------------------------------------------
    def succ(self):
        if self._succ is None:
            out = []
            for b in self.blocks:
                t = b["term"]; k = t["k"]
                if k == "goto": s = [t["target"]]
                elif k == "switch":
                    s = [x[1] for x in t["targets"]] + [t["otherwise"]]
                elif k in ("call", "assert", "drop"):
                    s = [t["target"]] if t.get("target") is not None else []
                else: s = []
                out.append(s)
            self._succ = out
        return self._succ

    def preds(self):
        p = [[] for _ in self.blocks]
        for i, ss in enumerate(self.succ()):
            for s in ss:
                if i not in p[s]: p[s].append(i)
        return p

    def reachable(self, start=0, avoid=()):
        seen = set(); st = [start]
        if start in avoid: return seen
        while st:
            b = st.pop()
            if b in seen: continue
            seen.add(b)
            for s in self.succ()[b]:
                if s not in seen and s not in avoid: st.append(s)
        return seen

    def rpo(self):
        """reverse post-order index of every reachable block (a topological order of the CFG
        without its back edges: sequential program order)"""
        succ = self.succ(); seen = set(); post = []
        stack = [(0, iter(succ[0]))]; seen.add(0)
        while stack:
            b, it = stack[-1]
            for s in it:
                if s not in seen and not self.blocks[s]["cleanup"]:
                    seen.add(s); stack.append((s, iter(succ[s]))); break
            else:
                post.append(b); stack.pop()
        return {b: i for i, b in enumerate(reversed(post))}

    def natural_loops(self):
        """head -> set of blocks of the natural loop(s) of that head (back edge = edge to a block
        that is not later in reverse post-order); rpo-reachable, non-cleanup blocks only"""
        if getattr(self, "_loops", None) is not None: return self._loops
        rpo = self.rpo(); succ = self.succ(); preds = self.preds()
        loops = {}
        for b in rpo:
            for t in succ[b]:
                if t in rpo and rpo[t] <= rpo[b]:
                    body = loops.setdefault(t, {t})
                    st = [b]
                    while st:
                        x = st.pop()
                        if x in body: continue
                        body.add(x)
                        for p in preds[x]:
                            if p in rpo: st.append(p)
        self._loops = loops
        return loops

    def has_loops(self):
        return bool(self.natural_loops())

    def return_blocks(self):
        return [i for i, b in enumerate(self.blocks) if b["term"]["k"] == "return"]

    def dominators(self):
        """dom[b] = set of blocks dominating b (iterative; bodies are small)."""
        if self._dom is None:
            n = len(self.blocks); reach = self.reachable()
            preds = self.preds()
            dom = {b: set(reach) for b in reach}
            dom[0] = {0}
            changed = True
            order = sorted(reach)
            while changed:
                changed = False
                for b in order:
                    if b == 0: continue
                    ps = [p for p in preds[b] if p in reach]
                    new = set.intersection(*[dom[p] for p in ps]) if ps else set()
                    new = new | {b}
                    if new != dom[b]:
                        dom[b] = new; changed = True
            self._dom = dom
        return self._dom

    def postdominators(self):
        """pdom[b] = blocks post-dominating b with respect to normal Return exits only
        (diverging exits do not count as exits: a block that only reaches a panic has pdom = all)."""
        if self._pdom is None:
            reach = self.reachable(); succ = self.succ()
            rets = [r for r in self.return_blocks() if r in reach]
            EXIT = -1
            nodes = set(reach) | {EXIT}
            s2 = {b: [s for s in succ[b] if s in reach] for b in reach}
            for r in rets: s2[r] = [EXIT]
            pd = {b: set(nodes) for b in nodes}
            pd[EXIT] = {EXIT}
            changed = True
            while changed:
                changed = False
                for b in reach:
                    ss = s2[b]
                    new = set.intersection(*[pd[s] for s in ss]) if ss else set(nodes)
                    new = new | {b}
                    if new != pd[b]:
                        pd[b] = new; changed = True
            self._pdom = pd
        return self._pdom

    def dominates(self, a, b):
        return a in self.dominators().get(b, ())

    # -- iteration helpers -----------------------------------------------------------------------
    def calls(self):
        """(bb, term) of every Call terminator in non-cleanup reachable blocks."""
        reach = self.reachable()
        for i, b in enumerate(self.blocks):
            if i in reach and not b["cleanup"] and b["term"]["k"] == "call":
                yield i, b["term"]

    def assigns(self):
        reach = self.reachable()
        for i, b in enumerate(self.blocks):
            if i in reach and not b["cleanup"]:
                for si, s in enumerate(b["stmts"]):
                    if s["k"] == "assign": yield i, si, s


def callee_name(func):
    """Best static name of a call target: the resolved impl if the compiler could resolve it."""
    if func["k"] != "fn": return None
    return func.get("resolved", func["path"])


class Crate:
    def __init__(self, path):
        with open(path) as fh:
            self.j = json.load(fh)
        self.file = path
        self.bodies = {}
        for b in self.j["bodies"]:
            body = Body(b, self)
            self.bodies[body.path] = body
        self.statics = {s["path"]: s for s in self.j["statics"]}
        self.adts = self.j["adts"]
        self.impls = self.j["impls"]
        self.target_features = self.j.get("target_features", [])
        self._callers = None

    def body(self, path):
        return self.bodies.get(path)

    def field_name(self, adt, variant, idx):
        a = self.adts.get(adt)
        if not a: return str(idx)
        try: return a["variants"][variant]["fields"][idx]["name"]
        except (IndexError, KeyError): return str(idx)

    def field_index(self, adt, name, variant=0):
        a = self.adts[adt]
        for i, f in enumerate(a["variants"][variant]["fields"]):
            if f["name"] == name: return i
        raise KeyError((adt, name))

    def variant_index(self, adt, name):
        for i, v in enumerate(self.adts[adt]["variants"]):
            if v["name"] == name: return i
        raise KeyError((adt, name))

    def variant_names(self, adt):
        return [v["name"] for v in self.adts[adt]["variants"]]

    def static_bytes(self, path):
        s = self.statics[path]
        return bytes.fromhex(s["bytes"]) if s.get("bytes") is not None else None

    def static_table(self, path):
        """Decode a static array of integers into a list of Python ints."""
        s = self.statics[path]; t = s["ty"]
        assert t["k"] == "array", t
        e = t["elem"]; raw = self.static_bytes(path)
        if e["k"] == "int":
            w = e["w"] // 8
            return [int.from_bytes(raw[i:i + w], "little", signed=e["s"]) for i in range(0, len(raw), w)]
        if e["k"] == "float" and e["w"] == 64:
            return [struct.unpack("<d", raw[i:i + 8])[0] for i in range(0, len(raw), 8)]
        raise ValueError("unsupported element type %r" % (e,))

    def impls_of(self, trait):
        return [i for i in self.impls if i["trait"] == trait]

    def callees(self, path):
        b = self.bodies.get(path)
        if b is None: return set()
        out = set()
        for bodyish in [b] + b.promoted:
            for bb, t in bodyish.calls():
                n = callee_name(t["func"])
                if n: out.add(n)
        return out

    def reaches(self, src, dst_pred, max_depth=6):
        """does the static call graph (local bodies, resolved names) lead from src to a callee
        satisfying dst_pred?"""
        seen = set(); frontier = [src]
        for _ in range(max_depth):
            nxt = []
            for f in frontier:
                for c in self.callees(f):
                    if dst_pred(c): return True
                    if c not in seen and c in self.bodies:
                        seen.add(c); nxt.append(c)
            frontier = nxt
        return False

    def callers(self):
        """callee path -> list of (caller path, bb) over the whole crate (resolved names)."""
        if self._callers is None:
            c = {}
            for b in self.bodies.values():
                for bodyish in [b] + b.promoted:
                    for bb, t in bodyish.calls():
                        n = callee_name(t["func"])
                        if n: c.setdefault(n, []).append((b.path, bb))
            self._callers = c
        return self._callers


def f64_from_bits(bits):
    return struct.unpack("<d", int(bits).to_bytes(8, "little"))[0]


def f64_to_bits(x):
    return int.from_bytes(struct.pack("<d", x), "little")
