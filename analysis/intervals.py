"""E8 — integer interval evaluation of terms (sound over-approximation, machine integers with
wrap-around treated as 'unknown': any overflow of the result type yields the full type range)."""
from mir import INT_TYS
from sym import is_const, CMP, NEG, SWAP


def ty_range(ty):
    if ty == 'bool': return (0, 1)
    if ty in INT_TYS:
        w, s = INT_TYS[ty]
        return (-(1 << (w - 1)), (1 << (w - 1)) - 1) if s else (0, (1 << w) - 1)
    return None


class Intervals:
    def __init__(self, phi_ops=None, facts=(), tyof=None, bounds=None, max_depth=40):
        self.phi_ops = phi_ops or {}
        self.facts = list(facts)
        self.tyof = tyof or (lambda t: None)
        self.bounds = bounds or {}        # term -> (lo, hi) given externally (e.g. proven field ranges)
        self.max_depth = max_depth
        self._memo = {}
        self._active = set()

    def ival(self, t, depth=0):
        if t in self._memo: return self._memo[t]
        if t in self._active or depth > self.max_depth:
            return self.type_range(t)
        self._active.add(t)
        r = self._ival(t, depth)
        r = self.refine(t, r)
        self._active.discard(t)
        self._memo[t] = r
        return r

    def type_range(self, t):
        ty = None
        if t[0] in ('op', 'un', 'cast'): ty = t[2]
        elif t[0] == 'c': ty = t[1]
        if ty is None: ty = self.tyof(t)
        return ty_range(ty) if ty else None

    def refine(self, t, r):
        if t in self.bounds:
            b = self.bounds[t]
            r = b if r is None else (max(r[0], b[0]), min(r[1], b[1]))
        if r is None: return r
        lo, hi = r
        for f in self.facts:
            if f[0] != 'b' or f[1][0] != 'op' or f[1][1] not in CMP: continue
            op, a, b, pos = f[1][1], f[1][3], f[1][4], f[2]
            if a is not t and a != t and b != t: continue
            if not pos: op = NEG[op]
            if b == t: a, b, op = b, a, SWAP[op]
            if a != t: continue
            o = self.ival(b) if b != t else None
            if o is None: continue
            if op == 'lt': hi = min(hi, o[1] - 1)
            elif op == 'le': hi = min(hi, o[1])
            elif op == 'gt': lo = max(lo, o[0] + 1)
            elif op == 'ge': lo = max(lo, o[0])
            elif op == 'eq': lo, hi = max(lo, o[0]), min(hi, o[1])
        return (lo, hi)

    def _ival(self, t, depth):
        k = t[0]
        if k == 'c':
            if t[1] in INT_TYS or t[1] == 'bool': return (t[2], t[2])
            return None
        if k == 'phi':
            ops = self.phi_ops.get(t)
            if not ops: return self.type_range(t)
            lo = hi = None
            for o in ops:
                r = self.ival(o, depth + 1)
                if r is None: return self.type_range(t)
                lo = r[0] if lo is None else min(lo, r[0]); hi = r[1] if hi is None else max(hi, r[1])
            tr = self.type_range(t)
            return (lo, hi)
        if k == 'cast':
            kind, to, a = t[1], t[2], t[3]
            tr = ty_range(to)
            if kind == 'int_to_int':
                r = self.ival(a, depth + 1)
                if r is None or tr is None: return tr
                if r[0] >= tr[0] and r[1] <= tr[1]: return r
                return tr
            if kind == 'float_to_int': return tr
            return tr
        if k == 'op':
            op, ty, a, b = t[1], t[2], t[3], t[4]
            tr = ty_range(ty)
            if op in CMP: return (0, 1)
            ra, rb = self.ival(a, depth + 1), self.ival(b, depth + 1)
            if tr is None: return None
            if ra is None or rb is None:
                if op == 'bitand':
                    for r in (ra, rb):
                        if r is not None and r[0] >= 0: return (0, r[1])
                return tr
            res = None
            if op == 'add': res = (ra[0] + rb[0], ra[1] + rb[1])
            elif op == 'sub': res = (ra[0] - rb[1], ra[1] - rb[0])
            elif op == 'mul':
                c = [ra[0] * rb[0], ra[0] * rb[1], ra[1] * rb[0], ra[1] * rb[1]]; res = (min(c), max(c))
            elif op == 'div' and rb[0] > 0 and ra[0] >= 0: res = (ra[0] // rb[1], ra[1] // rb[0])
            elif op == 'rem' and rb[0] > 0 and ra[0] >= 0: res = (0, min(ra[1], rb[1] - 1))
            elif op == 'shl' and rb[0] >= 0 and rb[1] < 128 and ra[0] >= 0: res = (ra[0] << rb[0], ra[1] << rb[1])
            elif op == 'shr' and rb[0] >= 0 and ra[0] >= 0: res = (ra[0] >> min(rb[1], 200), ra[1] >> rb[0])
            elif op == 'shr' and rb[0] >= 0 and rb[1] < 200: res = (ra[0] >> rb[0] if ra[0] < 0 else ra[0] >> rb[1], ra[1] >> rb[0] if ra[1] >= 0 else ra[1] >> rb[1])
            elif op == 'bitand' and (ra[0] >= 0 or rb[0] >= 0):
                m = min(x[1] for x in (ra, rb) if x[0] >= 0); res = (0, m)
            elif op in ('bitor', 'bitxor') and ra[0] >= 0 and rb[0] >= 0:
                n = max(ra[1], rb[1]).bit_length(); res = (max(ra[0], rb[0]) if op == 'bitor' else 0, (1 << n) - 1)
            if res is None: return tr
            if res[0] < tr[0] or res[1] > tr[1]: return tr     # may wrap: give up precision, stay sound
            return res
        if k == 'un':
            if t[1] == 'not' and t[2] == 'bool': return (0, 1)
            return self.type_range(t)
        return self.type_range(t)
