"""E6 — polynomials with exact rational coefficients over named inputs, for identities of real
arithmetic that a property states 'to rounding' (never used to claim a float result)."""
from fractions import Fraction
from mir import f64_from_bits, INT_TYS


class Poly:
    def __init__(self, d=None):
        self.d = {k: v for k, v in (d or {}).items() if v != 0}

    @staticmethod
    def const(c): return Poly({(): Fraction(c)})

    @staticmethod
    def var(n): return Poly({((n, 1),): Fraction(1)})

    def __add__(self, o):
        d = dict(self.d)
        for k, v in o.d.items(): d[k] = d.get(k, 0) + v
        return Poly(d)

    def __neg__(self): return Poly({k: -v for k, v in self.d.items()})

    def __sub__(self, o): return self + (-o)

    def __mul__(self, o):
        d = {}
        for k1, v1 in self.d.items():
            for k2, v2 in o.d.items():
                m = {}
                for n, p in k1 + k2: m[n] = m.get(n, 0) + p
                k = tuple(sorted(m.items()))
                d[k] = d.get(k, 0) + v1 * v2
        return Poly(d)

    def __eq__(self, o): return isinstance(o, Poly) and self.d == o.d

    def __hash__(self): return hash(tuple(sorted(self.d.items())))

    def is_const(self, c=None):
        if any(k != () for k in self.d): return False
        return c is None or self.d.get((), 0) == c

    def subst(self, env):
        r = Poly()
        for k, v in self.d.items():
            t = Poly.const(v)
            for n, p in k:
                x = env[n] if n in env else Poly.var(n)
                if not isinstance(x, Poly): x = Poly.const(x)
                for _ in range(p): t = t * x
            r = r + t
        return r

    def __repr__(self):
        if not self.d: return "0"
        out = []
        for k, v in sorted(self.d.items()):
            m = "*".join("%s^%d" % (n, p) if p > 1 else n for n, p in k)
            out.append("%s%s" % (v, ("*" + m) if m else ""))
        return " + ".join(out)


def to_poly(t, names, phi_ops=None, phi_gate=None, nonzero=frozenset()):
    """term -> Poly or None.  names: term -> variable name.  phi_gate: the engine's gated merges (only
    the zero guard `if v == 0.0 { v } else { f(v) }` with f(v) = c * v is read through);
    nonzero: terms known to differ from 0 on this path"""
    if t in names: return Poly.var(names[t])
    k = t[0]
    if k == 'phi' and phi_gate is not None:
        g = phi_gate.get(t)
        if g is not None and g[0][0] == 'op' and g[0][1] in ('lt', 'le', 'gt', 'ge'):
            # a guard on the magnitude of v (zero / subnormal against normal numbers) choosing between two
            # ways of computing the same thing: both sides must be the same polynomial; on the side
            # where |v| is at least a positive constant, v is known to be non-zero
            c = g[0]
            small, v = None, None
            for a, b_, flip in ((c[3], c[4], False), (c[4], c[3], True)):
                if a[0] == 'call' and isinstance(a[1], str) and a[1].endswith("::abs") and b_[0] == 'c' and b_[1] == 'f64' and 0 < b_[2] < (1 << 62):
                    v = a[2][0]
                    op = c[1] if not flip else {'lt': 'gt', 'le': 'ge', 'gt': 'lt', 'ge': 'le'}[c[1]]
                    small = op in ('lt', 'le')          # cond true <=> |v| small
            if v is not None:
                small_side, big_side = (g[1], g[2]) if small else (g[2], g[1])
                ps = to_poly(small_side, names, phi_ops, phi_gate, nonzero)
                pb = to_poly(big_side, names, phi_ops, phi_gate, nonzero | {v})
                if ps is not None and pb is not None and ps == pb: return pb
                return None
        if g is not None and g[0][0] == 'op' and g[0][1] in ('eq', 'ne') and any(x[0] == 'c' and x[1] == 'f64' and x[2] in (0, 1 << 63) for x in (g[0][3], g[0][4])):
            v = g[0][3] if g[0][4][0] == 'c' else g[0][4]
            zero_side, other = (g[1], g[2]) if g[0][1] == 'eq' else (g[2], g[1])
            pv = to_poly(v, names, phi_ops, phi_gate, nonzero)
            po = to_poly(other, names, phi_ops, phi_gate, nonzero | {v})
            if pv is not None and po is not None and (zero_side == v or (zero_side[0] == 'c' and zero_side[2] in (0, 1 << 63))):
                # the two sides agree at v = 0 when the other side is a constant multiple of v
                for mono, c in pv.d.items():
                    if c != 0 and mono in po.d:
                        ratio = po.d[mono] / c
                        if po == pv * Poly.const(ratio): return po
                        break
        return None
    if k == 'c':
        if t[1] == 'f64': return Poly.const(Fraction(f64_from_bits(t[2])))
        if t[1] in INT_TYS: return Poly.const(t[2])
        return None
    if k == 'op':
        a, b = to_poly(t[3], names, phi_ops, phi_gate, nonzero), to_poly(t[4], names, phi_ops, phi_gate, nonzero)
        if a is None or b is None: return None
        if t[1] == 'add': return a + b
        if t[1] == 'sub': return a - b
        if t[1] == 'mul': return a * b
        if t[1] == 'div' and b.is_const() and b.d.get((), 0) != 0: return a * Poly.const(1 / b.d[()])
        return None
    if k == 'un' and t[1] == 'neg':
        a = to_poly(t[3], names, phi_ops, phi_gate, nonzero)
        return None if a is None else -a
    if k == 'cast' and t[1] == 'int_to_float':
        return to_poly(t[3], names, phi_ops, phi_gate, nonzero)
    if k == 'call' and isinstance(t[1], str) and t[1].endswith("::from_bits") and len(t[2]) == 1:
        # from_bits(K + to_bits(P)) with K a multiple of 2^52: the exponent of P is shifted by K >> 52,
        # i.e. P * 2^(K >> 52) (exact in real arithmetic as long as the result stays a normal number)
        x = t[2][0]
        while x[0] == 'cast' and x[1] == 'int_to_int': x = x[3]
        if x[0] == 'call' and isinstance(x[1], str) and x[1].endswith("::to_bits"):
            return to_poly(x[2][0], names, phi_ops, phi_gate, nonzero)          # K = 0 folded away
        if x[0] == 'op' and x[1] == 'add':
            for kc, other in ((x[3], x[4]), (x[4], x[3])):
                while other[0] == 'cast' and other[1] == 'int_to_int': other = other[3]
                if kc[0] == 'c' and kc[1] in INT_TYS and kc[2] % (1 << 52) == 0 and other[0] == 'call' and isinstance(other[1], str) and other[1].endswith("::to_bits"):
                    inner = to_poly(other[2][0], names, phi_ops, phi_gate, nonzero)
                    if inner is None: return None
                    if kc[2] < 0 and other[2][0] not in nonzero:
                        return None          # bits(0.0) + (k << 52) with k < 0 are the bits of -inf: not v * 2^k at v = 0
                    sh = kc[2] >> 52 if kc[2] >= 0 else -((-kc[2]) >> 52)
                    return inner * Poly.const(Fraction(2) ** sh)
    return None


def interval_eval(t, names, box):
    """sound interval of a float term over a box {name: (lo, hi)} (real arithmetic)"""
    if t in names: return box[names[t]]
    k = t[0]
    if k == 'c' and t[1] == 'f64':
        c = Fraction(f64_from_bits(t[2])); return (c, c)
    if k == 'op':
        a, b = interval_eval(t[3], names, box), interval_eval(t[4], names, box)
        if a is None or b is None: return None
        if t[1] == 'add': return (a[0] + b[0], a[1] + b[1])
        if t[1] == 'sub': return (a[0] - b[1], a[1] - b[0])
        if t[1] == 'mul':
            c = [a[0] * b[0], a[0] * b[1], a[1] * b[0], a[1] * b[1]]; return (min(c), max(c))
    if k == 'un' and t[1] == 'neg':
        a = interval_eval(t[3], names, box)
        return None if a is None else (-a[1], -a[0])
    return None
