"""E5 — GF(2)-affine bit-vector interpretation of terms.

A w-bit value is a list of w entries (LSB first); an entry is
   (frozenset_of_atoms, c)   meaning  XOR of the atoms, XOR the constant bit c   (c in {0,1}), or
   None                       meaning unknown (top).
Atoms are (name, bit_index).  All transfer functions are exact on GF(2)-affine values or return
top; the claims proved with this domain are equalities of bit-vectors for ALL values of the atoms."""
from mir import INT_TYS
from sym import is_const, show

ZERO = (frozenset(), 0)
ONE = (frozenset(), 1)


def const_bits(v, w):
    v &= (1 << w) - 1
    return [ONE if (v >> k) & 1 else ZERO for k in range(w)]


def sym_bits(name, w, nbits=None):
    """w-bit value whose low nbits bits are free atoms and whose other bits are zero"""
    n = w if nbits is None else nbits
    return [(frozenset([(name, k)]), 0) if k < n else ZERO for k in range(w)]


def bxor(a, b):
    if a is None or b is None: return None
    return (a[0] ^ b[0], a[1] ^ b[1])


def band(a, b):
    if a == ZERO or b == ZERO: return ZERO
    if a == ONE: return b
    if b == ONE: return a
    if a is None or b is None: return None
    if a == b: return a
    return None


def bor(a, b):
    if a == ONE or b == ONE: return ONE
    if a == ZERO: return b
    if b == ZERO: return a
    if a is None or b is None: return None
    if a == b: return a
    return None


def bnot(a):
    return None if a is None else (a[0], a[1] ^ 1)


def maj(a, b, c):
    """majority of three bits if GF(2)-affine, else None"""
    xs = [a, b, c]
    if any(x is None for x in xs):
        known = [x for x in xs if x is not None]
        if known.count(ZERO) >= 2: return ZERO
        if known.count(ONE) >= 2: return ONE
        return None
    if xs.count(ZERO) >= 2: return ZERO
    if xs.count(ONE) >= 2: return ONE
    if ZERO in xs and ONE in xs:
        return [x for x in xs if x not in (ZERO, ONE)][0]
    if a == b: return a
    if a == c: return a
    if b == c: return b
    if a == bnot(b): return c
    if a == bnot(c): return b
    if b == bnot(c): return a
    return None


def add_bits(a, b, cin=ZERO):
    out = []; c = cin
    for x, y in zip(a, b):
        s = bxor(bxor(x, y), c) if (x is not None and y is not None and c is not None) else None
        out.append(s)
        c = maj(x, y, c)
    return out


def is_known(v):
    return all(x is not None for x in v)


def as_const(v):
    if not all(x is not None and not x[0] for x in v): return None
    return sum(x[1] << k for k, x in enumerate(v))


def fmt(v):
    def one(x):
        if x is None: return "?"
        if not x[0]: return str(x[1])
        s = "^".join("%s%d" % (n, k) for n, k in sorted(x[0]))
        return s + ("^1" if x[1] else "")
    return "[" + " ".join(one(x) for x in v) + "]"


class Bits:
    def __init__(self, crate, inputs=None, phi_ops=None, calls=None, tyof=None):
        """inputs: term -> bit list; calls: name -> f(self, args_terms) -> bits (models of
        verified callees, e.g. the z-order curve's spec)"""
        self.crate = crate
        self.inputs = inputs or {}
        self.phi_ops = phi_ops or {}
        self.calls = calls or {}
        self.tyof = tyof or (lambda t: None)
        self.memo = {}
        self.lin = {}
        self.why_top = []
        self._active = set()

    def width(self, ty):
        if ty in INT_TYS: return INT_TYS[ty][0]
        if ty == 'bool': return 1
        return None

    def top(self, w, why):
        if len(self.why_top) < 20: self.why_top.append(why)
        return [None] * w

    # ---------------------------------------------------------------------------------------
    def ev(self, t):
        if t in self.memo: return self.memo[t]
        if t in self._active:
            # a merge symbol that depends on itself (loop-carried value): not a bit-vector identity
            if len(self.why_top) < 20: self.why_top.append("loop-carried value %s" % show(t)[:60])
            return None
        self._active.add(t)
        try:
            r = self._ev(t)
        finally:
            self._active.discard(t)
        self.memo[t] = r
        return r

    def table_linear(self, path):
        """(n_index_bits, [T[1<<k]], elem_width) if the static table is a GF(2)-linear map of its index"""
        if path in self.lin: return self.lin[path]
        res = None
        s = self.crate.statics.get(path)
        if s is not None and not s["mutable"] and s["ty"]["k"] == "array" and s["ty"]["elem"]["k"] == "int":
            tab = self.crate.static_table(path); n = len(tab)
            if n and (n & (n - 1)) == 0 and tab[0] == 0:
                nb = n.bit_length() - 1
                basis = [tab[1 << k] for k in range(nb)]
                ok = True
                for x in range(n):
                    v = 0
                    for k in range(nb):
                        if (x >> k) & 1: v ^= basis[k]
                    if v != tab[x]: ok = False; break
                if ok: res = (nb, basis, s["ty"]["elem"]["w"])
        self.lin[path] = res
        return res

    def _ev(self, t):
        if t in self.inputs: return self.inputs[t]
        k = t[0]
        if k == 'c':
            w = self.width(t[1])
            if w is None: return None
            return const_bits(t[2], w)
        if k == 'cast':
            kind, to, a = t[1], t[2], t[3]
            if kind == 'int_to_int':
                v = self.ev(a); w = self.width(to)
                if v is None or w is None: return self.top(w or 64, "cast of non-bitvector %s" % show(a)[:80])
                if len(v) >= w: return v[:w]
                signed = self.signed_of(a)
                ext = v[-1] if signed else ZERO
                return v + [ext] * (w - len(v))
            if kind == 'transmute':
                v = self.ev(a)
                if v is None: return None
                w = self.width(to)
                if isinstance(v, tuple) and v and v[0] == 'arr':           # array -> int
                    flat = [b for e in v[1] for b in e]
                    if w is not None and len(flat) == w: return flat
                    return None
                if to.startswith('[u8; ') and isinstance(v, list):        # int -> bytes (little endian)
                    n = int(to[5:-1])
                    if len(v) == 8 * n: return ('arr', [v[8 * i:8 * i + 8] for i in range(n)])
                if to.startswith('[u16; ') and isinstance(v, list):
                    n = int(to[6:-1])
                    if len(v) == 16 * n: return ('arr', [v[16 * i:16 * i + 16] for i in range(n)])
                return None
            return None
        if k == 'agg' and t[1] == 'array':
            es = [self.ev(x) for x in t[3]]
            if any(e is None or not isinstance(e, list) for e in es): return None
            return ('arr', es)
        if k == 'idx':
            base, i = t[1], t[2]
            if base[0] == 'static':
                lin = self.table_linear(base[1])
                iv = self.ev(i)
                if lin is None or iv is None or not isinstance(iv, list):
                    s = self.crate.statics.get(base[1])
                    w = s["ty"]["elem"]["w"] if s and s["ty"]["k"] == "array" and s["ty"]["elem"]["k"] == "int" else 64
                    return self.top(w, "lookup in non-linear table %s" % base[1])
                nb, basis, ew = lin
                if any(b != ZERO for b in iv[nb:]):
                    return self.top(ew, "index of %s may exceed the table" % base[1])
                out = []
                for j in range(ew):
                    acc = ZERO
                    for kk in range(nb):
                        if (basis[kk] >> j) & 1:
                            acc = bxor(acc, iv[kk])
                            if acc is None: break
                    out.append(acc)
                return out
            bv = self.ev(base)
            if isinstance(bv, tuple) and bv and bv[0] == 'arr' and is_const(i) and i[2] < len(bv[1]):
                return bv[1][i[2]]
            return None
        if k == 'op':
            op, ty, a, b = t[1], t[2], t[3], t[4]
            w = self.width(ty)
            if op in ('eq', 'ne', 'lt', 'le', 'gt', 'ge'):
                va, vb = self.ev(a), self.ev(b)
                if isinstance(va, list) and isinstance(vb, list) and is_known(va) and is_known(vb):
                    ca, cb = as_const(va), as_const(vb)
                    if ca is not None and cb is not None:
                        r = {'eq': ca == cb, 'ne': ca != cb, 'lt': ca < cb, 'le': ca <= cb, 'gt': ca > cb, 'ge': ca >= cb}[op]
                        return [ONE if r else ZERO]
                    if op in ('eq', 'ne'):
                        d = [bxor(x, y) for x, y in zip(va, vb)]
                        if all(x == ZERO for x in d): return [ONE if op == 'eq' else ZERO]
                        if any(x == ONE for x in d): return [ZERO if op == 'eq' else ONE]
                        nz = [x for x in d if x != ZERO]
                        if len(nz) == 1 and nz[0] is not None:
                            return [bnot(nz[0]) if op == 'eq' else nz[0]]
                return [None]
            if w is None: return None
            va, vb = self.ev(a), self.ev(b)
            if not isinstance(va, list): return self.top(w, "operand %s" % show(a)[:80])
            if op in ('shl', 'shr'):
                if not isinstance(vb, list): return self.top(w, "shift amount %s" % show(b)[:60])
                n = as_const(vb)
                if n is None: return self.top(w, "non-constant shift amount %s" % show(b)[:60])
                n %= w
                if op == 'shl': return ([ZERO] * n + va)[:w]
                fill = va[-1] if INT_TYS.get(ty, (0, False))[1] else ZERO
                return va[n:] + [fill] * n
            if not isinstance(vb, list): return self.top(w, "operand %s" % show(b)[:80])
            if len(va) != w or len(vb) != w:
                return self.top(w, "width mismatch in %s" % op)
            if op == 'bitand': return [band(x, y) for x, y in zip(va, vb)]
            if op == 'bitor': return [bor(x, y) for x, y in zip(va, vb)]
            if op == 'bitxor': return [bxor(x, y) for x, y in zip(va, vb)]
            if op == 'add': return add_bits(va, vb)
            if op == 'sub': return add_bits(va, [bnot(x) for x in vb], ONE)
            if op in ('div', 'rem') and not INT_TYS.get(ty, (0, False))[1]:
                c = as_const(vb)
                if c is not None and c and (c & (c - 1)) == 0:
                    n = c.bit_length() - 1
                    if op == 'div': return va[n:] + [ZERO] * n
                    return va[:n] + [ZERO] * (w - n)
            if op == 'mul':
                for x, y in ((va, vb), (vb, va)):
                    c = as_const(y)
                    if c is not None and c and (c & (c - 1)) == 0:
                        n = c.bit_length() - 1
                        return ([ZERO] * n + x)[:w]
                    if c == 0: return [ZERO] * w
            return self.top(w, "operator %s" % op)
        if k == 'un':
            op, ty, a = t[1], t[2], t[3]
            v = self.ev(a)
            if op == 'not' and isinstance(v, list): return [bnot(x) for x in v]
            if op == 'neg' and isinstance(v, list): return add_bits([bnot(x) for x in v], const_bits(1, len(v)))
            return None
        if k == 'call':
            name, args = t[1], t[2]
            short = name.rsplit("::", 1)[-1]
            if name in self.calls: return self.calls[name](self, args)
            if short in ('to_le', 'from_le') and name.startswith("core::num::"):
                assert str(self.crate.j.get("endian", "Little")).lower().startswith("little")
                return self.ev(args[0])
            if short in ('trailing_zeros', 'leading_zeros') and name.startswith("core::num::"):
                v = self.ev(args[0])
                if isinstance(v, list):
                    seq = v if short == 'trailing_zeros' else v[::-1]
                    n = 0
                    for x in seq:
                        if x == ZERO: n += 1; continue
                        if x == ONE: return const_bits(n, 32)
                        return self.top(32, "%s: first possibly-set bit is not constant" % short)
                    return const_bits(len(v), 32)
                return self.top(32, short)
            if short.startswith('_pdep_u') or short.startswith('_pext_u'):
                w = int(short[7:]); v = self.ev(args[0]); m = self.ev(args[1])
                mc = as_const(m) if isinstance(m, list) else None
                if not isinstance(v, list) or mc is None: return self.top(w, short)
                out = [ZERO] * w; j = 0
                for kk in range(w):
                    if (mc >> kk) & 1:
                        if short.startswith('_pdep'): out[kk] = v[j]
                        else: out[j] = v[kk]
                        j += 1
                return out
            if short in ('transmute',):
                return None
            return None
        if k == 'phi':
            ops = self.phi_ops.get(t)
            if not ops: return None
            vs = [self.ev(o) for o in ops]
            if any(not isinstance(v, list) for v in vs): return None
            w = len(vs[0])
            if any(len(v) != w for v in vs): return None
            return [vs[0][i] if all(v[i] == vs[0][i] for v in vs) else None for i in range(w)]
        ty = self.tyof(t)
        w = self.width(ty) if ty else None
        if w is not None:
            name = show(t)
            v = sym_bits(name, w)
            self.inputs[t] = v
            return v
        return None

    def signed_of(self, a):
        ty = None
        if a[0] in ('op', 'un', 'cast'): ty = a[2]
        elif a[0] == 'c': ty = a[1]
        else: ty = self.tyof(a)
        return INT_TYS.get(ty, (0, False))[1]


def spread_bits(v, w_out, shift=0):
    """reference: bit k of v goes to position 2k+shift"""
    out = [ZERO] * w_out
    for k, x in enumerate(v):
        p = 2 * k + shift
        if p < w_out: out[p] = x
        elif x != ZERO: return None
    return out
