#!/usr/bin/env python3
"""Behaviour-preserving edits must leave every verdict unchanged: apply each /verif/harmless/*.diff
to a scratch copy of /repo HEAD and run all 20 checks; any non-zero exit is a FALSE ALARM of the
machinery (to be fixed in the rules, never in the patch)."""
import glob, os, shutil, subprocess, sys, tempfile, json

sel = sys.argv[1:]
out = {}
for p in sorted(glob.glob("/verif/harmless/*.diff")):
    name = os.path.basename(p)[:-5]
    if sel and not any(s in name for s in sel): continue
    work = tempfile.mkdtemp(prefix="hm.")
    subprocess.run("git -C /repo archive HEAD | tar -x -C %s" % work, shell=True, check=True)
    r = subprocess.run("cd %s && patch -p1 -s < %s" % (work, p), shell=True, capture_output=True, text=True)
    if r.returncode != 0:
        print(name, "PATCH DOES NOT APPLY", r.stdout[:200], r.stderr[:200]); shutil.rmtree(work); continue
    alarms = {}
    for i in range(1, 21):
        t = "C%02d" % i
        rr = subprocess.run(["./check", t, "--repo", work], cwd="/verif", capture_output=True, text=True)
        if rr.returncode != 0:
            alarms[t] = [l[:300] for l in rr.stdout.splitlines() if l.startswith(("VIOLATED", "UNDECIDED", "MACHINERY"))][:4]
    shutil.rmtree(work, ignore_errors=True)
    out[name] = alarms
    print(name, "silent" if not alarms else "FALSE ALARMS %s" % sorted(alarms))
    for t, ls in alarms.items():
        for l in ls[:2]: print("     ", l[:260])
OUT = os.environ.get("HARMLESS_OUT", "/verif/harmless/last_run.json")     # parallel groups write apart, merged afterwards
try:
    prev = json.load(open(OUT))
except Exception:
    prev = {}
prev.update(out)           # a partial run refreshes its own entries only
json.dump(prev, open(OUT, "w"), indent=1, sort_keys=True)
