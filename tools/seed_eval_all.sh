#!/bin/sh
# evaluate every seeded change found under $SEED_OUT (default /tmp/seed_out) (sequentially; one worktree build each)
cd /verif
for d in ${SEED_OUT:-/tmp/seed_out}/C*/[A-Z]; do
  pid=$(basename $(dirname $d)); x=$(basename $d)
  [ -f "$d/patch.diff" ] || continue
  [ -f "/verif/seeded/$pid-$x/meta.json" ] && continue
  echo "=== $pid $x"
  python3 tools/seed_eval.py $pid $x --all 2>&1 | tail -14
done
