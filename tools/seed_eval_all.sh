#!/bin/sh
# evaluate every seeded change found under /tmp/seed_out (sequentially; one worktree build each)
cd /verif
for d in /tmp/seed_out/C*/[AB]; do
  pid=$(basename $(dirname $d)); x=$(basename $d)
  [ -f "$d/patch.diff" ] || continue
  [ -f "/verif/seeded/$pid-$x/meta.json" ] && continue
  echo "=== $pid $x"
  python3 tools/seed_eval.py $pid $x --all 2>&1 | tail -14
done
