#!/usr/bin/env python3
"""Re-run the checks against every kept seeded change (scratch copy of /repo HEAD + patch) and
refresh detected_by in meta.json.  usage: seed_detect.py [ids...]"""
import json, os, shutil, subprocess, sys, tempfile

ids = sys.argv[1:] or sorted(os.listdir("/verif/seeded"))
for sid in ids:
    d = "/verif/seeded/" + sid
    if not os.path.exists(d + "/patch.diff"): continue
    work = tempfile.mkdtemp(prefix="seed.")
    subprocess.run("git -C /repo archive HEAD | tar -x -C %s" % work, shell=True, check=True)
    r = subprocess.run(["git", "apply", "--directory=" + work.lstrip("/"), "--unsafe-paths", d + "/patch.diff"], cwd="/", capture_output=True, text=True)
    if r.returncode != 0:
        r = subprocess.run("cd %s && patch -p1 < %s/patch.diff" % (work, d), shell=True, capture_output=True, text=True)
    if r.returncode != 0:
        print(sid, "PATCH DOES NOT APPLY", r.stderr[:200]); shutil.rmtree(work); continue
    meta = json.load(open(d + "/meta.json"))
    det = {}
    for i in range(1, 21):
        t = "C%02d" % i
        rr = subprocess.run(["./check", t, "--repo", work], cwd="/verif", capture_output=True, text=True)
        if rr.returncode != 0:
            det[t] = {"exit": rr.returncode, "reports": [l[:400] for l in rr.stdout.splitlines() if l.startswith(("VIOLATED", "UNDECIDED"))][:6]}
    shutil.rmtree(work, ignore_errors=True)
    meta["checks"] = det
    meta["detected_by"] = sorted(t for t, v in det.items() if v["exit"] == 1)
    json.dump(meta, open(d + "/meta.json", "w"), indent=1)
    print(sid, "detected_by", meta["detected_by"])
    for t in meta["detected_by"][:2]:
        for l in det[t]["reports"][:1]: print("     ", l[:220])
