#!/usr/bin/env python3
"""Confirm a seeded change produced by a sub-agent and run the checks against it.
usage: seed_eval.py <PID> <X> [--all]      (reads $SEED_OUT/<PID>/<X> [default /tmp/seed_out], worktree $SEED_WT % PID [default /tmp/wt_%s])
Steps: clean worktree -> apply patch -> existing suite (must stay 63+58 green) -> demo (must fail)
-> ./check <PID> --repo worktree (and, with --all, every check) -> revert -> demo (must pass).
Keeps the change under /verif/seeded/<PID>-<X>/ only if every confirmation succeeded."""
import json, os, re, shutil, subprocess, sys, time

pid, X = sys.argv[1], sys.argv[2]
run_all = "--all" in sys.argv
wt = os.environ.get("SEED_WT", "/tmp/wt_%s") % pid
src = os.environ.get("SEED_OUT", "/tmp/seed_out") + "/%s/%s" % (pid, X)
env = dict(os.environ, CARGO_TARGET_DIR=wt + "/target", CARGO_NET_OFFLINE="true")


def sh(cmd, cwd, timeout=3600):
    r = subprocess.run(cmd, cwd=cwd, shell=True, env=env, capture_output=True, text=True, timeout=timeout)
    return r.returncode, r.stdout + r.stderr


PROFILE = ["--release"]


def demo(first=False):
    d = src + "/demo"
    if not os.path.isdir(d): return None, "no demo dir"
    # a demo is either a binary project or a test project
    has_main = os.path.exists(d + "/src/main.rs")
    cmd = ("cargo run --offline " if has_main else "cargo test --offline ") + PROFILE[0]
    rc, out = sh(cmd, d)
    if first and rc == 0:
        # some changes only show with overflow checks / debug assertions on: retry in the dev profile
        PROFILE[0] = ""
        cmd = ("cargo run --offline " if has_main else "cargo test --offline ")
        rc, out = sh(cmd, d)
    return rc, out[-1500:]


meta = {"property": pid, "variant": X, "source": "independent sub-agent (given only the property text and a scratch worktree)", "confirmed": {}}
sh("git checkout -- . && git clean -fdq -e target", wt)
rc, out = sh("git apply %s/patch.diff" % src, wt)
meta["confirmed"]["patch_applies"] = rc == 0
if rc != 0:
    print("patch does not apply:", out); sys.exit(2)
t0 = time.time()
rc, out = sh("cargo test --workspace --no-fail-fast --offline 2>&1 | grep -E '^test result'", wt)
res = re.findall(r"test result: (\w+)\. (\d+) passed; (\d+) failed", out)
meta["confirmed"]["suite_with_change"] = res
suite_ok = [(a, int(b), int(c)) for a, b, c in res] == [("ok", 63, 0), ("ok", 58, 0)]
rc_d1, out_d1 = demo(first=True)
meta["confirmed"]["demo_with_change_exit"] = rc_d1
meta["confirmed"]["demo_profile"] = "release" if PROFILE[0] else "dev (overflow checks / debug assertions on)"
# our checks against the changed tree
targets = ["C%02d" % i for i in range(1, 21)] if run_all else [pid]
detected = {}
for t in targets:
    r = subprocess.run(["./check", t, "--repo", wt], cwd="/verif", capture_output=True, text=True)
    lines = [l for l in r.stdout.splitlines() if l.startswith(("VIOLATED", "UNDECIDED"))]
    detected[t] = {"exit": r.returncode, "reports": [l[:400] for l in lines[:6]]}
meta["checks"] = detected
sh("git checkout -- . && git clean -fdq -e target", wt)
rc_d0, out_d0 = demo()
meta["confirmed"]["demo_clean_exit"] = rc_d0
ok = suite_ok and rc_d1 not in (0, None) and rc_d0 == 0
meta["confirmed"]["all"] = ok
meta["detected_by"] = sorted(t for t, v in detected.items() if v["exit"] == 1)
notes = open(src + "/notes.md").read() if os.path.exists(src + "/notes.md") else ""
m = re.search(r"(?is)#+\s*what is needed[^\n]*\n(.*?)(\n#|\Z)", notes)
meta["needs_to_manifest"] = (m.group(1).strip()[:1200] if m else "see notes.md")
meta["what_i_ran"] = ["git apply patch.diff (in a scratch worktree of /repo HEAD)", "cargo test --workspace --no-fail-fast --offline  -> %s" % res,
                      "demo with change -> exit %s" % rc_d1, "./check %s --repo <worktree>" % (", ".join(targets)), "git checkout -- . ; demo on clean tree -> exit %s" % rc_d0]
print(json.dumps({"ok": ok, "suite": res, "demo_with": rc_d1, "demo_clean": rc_d0, "detected_by": meta["detected_by"]}, indent=0))
for t in meta["detected_by"][:3]:
    for l in detected[t]["reports"][:2]: print("   ", l[:300])
if ok:
    dst = "/verif/seeded/%s-%s" % (pid, X)
    shutil.rmtree(dst, ignore_errors=True); os.makedirs(dst)
    shutil.copy(src + "/patch.diff", dst)
    if os.path.isdir(src + "/demo"):
        shutil.copytree(src + "/demo", dst + "/demo", ignore=shutil.ignore_patterns("target"))
    if notes: open(dst + "/notes.md", "w").write(notes)
    json.dump(meta, open(dst + "/meta.json", "w"), indent=1)
else:
    print("NOT KEPT: confirmations failed\n", out_d1[-600:], "\n---\n", out_d0[-600:])
