#!/bin/sh
# usage: tools/harmless_sel.sh "<checks>" <grep-pattern>  — run only the given checks on the harmless patches whose text matches the pattern (quick targeted re-validation after a rule change)
cd /verif
for p in $(grep -l "$2" harmless/*.diff); do
  n=$(basename $p .diff); w=$(mktemp -d /tmp/hmsel.XXXX)
  git -C /repo archive HEAD | tar -x -C $w
  (cd $w && patch -p1 -s < /verif/$p) || { echo "$n NOAPPLY"; rm -rf $w; continue; }
  res=""
  for c in $1; do ./check $c --repo $w > $w/out.$c 2>&1 || res="$res $c:$(grep -E '^(VIOLATED|UNDECIDED|MACH)' $w/out.$c | head -1 | cut -c1-200)"; done
  echo "$n ${res:-silent}"
  rm -rf $w
done
