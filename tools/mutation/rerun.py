#!/usr/bin/env python3
"""survivors of the first run, against the rules as they are now (HEAD of /repo; the F27 repair shifted
src/nested/mod.rs by one line from line 412 on)"""
import json, os, shutil, subprocess, sys, tempfile, glob
wid, nw = int(sys.argv[1]), int(sys.argv[2])
sv = []
for f in sorted(glob.glob("/tmp/mut/results_*.jsonl")):
    for l in open(f):
        m = json.loads(l)
        if m["status"] == "SURVIVOR": sv.append(m)
sv.sort(key=lambda m: m["id"])
out = open("/tmp/mut/rerun_%d.jsonl" % wid, "a")
for k, m in enumerate(sv):
    if k % nw != wid: continue
    work = tempfile.mkdtemp(prefix="mut2.")
    subprocess.run("git -C /repo archive HEAD | tar -x -C %s" % work, shell=True, check=True)
    p = work + "/" + m["file"]
    lines = open(p).read().split("\n")
    li = m["line"] + (1 if m["file"] == "src/nested/mod.rs" and m["line"] >= 411 else 0)
    if lines[li].strip() != m["old"]:
        m["rerun"] = "line-mismatch"; out.write(json.dumps(m) + "\n"); out.flush(); shutil.rmtree(work); continue
    old = lines[li]
    lines[li] = old[:m["a"]] + m["rep"] + old[m["b"]:]
    open(p, "w").write("\n".join(lines))
    det = []
    for i in range(1, 21):
        t = "C%02d" % i
        rr = subprocess.run(["./check", t, "--repo", work], cwd="/tmp/vfrozen2", capture_output=True, text=True)
        if rr.returncode == 1: det.append(t)
        elif rr.returncode != 0: det.append("ERR:" + t); break
    m["rerun"] = det
    out.write(json.dumps(m) + "\n"); out.flush()
    shutil.rmtree(work, ignore_errors=True)
