#!/usr/bin/env python3
"""Own mutants (not kept as seeds unless triaged): one-token mutations of non-test code; a mutant that
compiles, is silent under all 20 checks AND passes the suite is a SURVIVOR to triage by hand
(equivalent mutant, or a region without a rule).
usage: mutate.py gen N seed > plan.jsonl ; mutate.py run plan.jsonl worker_id n_workers"""
import json, os, random, re, shutil, subprocess, sys, tempfile

FILES = {"src/lib.rs": 3, "src/nested/mod.rs": 5, "src/nested/bmoc.rs": 3, "src/ring/mod.rs": 2, "src/sph_geom/mod.rs": 1,
         "src/sph_geom/coo3d.rs": 1, "src/sph_geom/cone.rs": 1, "src/sph_geom/elliptical_cone.rs": 1, "src/sph_geom/proj.rs": 1,
         "src/nested/zordercurve.rs": 1, "src/compass_point.rs": 1, "src/external_edge.rs": 1, "src/special_points_finder.rs": 1}
OPS = [(r"<=", "<"), (r">=", ">"), (r"(?<![<>=!-])<(?![<=])", "<="), (r"(?<![<>=!-])>(?![>=])", ">="), (r"==", "!="), (r"!=", "=="),
       (r" \+ ", " - "), (r" - ", " + "), (r"<<", ">>"), (r">>", "<<"), (r"&&", "||"), (r"\|\|", "&&"),
       (r"\btrue\b", "false"), (r"\bfalse\b", "true"), (r"\.min\(", ".max("), (r"\.max\(", ".min("),
       (r"\b0\b(?![._])", "1"), (r"\b1\b(?![._])", "2"), (r"\b2\b(?![._])", "3"), (r"\b3\b(?![._])", "2"), (r"\b4\b(?![._])", "3"),
       (r"\+= 1\b", "+= 2"), (r"-= 1\b", "-= 2"), (r" & ", " | "), (r" \| ", " & "), (r"\b0\.5\b", "0.25"), (r"\b1\.0\b", "2.0"),
       (r"\bi\b", "j"), (r"\bdx\b", "dy"), (r"\blon\b", "lat")]


def code_lines(path, text):
    """(line index, text) of lines that are code outside `mod tests`, comments, attributes, asserts"""
    out = []; in_tests = False; depth_block = 0
    for i, l in enumerate(text.split("\n")):
        s = l.strip()
        if re.match(r"(#\[cfg\(test\)\]|mod tests?\b)", s): in_tests = True
        if in_tests: continue
        if s.startswith("/*"): depth_block += 1
        if depth_block:
            if "*/" in s: depth_block -= 1
            continue
        if not s or s.startswith(("//", "#[", "use ", "pub use", "extern", "mod ", "pub mod", "///", "*")): continue
        if "assert" in s or "panic!" in s or "println!" in s or "unreachable!" in s: continue
        if s.startswith(("pub fn", "fn ", "pub(crate) fn", "impl", "pub struct", "struct", "pub enum", "enum", "pub trait", "trait", "const ", "pub const", "static ", "pub static", "type ")): continue
        out.append((i, l))
    return out


def gen(n, seed):
    rnd = random.Random(seed)
    pool = []
    for f, w in FILES.items():
        p = "/repo/" + f
        if not os.path.exists(p): continue
        text = open(p).read()
        for i, l in code_lines(f, text):
            code = l.split("//")[0]
            for k, (pat, rep) in enumerate(OPS):
                for m in re.finditer(pat, code):
                    pool.append((f, i, m.start(), m.end(), rep, w))
    # weight by file, at most 2 mutants per line
    rnd.shuffle(pool)
    per_line = {}; out = []
    tot = sum(FILES.values())
    quota = {f: max(5, int(n * w / tot)) for f, w in FILES.items()}
    for f, i, a, b, rep, w in pool:
        if quota[f] <= 0 or per_line.get((f, i), 0) >= 1: continue
        per_line[(f, i)] = per_line.get((f, i), 0) + 1; quota[f] -= 1
        out.append({"file": f, "line": i, "a": a, "b": b, "rep": rep})
    for k, o in enumerate(out): o["id"] = "M%04d" % k; print(json.dumps(o))


def run(plan, wid, nw):
    env = dict(os.environ, CARGO_NET_OFFLINE="true", CARGO_TARGET_DIR="/tmp/mut/target_%d" % wid)
    res = open("/tmp/mut/results_%d.jsonl" % wid, "a")
    done = set()
    for fn in os.listdir("/tmp/mut"):
        if fn.startswith("results_"):
            for l in open("/tmp/mut/" + fn):
                try: done.add(json.loads(l)["id"])
                except Exception: pass
    for k, l in enumerate(open(plan)):
        m = json.loads(l)
        if k % nw != wid or m["id"] in done: continue
        work = tempfile.mkdtemp(prefix="mut.")
        subprocess.run("git -C /repo archive HEAD | tar -x -C %s" % work, shell=True, check=True)
        p = work + "/" + m["file"]
        lines = open(p).read().split("\n")
        old = lines[m["line"]]
        lines[m["line"]] = old[:m["a"]] + m["rep"] + old[m["b"]:]
        open(p, "w").write("\n".join(lines))
        m["old"] = old.strip(); m["new"] = lines[m["line"]].strip()
        det = []; status = None
        for i in range(1, 21):
            t = "C%02d" % i
            rr = subprocess.run(["./check", t, "--repo", work], cwd="/tmp/vfrozen", capture_output=True, text=True)
            if rr.returncode == 1: det.append(t)
            elif rr.returncode != 0:
                status = "nocompile" if "compile" in (rr.stdout + rr.stderr).lower() or i == 1 else "machinery:%s" % t
                m["err"] = (rr.stdout + rr.stderr)[-300:]
                break
        if status is None:
            if det: status = "detected"
            else:
                rr = subprocess.run("cargo test --workspace --no-fail-fast --offline 2>&1 | grep -E '^test result'", cwd=work, shell=True, env=env, capture_output=True, text=True, timeout=3600)
                ok = re.findall(r"test result: ok\. (\d+) passed; 0 failed", rr.stdout)
                status = "SURVIVOR" if [int(x) for x in ok] == [63, 58] else "killed-by-suite"
        m["status"] = status; m["detected_by"] = det
        res.write(json.dumps(m) + "\n"); res.flush()
        shutil.rmtree(work, ignore_errors=True)


if __name__ == "__main__":
    if sys.argv[1] == "gen": gen(int(sys.argv[2]), int(sys.argv[3]))
    else: run(sys.argv[2], int(sys.argv[3]), int(sys.argv[4]))
