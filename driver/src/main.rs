// hpx-facts: rustc_private fact extractor.
//
// Used as RUSTC_WORKSPACE_WRAPPER under `cargo +nightly check`.  For the crate named by
// HPX_FACTS_CRATE (default `cdshealpix`) it dumps, after analysis, one JSON fact file
// ($HPX_FACTS_OUT) holding the optimized MIR (at whatever -Zmir-opt-level the build uses; the
// checker passes 0) of every body of the local crate with callees resolved, constants evaluated,
// the bytes of every static initialiser, ADT layouts and the trait-impl table.  Nothing of the
// analysed crate is executed; only the compiler's constant evaluator is used.
#![feature(rustc_private)]

extern crate rustc_abi;
extern crate rustc_driver;
extern crate rustc_hir;
extern crate rustc_interface;
extern crate rustc_middle;
extern crate rustc_span;

use rustc_driver::Compilation;
use rustc_hir::def::DefKind;
use rustc_hir::def_id::{DefId, LOCAL_CRATE};
use rustc_middle::mir::{
    self, AggregateKind, BinOp, BorrowKind, CastKind, Const, ConstValue, Operand, Place,
    ProjectionElem, Rvalue, StatementKind, TerminatorKind, UnOp,
};
use rustc_middle::ty::{self, GenericArgsRef, Instance, Ty, TyCtxt, TypingEnv};
use std::fmt::Write as _;

mod json;
use json::J;

struct Cb;

impl rustc_driver::Callbacks for Cb {
    fn after_analysis<'tcx>(
        &mut self,
        _c: &rustc_interface::interface::Compiler,
        tcx: TyCtxt<'tcx>,
    ) -> Compilation {
        let want = std::env::var("HPX_FACTS_CRATE").unwrap_or_else(|_| "cdshealpix".to_string());
        let name = tcx.crate_name(LOCAL_CRATE).to_string();
        if name != want {
            return Compilation::Continue;
        }
        let out = std::env::var("HPX_FACTS_OUT").expect("HPX_FACTS_OUT not set");
        let j = dump_crate(tcx, &name);
        let mut s = String::new();
        j.write(&mut s);
        std::fs::write(&out, s).expect("cannot write fact file");
        Compilation::Continue
    }
}

fn main() {
    let mut args: Vec<String> = std::env::args().collect();
    // RUSTC_WORKSPACE_WRAPPER: argv[1] is the path of the real rustc; drop it.
    if args.len() > 1 && (args[1].ends_with("rustc") || args[1].contains("/rustc")) {
        args.remove(1);
    }
    rustc_driver::install_ice_hook("https://example.invalid", |_| ());
    rustc_driver::run_compiler(&args, &mut Cb);
}

// ------------------------------------------------------------------------------------------------

struct Cx<'tcx> {
    tcx: TyCtxt<'tcx>,
    adts: std::collections::BTreeMap<String, J>,
}

fn dump_crate<'tcx>(tcx: TyCtxt<'tcx>, name: &str) -> J {
    let mut cx = Cx { tcx, adts: Default::default() };
    let mut bodies = Vec::new();
    let mut statics = Vec::new();
    let mut keys: Vec<_> = tcx.mir_keys(()).iter().copied().collect();
    keys.sort_by_key(|k| tcx.def_path_str(k.to_def_id()));
    for ldid in keys {
        let did = ldid.to_def_id();
        let kind = tcx.def_kind(did);
        match kind {
            DefKind::Fn | DefKind::AssocFn | DefKind::Closure => {
                if tcx.is_constructor(did) {
                    continue;
                }
                let body = tcx.optimized_mir(did);
                let mut jb = cx.dump_body(did, body);
                let mut proms = Vec::new();
                for p in tcx.promoted_mir(did).iter() {
                    proms.push(cx.dump_body_inner(did, p));
                }
                jb.push("promoted", J::Arr(proms));
                bodies.push(jb);
            }
            DefKind::Static { .. } => {
                statics.push(cx.dump_static(did));
            }
            _ => {}
        }
    }
    // statics that are not mir keys? (all local statics with initialisers are). Also scan
    // module items for completeness.
    let mut impls = Vec::new();
    for (&trait_id, impl_ids) in tcx.all_local_trait_impls(()).iter() {
        for &imp in impl_ids {
            let self_ty = tcx.type_of(imp).instantiate_identity().skip_norm_wip();
            let mut methods = Vec::new();
            for item in tcx.associated_items(imp.to_def_id()).in_definition_order() {
                if matches!(item.kind, ty::AssocKind::Fn { .. }) {
                    methods.push((item.name().to_string(), J::Str(tcx.def_path_str(item.def_id))));
                }
            }
            impls.push(J::obj(vec![
                ("trait", J::Str(tcx.def_path_str(trait_id))),
                ("self_ty", J::Str(format!("{self_ty}"))),
                ("methods", J::Obj(methods)),
            ]));
        }
    }
    let sess = tcx.sess;
    let cfgs: Vec<J> = {
        let mut v: Vec<String> = sess
            .opts
            .cg
            .target_feature
            .split(',')
            .filter(|s| !s.is_empty())
            .map(|s| s.to_string())
            .collect();
        v.sort();
        v.into_iter().map(J::Str).collect()
    };
    J::obj(vec![
        ("crate", J::Str(name.to_string())),
        ("target_features", J::Arr(cfgs)),
        ("debug_assertions", J::Bool(sess.opts.debug_assertions)),
        ("overflow_checks", J::Bool(sess.overflow_checks())),
        ("is_test", J::Bool(sess.is_test_crate())),
        ("endian", J::Str(format!("{:?}", tcx.data_layout.endian))),
        ("pointer_bits", J::Int(tcx.data_layout.pointer_size().bits() as i128)),
        ("bodies", J::Arr(bodies)),
        ("statics", J::Arr(statics)),
        ("adts", J::Obj(cx.adts.into_iter().collect())),
        ("impls", J::Arr(impls)),
    ])
}

impl<'tcx> Cx<'tcx> {
    fn loc(&self, span: rustc_span::Span) -> J {
        let sm = self.tcx.sess.source_map();
        let lo = sm.lookup_char_pos(span.lo());
        J::Str(format!(
            "{}:{}",
            lo.file.name.prefer_local_unconditionally().to_string(),
            lo.line
        ))
    }

    fn dump_static(&mut self, did: DefId) -> J {
        let tcx = self.tcx;
        let ty = tcx.type_of(did).instantiate_identity().skip_norm_wip();
        let mutable = tcx.is_mutable_static(did);
        let mut o = vec![
            ("path", J::Str(tcx.def_path_str(did))),
            ("ty", self.ty(ty)),
            ("mutable", J::Bool(mutable)),
            ("span", self.loc(tcx.def_span(did))),
        ];
        match tcx.eval_static_initializer(did) {
            Ok(alloc) => {
                let a = alloc.inner();
                let n = a.len();
                let bytes = a.inspect_with_uninit_and_ptr_outside_interpreter(0..n);
                let mut hex = String::with_capacity(2 * n);
                for b in bytes {
                    let _ = write!(hex, "{:02x}", b);
                }
                o.push(("bytes", J::Str(hex)));
                o.push(("has_ptrs", J::Bool(!a.provenance().ptrs().is_empty())));
            }
            Err(_) => o.push(("bytes", J::Null)),
        }
        J::obj(o)
    }

    fn dump_body(&mut self, did: DefId, body: &mir::Body<'tcx>) -> J {
        let tcx = self.tcx;
        let kind = tcx.def_kind(did);
        let mut o = self.dump_body_inner(did, body);
        o.push("path", J::Str(tcx.def_path_str(did)));
        o.push("kind", J::Str(format!("{:?}", kind)));
        if matches!(kind, DefKind::Fn | DefKind::AssocFn) {
            let vis = tcx.visibility(did);
            o.push("vis", J::Str(if vis.is_public() { "pub".into() } else { "restricted".into() }));
            o.push("is_unsafe", J::Bool(tcx.fn_sig(did).skip_binder().safety().is_unsafe()));
        }
        if kind == DefKind::AssocFn {
            let parent = tcx.parent(did);
            if let DefKind::Impl { of_trait } = tcx.def_kind(parent) {
                let self_ty = tcx.type_of(parent).instantiate_identity().skip_norm_wip();
                o.push("impl_self", J::Str(format!("{self_ty}")));
                if of_trait {
                    let tr = tcx.impl_trait_ref(parent).instantiate_identity().skip_norm_wip();
                    o.push("impl_trait", J::Str(tcx.def_path_str(tr.def_id)));
                }
            } else if tcx.def_kind(parent) == DefKind::Trait {
                o.push("trait_default", J::Str(tcx.def_path_str(parent)));
            }
        }
        if kind == DefKind::Closure {
            o.push("parent_fn", J::Str(tcx.def_path_str(tcx.typeck_root_def_id(did))));
        }
        o
    }

    fn dump_body_inner(&mut self, _did: DefId, body: &mir::Body<'tcx>) -> J {
        let mut locals = Vec::new();
        for (_l, decl) in body.local_decls.iter_enumerated() {
            locals.push(J::obj(vec![
                ("ty", self.ty(decl.ty)),
                ("mut", J::Bool(decl.mutability.is_mut())),
            ]));
        }
        let mut dbg = Vec::new();
        for vdi in body.var_debug_info.iter() {
            let v = match &vdi.value {
                mir::VarDebugInfoContents::Place(p) => self.place(p),
                mir::VarDebugInfoContents::Const(c) => self.constant(&c.const_),
            };
            dbg.push(J::obj(vec![
                ("name", J::Str(vdi.name.to_string())),
                ("arg", match vdi.argument_index { Some(i) => J::Int(i as i128), None => J::Null }),
                ("val", v),
            ]));
        }
        let mut blocks = Vec::new();
        for (_bb, data) in body.basic_blocks.iter_enumerated() {
            let mut stmts = Vec::new();
            for st in data.statements.iter() {
                match &st.kind {
                    StatementKind::Assign(b) => {
                        let (pl, rv) = &**b;
                        stmts.push(J::obj(vec![
                            ("k", J::s("assign")),
                            ("lhs", self.place(pl)),
                            ("rv", self.rvalue(rv)),
                            ("at", self.loc(st.source_info.span)),
                            ("exp", J::Bool(st.source_info.span.from_expansion())),
                        ]));
                    }
                    StatementKind::SetDiscriminant { place, variant_index } => {
                        stmts.push(J::obj(vec![
                            ("k", J::s("setdiscr")),
                            ("lhs", self.place(place)),
                            ("variant", J::Int(variant_index.as_u32() as i128)),
                            ("at", self.loc(st.source_info.span)),
                        ]));
                    }
                    StatementKind::StorageLive(_)
                    | StatementKind::StorageDead(_)
                    | StatementKind::Nop
                    | StatementKind::FakeRead(_)
                    | StatementKind::PlaceMention(_)
                    | StatementKind::AscribeUserType(..)
                    | StatementKind::Coverage(_)
                    | StatementKind::ConstEvalCounter
                    | StatementKind::BackwardIncompatibleDropHint { .. } => {}
                    other => {
                        stmts.push(J::obj(vec![
                            ("k", J::s("other")),
                            ("dbg", J::Str(format!("{:?}", other))),
                            ("at", self.loc(st.source_info.span)),
                        ]));
                    }
                }
            }
            let term = data.terminator();
            let tj = self.terminator(term);
            blocks.push(J::obj(vec![
                ("stmts", J::Arr(stmts)),
                ("term", tj),
                ("cleanup", J::Bool(data.is_cleanup)),
            ]));
        }
        J::obj(vec![
            ("span", self.loc(body.span)),
            ("arg_count", J::Int(body.arg_count as i128)),
            ("locals", J::Arr(locals)),
            ("debug", J::Arr(dbg)),
            ("blocks", J::Arr(blocks)),
        ])
    }

    fn terminator(&mut self, term: &mir::Terminator<'tcx>) -> J {
        let at = self.loc(term.source_info.span);
        let exp = J::Bool(term.source_info.span.from_expansion());
        let mut o = match &term.kind {
            TerminatorKind::Goto { target } => {
                vec![("k", J::s("goto")), ("target", J::Int(target.as_u32() as i128))]
            }
            TerminatorKind::SwitchInt { discr, targets } => {
                let mut vals = Vec::new();
                for (v, t) in targets.iter() {
                    vals.push(J::Arr(vec![J::Str(v.to_string()), J::Int(t.as_u32() as i128)]));
                }
                vec![
                    ("k", J::s("switch")),
                    ("discr", self.operand(discr)),
                    ("targets", J::Arr(vals)),
                    ("otherwise", J::Int(targets.otherwise().as_u32() as i128)),
                ]
            }
            TerminatorKind::Return => vec![("k", J::s("return"))],
            TerminatorKind::Unreachable => vec![("k", J::s("unreachable"))],
            TerminatorKind::UnwindResume => vec![("k", J::s("resume"))],
            TerminatorKind::UnwindTerminate(_) => vec![("k", J::s("abort"))],
            TerminatorKind::Drop { place, target, .. } => vec![
                ("k", J::s("drop")),
                ("place", self.place(place)),
                ("target", J::Int(target.as_u32() as i128)),
            ],
            TerminatorKind::Assert { cond, expected, msg, target, .. } => {
                let kind = match &**msg {
                    mir::AssertKind::BoundsCheck { .. } => "bounds".to_string(),
                    mir::AssertKind::Overflow(op, ..) => format!("overflow_{:?}", op),
                    mir::AssertKind::OverflowNeg(_) => "overflow_neg".to_string(),
                    mir::AssertKind::DivisionByZero(_) => "div_zero".to_string(),
                    mir::AssertKind::RemainderByZero(_) => "rem_zero".to_string(),
                    _ => "other".to_string(),
                };
                let mut v = vec![
                    ("k", J::s("assert")),
                    ("cond", self.operand(cond)),
                    ("expected", J::Bool(*expected)),
                    ("msg", J::Str(kind)),
                    ("target", J::Int(target.as_u32() as i128)),
                ];
                if let mir::AssertKind::BoundsCheck { len, index } = &**msg {
                    v.push(("len", self.operand(len)));
                    v.push(("index", self.operand(index)));
                }
                v
            }
            TerminatorKind::Call { func, args, destination, target, fn_span, .. } => {
                let mut v = vec![("k", J::s("call"))];
                v.push(("func", self.callee(func)));
                let a: Vec<J> = args.iter().map(|a| self.operand(&a.node)).collect();
                v.push(("args", J::Arr(a)));
                v.push(("dest", self.place(destination)));
                v.push((
                    "target",
                    match target {
                        Some(t) => J::Int(t.as_u32() as i128),
                        None => J::Null,
                    },
                ));
                v.push(("fn_at", self.loc(*fn_span)));
                v
            }
            TerminatorKind::FalseEdge { real_target, .. } => {
                vec![("k", J::s("goto")), ("target", J::Int(real_target.as_u32() as i128))]
            }
            TerminatorKind::FalseUnwind { real_target, .. } => {
                vec![("k", J::s("goto")), ("target", J::Int(real_target.as_u32() as i128))]
            }
            other => vec![("k", J::s("other")), ("dbg", J::Str(format!("{:?}", other)))],
        };
        o.push(("at", at));
        o.push(("exp", exp));
        J::obj(o)
    }

    fn callee(&mut self, func: &Operand<'tcx>) -> J {
        let tcx = self.tcx;
        if let Operand::Constant(c) = func {
            let fty = c.const_.ty();
            if let ty::FnDef(def_id, args) = *fty.kind() {
                return self.fn_ref(def_id, args);
            }
        }
        let _ = tcx;
        J::obj(vec![("k", J::s("indirect")), ("op", self.operand(func))])
    }

    fn fn_ref(&mut self, def_id: DefId, args: GenericArgsRef<'tcx>) -> J {
        let tcx = self.tcx;
        let mut o = vec![
            ("k", J::s("fn")),
            ("path", J::Str(tcx.def_path_str(def_id))),
            ("generic", J::Str(tcx.def_path_str_with_args(def_id, args))),
            ("local", J::Bool(def_id.is_local())),
        ];
        let targs: Vec<J> = args.types().map(|t| J::Str(format!("{t}"))).collect();
        o.push(("type_args", J::Arr(targs)));
        // Resolve trait methods to their impl where the receiver type is known.
        let generic = args.iter().any(|a| {
            use rustc_middle::ty::TypeVisitableExt;
            a.has_param()
        });
        if !generic {
            if let Ok(Some(inst)) =
                Instance::try_resolve(tcx, TypingEnv::fully_monomorphized(), def_id, args)
            {
                let rid = inst.def_id();
                o.push(("resolved", J::Str(tcx.def_path_str(rid))));
                o.push(("resolved_local", J::Bool(rid.is_local())));
                let kind = match inst.def {
                    ty::InstanceKind::Item(_) => "item",
                    ty::InstanceKind::Virtual(..) => "virtual",
                    ty::InstanceKind::Intrinsic(_) => "intrinsic",
                    ty::InstanceKind::ClosureOnceShim { .. } => "closure_once_shim",
                    ty::InstanceKind::FnPtrShim(..) => "fn_ptr_shim",
                    ty::InstanceKind::DropGlue(..) => "drop_glue",
                    ty::InstanceKind::CloneShim(..) => "clone_shim",
                    _ => "other",
                };
                o.push(("inst", J::s(kind)));
                if let ty::InstanceKind::Virtual(_, idx) = inst.def {
                    o.push(("vtable_idx", J::Int(idx as i128)));
                }
            }
        }
        if let Some(assoc) = tcx.opt_associated_item(def_id) {
            if let Some(tr) = assoc.trait_container(tcx) {
                o.push(("trait", J::Str(tcx.def_path_str(tr))));
                o.push(("method", J::Str(assoc.name().to_string())));
            }
        }
        J::obj(o)
    }

    fn place(&mut self, p: &Place<'tcx>) -> J {
        let mut proj = Vec::new();
        for e in p.projection.iter() {
            proj.push(match e {
                ProjectionElem::Deref => J::Arr(vec![J::s("deref")]),
                ProjectionElem::Field(f, ty) => J::Arr(vec![
                    J::s("field"),
                    J::Int(f.as_u32() as i128),
                    J::Str(format!("{ty}")),
                ]),
                ProjectionElem::Index(l) => J::Arr(vec![J::s("index"), J::Int(l.as_u32() as i128)]),
                ProjectionElem::ConstantIndex { offset, from_end, .. } => {
                    J::Arr(vec![J::s("cindex"), J::Int(offset as i128), J::Bool(from_end)])
                }
                ProjectionElem::Subslice { from, to, from_end } => J::Arr(vec![
                    J::s("subslice"),
                    J::Int(from as i128),
                    J::Int(to as i128),
                    J::Bool(from_end),
                ]),
                ProjectionElem::Downcast(name, v) => J::Arr(vec![
                    J::s("downcast"),
                    J::Int(v.as_u32() as i128),
                    J::Str(name.map(|s| s.to_string()).unwrap_or_default()),
                ]),
                ProjectionElem::OpaqueCast(_) => J::Arr(vec![J::s("opaque")]),
                ProjectionElem::UnwrapUnsafeBinder(_) => J::Arr(vec![J::s("unwrap_binder")]),
            });
        }
        J::obj(vec![("l", J::Int(p.local.as_u32() as i128)), ("p", J::Arr(proj))])
    }

    fn operand(&mut self, o: &Operand<'tcx>) -> J {
        match o {
            Operand::Copy(p) => J::obj(vec![("k", J::s("copy")), ("pl", self.place(p))]),
            Operand::Move(p) => J::obj(vec![("k", J::s("move")), ("pl", self.place(p))]),
            Operand::Constant(c) => self.constant(&c.const_),
            Operand::RuntimeChecks(rc) => {
                let v = rc.value(self.tcx.sess);
                J::obj(vec![
                    ("k", J::s("const")),
                    ("ty", J::obj(vec![("k", J::s("bool"))])),
                    ("bits", J::Str((v as u128).to_string())),
                    ("runtime_check", J::Str(format!("{:?}", rc))),
                ])
            }
        }
    }

    fn constant(&mut self, c: &Const<'tcx>) -> J {
        let tcx = self.tcx;
        let ty = c.ty();
        let mut o = vec![("k", J::s("const")), ("ty", self.ty(ty))];
        if let ty::FnDef(def_id, args) = *ty.kind() {
            o.push(("fn", self.fn_ref(def_id, args)));
            return J::obj(o);
        }
        if let Const::Unevaluated(u, _) = c {
            o.push(("item", J::Str(tcx.def_path_str(u.def))));
            if let Some(p) = u.promoted {
                o.push(("promoted", J::Int(p.as_u32() as i128)));
            }
        }
        use rustc_middle::ty::TypeVisitableExt;
        if c.has_param() {
            o.push(("generic", J::Bool(true)));
            return J::obj(o);
        }
        let env = TypingEnv::fully_monomorphized();
        match c.eval(tcx, env, rustc_span::DUMMY_SP) {
            Ok(ConstValue::Scalar(mir::interpret::Scalar::Int(si))) => {
                let size = si.size();
                o.push(("bits", J::Str(si.to_bits(size).to_string())));
                o.push(("size", J::Int(size.bytes() as i128)));
            }
            Ok(ConstValue::Scalar(mir::interpret::Scalar::Ptr(ptr, _))) => {
                let (prov, off) = ptr.prov_and_relative_offset();
                let aid = prov.alloc_id();
                match tcx.global_alloc(aid) {
                    mir::interpret::GlobalAlloc::Static(sid) => {
                        o.push(("static", J::Str(tcx.def_path_str(sid))));
                        o.push(("offset", J::Int(off.bytes() as i128)));
                    }
                    mir::interpret::GlobalAlloc::Memory(a) => {
                        o.push(("alloc", self.alloc_bytes(a.inner())));
                        o.push(("offset", J::Int(off.bytes() as i128)));
                    }
                    mir::interpret::GlobalAlloc::Function { instance } => {
                        o.push(("fnptr", J::Str(tcx.def_path_str(instance.def_id()))));
                    }
                    _ => o.push(("ptr", J::s("other"))),
                }
            }
            Ok(ConstValue::ZeroSized) => o.push(("zst", J::Bool(true))),
            Ok(ConstValue::Slice { alloc_id, meta }) => {
                if let mir::interpret::GlobalAlloc::Memory(a) = tcx.global_alloc(alloc_id) {
                    o.push(("slice", self.alloc_bytes(a.inner())));
                }
                o.push(("meta", J::Int(meta as i128)));
            }
            Ok(ConstValue::Indirect { alloc_id, offset }) => {
                if let mir::interpret::GlobalAlloc::Memory(a) = tcx.global_alloc(alloc_id) {
                    o.push(("indirect", self.alloc_bytes(a.inner())));
                    o.push(("has_ptrs", J::Bool(!a.inner().provenance().ptrs().is_empty())));
                }
                o.push(("offset", J::Int(offset.bytes() as i128)));
            }
            Err(_) => o.push(("eval_error", J::Bool(true))),
        }
        J::obj(o)
    }

    fn alloc_bytes(&self, a: &mir::interpret::Allocation) -> J {
        let n = a.len().min(1 << 16);
        let bytes = a.inspect_with_uninit_and_ptr_outside_interpreter(0..n);
        let mut hex = String::with_capacity(2 * n);
        for b in bytes {
            let _ = write!(hex, "{:02x}", b);
        }
        J::Str(hex)
    }

    fn rvalue(&mut self, rv: &Rvalue<'tcx>) -> J {
        match rv {
            Rvalue::Use(op, ..) => J::obj(vec![("k", J::s("use")), ("op", self.operand(op))]),
            Rvalue::Repeat(op, n) => J::obj(vec![
                ("k", J::s("repeat")),
                ("op", self.operand(op)),
                ("n", J::Str(format!("{n}"))),
            ]),
            Rvalue::Ref(_, bk, pl) => J::obj(vec![
                ("k", J::s("ref")),
                ("mut", J::Bool(matches!(bk, BorrowKind::Mut { .. }))),
                ("pl", self.place(pl)),
            ]),
            Rvalue::RawPtr(kind, pl) => J::obj(vec![
                ("k", J::s("rawptr")),
                ("mut", J::Bool(matches!(kind, mir::RawPtrKind::Mut))),
                ("pl", self.place(pl)),
            ]),
            Rvalue::Cast(kind, op, ty) => {
                let ks = match kind {
                    CastKind::IntToInt => "int_to_int".to_string(),
                    CastKind::FloatToInt => "float_to_int".to_string(),
                    CastKind::FloatToFloat => "float_to_float".to_string(),
                    CastKind::IntToFloat => "int_to_float".to_string(),
                    CastKind::PtrToPtr => "ptr_to_ptr".to_string(),
                    CastKind::Transmute => "transmute".to_string(),
                    CastKind::PointerCoercion(pc, _) => format!("coerce_{:?}", pc),
                    other => format!("{:?}", other),
                };
                J::obj(vec![
                    ("k", J::s("cast")),
                    ("cast", J::Str(ks)),
                    ("op", self.operand(op)),
                    ("ty", self.ty(*ty)),
                ])
            }
            Rvalue::BinaryOp(op, b) => {
                let (l, r) = &**b;
                J::obj(vec![
                    ("k", J::s("binop")),
                    ("op", J::Str(binop_name(*op))),
                    ("l", self.operand(l)),
                    ("r", self.operand(r)),
                ])
            }
            Rvalue::UnaryOp(op, x) => J::obj(vec![
                ("k", J::s("unop")),
                (
                    "op",
                    J::Str(match op {
                        UnOp::Not => "not".to_string(),
                        UnOp::Neg => "neg".to_string(),
                        UnOp::PtrMetadata => "ptr_metadata".to_string(),
                    }),
                ),
                ("x", self.operand(x)),
            ]),
            Rvalue::Discriminant(pl) => J::obj(vec![("k", J::s("discr")), ("pl", self.place(pl))]),
            Rvalue::Aggregate(kind, ops) => {
                let mut o = vec![("k", J::s("aggregate"))];
                match &**kind {
                    AggregateKind::Array(t) => {
                        o.push(("agg", J::s("array")));
                        o.push(("elem", self.ty(*t)));
                    }
                    AggregateKind::Tuple => o.push(("agg", J::s("tuple"))),
                    AggregateKind::Adt(did, variant, _args, _, _) => {
                        o.push(("agg", J::s("adt")));
                        o.push(("adt", J::Str(self.tcx.def_path_str(*did))));
                        o.push(("variant", J::Int(variant.as_u32() as i128)));
                        let adt = self.tcx.adt_def(*did);
                        o.push((
                            "variant_name",
                            J::Str(adt.variant(*variant).name.to_string()),
                        ));
                        self.note_adt(adt);
                    }
                    AggregateKind::Closure(did, _) => {
                        o.push(("agg", J::s("closure")));
                        o.push(("closure", J::Str(self.tcx.def_path_str(*did))));
                    }
                    AggregateKind::RawPtr(..) => o.push(("agg", J::s("rawptr"))),
                    _ => o.push(("agg", J::s("other"))),
                }
                let v: Vec<J> = ops.iter().map(|x| self.operand(x)).collect();
                o.push(("ops", J::Arr(v)));
                J::obj(o)
            }
            Rvalue::CopyForDeref(pl) => J::obj(vec![
                ("k", J::s("use")),
                ("op", J::obj(vec![("k", J::s("copy")), ("pl", self.place(pl))])),
            ]),
            Rvalue::ThreadLocalRef(d) => J::obj(vec![
                ("k", J::s("tlsref")),
                ("static", J::Str(self.tcx.def_path_str(*d))),
            ]),
            other => J::obj(vec![("k", J::s("other")), ("dbg", J::Str(format!("{:?}", other)))]),
        }
    }

    fn note_adt(&mut self, adt: ty::AdtDef<'tcx>) {
        let tcx = self.tcx;
        let path = tcx.def_path_str(adt.did());
        if self.adts.contains_key(&path) {
            return;
        }
        self.adts.insert(path.clone(), J::Null);
        let mut variants = Vec::new();
        if adt.is_enum() {
            for (vidx, discr) in adt.discriminants(tcx) {
                let v = adt.variant(vidx);
                let fields: Vec<J> = v
                    .fields
                    .iter()
                    .map(|f| {
                        J::obj(vec![
                            ("name", J::Str(f.name.to_string())),
                            ("ty", J::Str(format!("{}", tcx.type_of(f.did).instantiate_identity().skip_norm_wip()))),
                            ("pub", J::Bool(f.vis.is_public())),
                        ])
                    })
                    .collect();
                variants.push(J::obj(vec![
                    ("name", J::Str(v.name.to_string())),
                    ("discr", J::Str(discr.val.to_string())),
                    ("fields", J::Arr(fields)),
                ]));
            }
        } else {
            for v in adt.variants().iter() {
                let fields: Vec<J> = v
                    .fields
                    .iter()
                    .map(|f| {
                        J::obj(vec![
                            ("name", J::Str(f.name.to_string())),
                            ("ty", J::Str(format!("{}", tcx.type_of(f.did).instantiate_identity().skip_norm_wip()))),
                            ("pub", J::Bool(f.vis.is_public())),
                        ])
                    })
                    .collect();
                variants.push(J::obj(vec![
                    ("name", J::Str(v.name.to_string())),
                    ("fields", J::Arr(fields)),
                ]));
            }
        }
        let kind = if adt.is_enum() {
            "enum"
        } else if adt.is_union() {
            "union"
        } else {
            "struct"
        };
        self.adts.insert(
            path,
            J::obj(vec![
                ("kind", J::s(kind)),
                ("local", J::Bool(adt.did().is_local())),
                ("variants", J::Arr(variants)),
            ]),
        );
    }

    fn ty(&mut self, t: Ty<'tcx>) -> J {
        self.ty_d(t, 0)
    }

    fn ty_d(&mut self, t: Ty<'tcx>, depth: usize) -> J {
        let s = J::Str(format!("{t}"));
        if depth > 4 {
            return J::obj(vec![("k", J::s("deep")), ("s", s)]);
        }
        match *t.kind() {
            ty::Bool => J::obj(vec![("k", J::s("bool"))]),
            ty::Char => J::obj(vec![("k", J::s("char"))]),
            ty::Int(i) => J::obj(vec![
                ("k", J::s("int")),
                ("w", J::Int(i.bit_width().unwrap_or(64) as i128)),
                ("s", J::Bool(true)),
                ("n", J::Str(i.name_str().to_string())),
            ]),
            ty::Uint(u) => J::obj(vec![
                ("k", J::s("int")),
                ("w", J::Int(u.bit_width().unwrap_or(64) as i128)),
                ("s", J::Bool(false)),
                ("n", J::Str(u.name_str().to_string())),
            ]),
            ty::Float(f) => J::obj(vec![("k", J::s("float")), ("w", J::Int(f.bit_width() as i128))]),
            ty::Adt(adt, args) => {
                self.note_adt(adt);
                let a: Vec<J> = args.types().map(|x| self.ty_d(x, depth + 1)).collect();
                J::obj(vec![
                    ("k", J::s("adt")),
                    ("path", J::Str(self.tcx.def_path_str(adt.did()))),
                    ("args", J::Arr(a)),
                    ("s", s),
                ])
            }
            ty::Ref(_, inner, m) => J::obj(vec![
                ("k", J::s("ref")),
                ("mut", J::Bool(m.is_mut())),
                ("to", self.ty_d(inner, depth + 1)),
            ]),
            ty::RawPtr(inner, m) => J::obj(vec![
                ("k", J::s("ptr")),
                ("mut", J::Bool(m.is_mut())),
                ("to", self.ty_d(inner, depth + 1)),
            ]),
            ty::Array(elem, len) => J::obj(vec![
                ("k", J::s("array")),
                ("elem", self.ty_d(elem, depth + 1)),
                ("len", J::Str(format!("{len}"))),
            ]),
            ty::Slice(elem) => {
                J::obj(vec![("k", J::s("slice")), ("elem", self.ty_d(elem, depth + 1))])
            }
            ty::Tuple(elems) => {
                let a: Vec<J> = elems.iter().map(|x| self.ty_d(x, depth + 1)).collect();
                J::obj(vec![("k", J::s("tuple")), ("elems", J::Arr(a))])
            }
            ty::FnDef(did, _) => J::obj(vec![
                ("k", J::s("fndef")),
                ("path", J::Str(self.tcx.def_path_str(did))),
            ]),
            ty::Closure(did, _) => J::obj(vec![
                ("k", J::s("closure")),
                ("path", J::Str(self.tcx.def_path_str(did))),
            ]),
            ty::Str => J::obj(vec![("k", J::s("str"))]),
            ty::Never => J::obj(vec![("k", J::s("never"))]),
            ty::Dynamic(..) => J::obj(vec![("k", J::s("dyn")), ("s", s)]),
            ty::Param(_) => J::obj(vec![("k", J::s("param")), ("s", s)]),
            _ => J::obj(vec![("k", J::s("other")), ("s", s)]),
        }
    }
}

fn binop_name(op: BinOp) -> String {
    format!("{:?}", op).to_lowercase()
}
